#!/usr/bin/env python3
"""Generates /verif/MANIFEST.json from MANIFEST.base.json and scripts/claims.json.
claims.json: {"claimed": {"C05": {"text":..., "note":..., "technique":..., "design_ref":...}}, "not_applicable": {"C02": reason}}
Every property of properties.jsonl must be in exactly one of the two."""
import json, sys
base=json.load(open('/verif/MANIFEST.base.json'))
claims=json.load(open('/verif/scripts/claims.json'))
import subprocess
explain=json.loads(subprocess.check_output(['/verif/bin/edscheck','-explain']))
DEFAULT_NOTE="Trusted: go/types and go/ssa (golang.org/x/tools v0.29.0), the rule tables in /verif/checker (rules_%s.go), the controller-runtime client verbs do what they say. Anchors are resolved through the type-checked program; an anchor or construct the rule cannot classify is reported (fail closed). Only the shape of the code on every path is decided, never a run."
DEFAULT_TECH="static analysis: repository-specific rules over the type-checked SSA program (must-fact dataflow, path/decision tables, value provenance, API-effect index)"
ids=[json.loads(l)['id'] for l in open('/verif/properties.jsonl')]
checks=[]; na=[]
for pid in ids:
    c=claims['claimed'].get(pid)
    if c is not None and pid not in explain: sys.exit(f"{pid} claimed but not registered in the checker")
    if c is not None:
        c.setdefault('text',"Decides structural necessary conditions of the property on every path of the anchored code, by static analysis of the source (no execution): "+explain[pid]+" A violation of any decided clause breaks the property for some input; the behaviour over histories/schedules/values named as not decided in the evidence is not claimed.")
        c.setdefault('note',DEFAULT_NOTE % pid.lower())
        c.setdefault('technique',DEFAULT_TECH)
        checks.append({
          "property_id":pid,
          "quick_cmd":f"./bin/edscheck -property {pid} -tier quick",
          "thorough_cmd":f"./bin/edscheck -property {pid} -tier thorough",
          "evidence_file":f"/verif/evidence/{pid}.json",
          "replay_cmd_template":f"./bin/edscheck -property {pid} -replay {{path}}",
          "engine":"edscheck",
          "level_claimed":{"category":"other","text":c['text'],"design_ref":c.get('design_ref',f"DESIGN.md §3 {pid}")},
          "level_note":c['note'],
          "technique":c['technique'],
        })
    else:
        r=claims['not_applicable'].get(pid)
        if not r: sys.exit(f"{pid} neither claimed nor not_applicable")
        na.append({"property_id":pid,"reason":r})
base['checks']=checks
base['not_applicable']=na
base['engines'][0]['serves_properties']=[c['property_id'] for c in checks]
json.dump(base,open('/verif/MANIFEST.json','w'),indent=1)
print("claimed",len(checks),"not_applicable",len(na))
