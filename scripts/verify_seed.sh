#!/bin/bash
# usage: verify_seed.sh <ID> <k>
# Confirms a seeded change delivered by a fault-seeding agent in worktree /tmp/wt/<ID>/_out/<k>:
#   clean tree: demo passes; with patch: builds, pinned suite passes (except TestAPIs), demo fails.
# On success copies it to /verif/seeded/<ID>-<k>/ with meta.json extended by what was run.
set -u
ID=$1; K=$2
WT=${WTROOT:-/tmp/wt}/$ID; OUT=$WT/_out/$K
export GOFLAGS= GOPROXY=off GOSUMDB=off GOTOOLCHAIN=local
unset GOWORK
cd "$WT" || exit 2
git checkout -q -- . 2>/dev/null
log() { echo "[$ID-$K] $*"; }
# place demo files
python3 - "$OUT" "$WT" <<'PY' || { echo "[$1-$2] cannot place demo files"; exit 2; }
import json,sys,shutil,os
out,wt=sys.argv[1],sys.argv[2]
m=json.load(open(out+'/meta.json'))
for src,dst in m['demo_files'].items():
    d=os.path.join(wt,dst)
    if os.path.isdir(d) or dst.endswith('/'): d=os.path.join(d,os.path.basename(src))
    os.makedirs(os.path.dirname(d),exist_ok=True)
    shutil.copy(os.path.join(out,src),d)
    print(d)
PY
DEMO_CMD=$(python3 -c "import json;print(json.load(open('$OUT/meta.json'))['demo_cmd'])")
run_demo() { (cd "$WT" && bash -c "$DEMO_CMD") > "$OUT/.demo.log" 2>&1; }
cleanup() { cd "$WT"; git checkout -q -- .; git status --short | grep -v -E '_out/|PROPERTY.json|ALREADY_USED.md' | awk '{print $2}' | xargs -r rm -rf; }
run_demo; base=$?
if [ $base -ne 0 ]; then log "FAIL: demo does not pass on the clean tree"; tail -5 "$OUT/.demo.log"; cleanup; exit 1; fi
git apply "$OUT/patch.diff" || { log "FAIL: patch does not apply"; cleanup; exit 1; }
(go build ./... && cd api && go build ./...) > "$OUT/.build.log" 2>&1 || { log "FAIL: does not build"; cleanup; exit 1; }
run_demo; withp=$?
if [ $withp -eq 0 ]; then log "FAIL: demo passes with the patch"; cleanup; exit 1; fi
# suite without the demo files
python3 - "$OUT" "$WT" <<'PY'
import json,sys,os
out,wt=sys.argv[1],sys.argv[2]
m=json.load(open(out+'/meta.json'))
for src,dst in m['demo_files'].items():
    d=os.path.join(wt,dst)
    if os.path.isdir(d): d=os.path.join(d,os.path.basename(src))
    if os.path.exists(d): os.remove(d)
PY
/verif/scripts/suite.sh "$WT" > "$OUT/.suite.log" 2>&1; suite=$?
if [ $suite -ne 0 ]; then log "FAIL: pinned suite fails with the patch"; cat "$OUT/.suite.log" | head; cleanup; exit 1; fi
cleanup
D=/verif/seeded/$ID-${SEEDTAG:-}$K
mkdir -p "$D"
cp "$OUT"/patch.diff "$D"/
for f in "$OUT"/*; do case "$(basename $f)" in patch.diff|meta.json) ;; *) [ -f "$f" ] && cp "$f" "$D"/;; esac; done
python3 - "$OUT/meta.json" "$D/meta.json" <<'PY'
import json,sys
m=json.load(open(sys.argv[1]))
m['confirmed_by_verifier']={"clean_tree_demo":"pass","patched_build":"ok (root and api)","patched_suite":"pinned suite passes (TestAPIs excluded, as in the baseline)","patched_demo":"fails","how":"scripts/verify_seed.sh in the seed's scratch worktree of /repo HEAD"}
json.dump(m,open(sys.argv[2],'w'),indent=1)
PY
log "OK -> $D"
