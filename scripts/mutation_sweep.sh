#!/bin/bash
# usage: mutation_sweep.sh <mutants-dir> [parallel]
# Measurement aid (no verdict): for every mutant <dir>/mNNNN/patch.diff made by bin/mutgen,
#   scratch copy of /repo + patch -> go build (root, api) -> edscheck -property all
#   -> when the checker is silent, the pinned suite.
# Writes <dir>/mNNNN/result.txt: stillborn | caught <rules> | killed-by-tests | SURVIVOR
# and prints a summary. Scratch copies are removed.
set -u
DIR=$1; PAR=${2:-3}
export GOFLAGS= GOPROXY=off GOSUMDB=off GOTOOLCHAIN=local; unset GOWORK
run_one() {
  d=$1; [ -f "$d/result.txt" ] && return
  T=$(mktemp -d /tmp/mutx.XXXXXX); mkdir -p "$T/root"; cp /verif/known_findings.json "$T/root/"
  rsync -a --exclude .git /repo/ "$T/repo/"
  if ! (cd "$T/repo" && patch -p1 -s --no-backup-if-mismatch < "$d/patch.diff") >/dev/null 2>&1; then echo "noapply" > "$d/result.txt"; rm -rf "$T"; return; fi
  if ! (cd "$T/repo" && go build ./... && cd api && go build ./...) >/dev/null 2>&1; then echo "stillborn" > "$d/result.txt"; rm -rf "$T"; return; fi
  out=$(/verif/bin/edscheck -repo "$T/repo" -root "$T/root" -property all 2>&1)
  rules=$(echo "$out" | grep -oE '^C[0-9]+\.[A-Za-z0-9]+' | sort -u | tr '\n' ' ')
  if echo "$out" | grep -q VIOLATION; then echo "caught $rules" > "$d/result.txt"; rm -rf "$T"; return; fi
  if /verif/scripts/suite.sh "$T/repo" > "$d/suite.log" 2>&1; then echo "SURVIVOR" > "$d/result.txt"; else echo "killed-by-tests" > "$d/result.txt"; fi
  rm -rf "$T"
}
export -f run_one
ls -d "$DIR"/m* | xargs -P "$PAR" -I{} bash -c 'run_one {}'
echo "total $(ls -d "$DIR"/m* | wc -l)"
for k in stillborn noapply caught killed-by-tests SURVIVOR; do echo "$k $(cat "$DIR"/m*/result.txt | grep -c "^$k")"; done
