#!/bin/bash
# Applies every negative control (behaviour-preserving rewrite) to a scratch copy and runs ALL
# properties on it: none may raise an alarm. Output: one line per control.
cd /verif/controls/negative
run_one() {
  p=$1; T=$(mktemp -d /tmp/negx.XXXXXX); mkdir -p "$T/root"; cp /verif/known_findings.json "$T/root/"
  rsync -a --exclude .git /repo/ "$T/repo/"
  if (cd "$T/repo" && patch -p1 -s --no-backup-if-mismatch < "/verif/controls/negative/$p") >/dev/null 2>&1; then
    out=$(/verif/bin/edscheck -repo "$T/repo" -root "$T/root" -property all 2>&1)
    bad=$(echo "$out" | grep "VIOLATION" | tr '\n' ' ')
    if [ -z "$bad" ]; then echo "silent   $p"; else echo "ALARM    $p : $bad"; echo "$out" | grep -E '^C[0-9]+\.' | head -3 | cut -c1-300; fi
  else echo "skipped  $p (does not apply)"; fi
  rm -rf "$T"
}
export -f run_one
ls *.patch | xargs -P 4 -I{} bash -c 'run_one {}'
