#!/bin/bash
# usage: merge_update.sh <G> <file...> — copy updated rule files of group G into /verif/checker and re-add the
# import hooks appended by rules_xref.go wiring (idempotent).
set -eu
G=$1; shift
for f in "$@"; do cp /tmp/rw/$G/checker/$f /verif/checker/$f; done
cd /verif/checker && python3 - <<'PY'
hooks={'rules_c02.go':('runC02',['c02Imports(r)']),'rules_c07.go':('runC07',['c07Imports(r)']),'rules_c08.go':('runC08',['c08Imports(r)']),
 'rules_c01.go':('runC01',['c01CleanupAlways(r)']),'rules_c03.go':('runC03',['c03SecondsUnit(r)']),'rules_c04.go':('runC04',['c04LabelLoopExits(r)']),
 'rules_c13.go':('runC13',['c13Imports(r)']),'rules_c15.go':('runC15',['c15Imports(r)']),'rules_c17.go':('runC17',['c17Imports(r)']),
 'rules_c11.go':('runC11',['c11Extra(r)']),'rules_c10.go':('runC10',['c10Imports(r)']),'rules_c14.go':('runC14',['c14Imports(r)']),'rules_c16.go':('runC16',['c16Imports(r)'])}
for path,(fn,calls) in hooks.items():
    s=open(path).read()
    i=s.index('func %s(r *Run) {' % fn); j=s.index('\n}\n', i)
    for call in calls:
        if call not in s[i:j]:
            s=s[:j]+'\n\t'+call+s[j:]; j=s.index('\n}\n', i)
    open(path,'w').write(s)
PY
GOFLAGS=-mod=vendor GOPROXY=off GOTOOLCHAIN=local go build -o /verif/bin/edscheck . && echo built
