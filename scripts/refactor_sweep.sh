#!/bin/bash
# Applies every kept behaviour-preserving refactoring (written by independent refactoring agents
# that saw only the source) to a scratch copy and runs ALL properties: none may raise an alarm.
cd /verif/refactorings
run_one() {
  d=$1; T=$(mktemp -d /tmp/rfx.XXXXXX); mkdir -p "$T/root"; cp /verif/known_findings.json "$T/root/"
  rsync -a --exclude .git /repo/ "$T/repo/"
  if (cd "$T/repo" && patch -p1 -s --no-backup-if-mismatch < "/verif/refactorings/$d/patch.diff") >/dev/null 2>&1; then
    out=$(/verif/bin/edscheck -repo "$T/repo" -root "$T/root" -property all 2>&1)
    bad=$(echo "$out" | grep "VIOLATION" | tr '\n' ' ')
    if [ -z "$bad" ]; then echo "silent   $d"; else echo "ALARM    $d : $bad"; echo "$out" | grep -E '^C[0-9]+\.' | cut -c1-260 | sed 's/^/           /'; fi
  else echo "skipped  $d (does not apply)"; fi
  rm -rf "$T"
}
export -f run_one
SEL=("$@"); [ ${#SEL[@]} -eq 0 ] && SEL=($(ls -d */ | tr -d /))
OUT=$(printf '%s\n' "${SEL[@]}" | xargs -P 3 -I{} bash -c 'run_one {}')
echo "$OUT"
if [ $# -eq 0 ]; then { echo '# Refactoring sweep (all 20 properties on every kept behaviour-preserving refactoring)'; echo; echo '```'; echo "$OUT" | grep -E '^(silent|ALARM|skipped)' | sed 's/ALL //g; s/ VIOLATION//g' | sort -k2; echo '```'; echo; echo "silent: $(echo "$OUT" | grep -c '^silent') of $(echo "$OUT" | grep -cE '^(silent|ALARM)')"; } > /verif/refactorings/SWEEP.md; fi
