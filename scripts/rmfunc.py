#!/usr/bin/env python3
"""rmfunc.py <file.go> <funcname>... — removes top-level function/type/var declarations by name
(with their doc comment) from a Go file; used when merging helper files that define the same helper."""
import re,sys
path=sys.argv[1]; names=sys.argv[2:]
src=open(path).read().split('\n')
out=[]; i=0
while i<len(src):
    line=src[i]
    m=re.match(r'func (\([^)]*\) )?(\w+)\(',line) or re.match(r'type (\w+) ',line)
    name=None
    if m: name=m.group(m.lastindex)
    if name in names and not line.startswith('func ('):
        # drop preceding comment lines
        while out and out[-1].startswith('//'): out.pop()
        # skip to closing brace at column 0
        if line.rstrip().endswith('{'):
            i+=1
            while i<len(src) and src[i]!='}': i+=1
            i+=1
        else:
            i+=1
        while i<len(src) and src[i]=='' and out and out[-1]=='': i+=1
        continue
    out.append(line); i+=1
open(path,'w').write('\n'.join(out))
