#!/usr/bin/env python3
"""usage: mutation_materialize.py <outdir> [only-verdict]
Re-creates <outdir>/mNNNN/{patch.diff,meta.json} from /verif/mutation/mutants.json (the archived
mutation sweep) so that scripts/mutation_sweep.sh can be re-run; with only-verdict=violates only the
survivors that triage judged property-violating are written."""
import json,os,sys
out=sys.argv[1]; only=sys.argv[2] if len(sys.argv)>2 else None
n=0
for e in json.load(open('/verif/mutation/mutants.json')):
    if only and (e.get('triage') or {}).get('verdict')!=only: continue
    d=os.path.join(out,e['mutant']); os.makedirs(d,exist_ok=True)
    open(os.path.join(d,'patch.diff'),'w').write(e['patch'])
    json.dump({k:e[k] for k in ('file','line','func','operator')},open(os.path.join(d,'meta.json'),'w'))
    n+=1
print(n,'mutants written to',out)
