#!/bin/bash
# usage: with_patch.sh <patch-file|-R:commit> <property> [more edscheck args]
# Copies /repo's working tree to a scratch dir outside /repo and /verif, applies the patch
# (or reverts the given /repo commit with -R:<sha>), runs the checker on the copy with a
# scratch evidence root, prints its output and exit code, and removes the copy.
set -u
PATCH=$1; PROP=$2; shift 2
T=$(mktemp -d /tmp/edsctl.XXXXXX)
trap 'rm -rf "$T"' EXIT
mkdir -p "$T/repo" "$T/root"
rsync -a --exclude .git /repo/ "$T/repo/"
cp /verif/known_findings.json "$T/root/" 2>/dev/null
if [[ "$PATCH" == -R:* ]]; then
  (cd /repo && git show "${PATCH#-R:}" ) | (cd "$T/repo" && patch -R -p1 -s) || { echo "revert failed"; exit 3; }
else
  (cd "$T/repo" && patch -p1 -s < "$PATCH") || { echo "patch failed"; exit 3; }
fi
${EDSCHECK:-/verif/bin/edscheck} -repo "$T/repo" -root "$T/root" -property "$PROP" "$@"
echo "exit=$?"
