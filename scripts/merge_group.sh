#!/bin/bash
# usage: merge_group.sh <G> <ids...>   — merge a rule-writer group's files into /verif
set -eu
G=$1; shift
cp /tmp/rw/$G/checker/helpers_$G.go /verif/checker/ 2>/dev/null || true
for id in "$@"; do
  lc=$(echo $id | tr 'C' 'c')
  cp /tmp/rw/$G/checker/rules_$lc.go /verif/checker/
  mkdir -p /verif/controls/$id
  for p in /tmp/rw/$G/controls/$id/*.patch; do
    [ -e "$p" ] || continue
    b=$(basename "$p")
    # normalise "r1-name.patch" / "R1__name.patch" / "name.patch"
    if [[ "$b" =~ ^[rR]([0-9]+[a-z]?)-(.*)$ ]]; then b="R${BASH_REMATCH[1]}__${BASH_REMATCH[2]}"; fi
    cp "$p" "/verif/controls/$id/$b"
  done
  for p in /tmp/rw/$G/controls/negative/$id-*.patch; do
    [ -e "$p" ] || continue
    cp "$p" /verif/controls/negative/
  done
done
ls /verif/controls/$1 | head -3
