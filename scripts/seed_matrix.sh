#!/bin/bash
# Runs every property's rules (edscheck -property all) on a scratch copy of /repo with each kept
# seeded change applied, and writes /verif/seeded/MATRIX.md: which checks catch which change.
# usage: seed_matrix.sh [seed-dir-name ...]   (default: all of /verif/seeded/*/)
set -u
cd /verif/seeded
SEEDS=("$@"); [ ${#SEEDS[@]} -eq 0 ] && SEEDS=($(ls -d */ | tr -d /))
TMPD=$(mktemp -d /tmp/seedmx.XXXXXX); trap 'rm -rf "$TMPD"' EXIT
run_one() {
  s=$1; T=$(mktemp -d /tmp/seedrun.XXXXXX)
  mkdir -p "$T/root"; cp /verif/known_findings.json "$T/root/"
  rsync -a --exclude .git /repo/ "$T/repo/"
  if (cd "$T/repo" && patch -p1 -s --no-backup-if-mismatch < "/verif/seeded/$s/patch.diff") >/dev/null 2>&1; then
    /verif/bin/edscheck -repo "$T/repo" -root "$T/root" -property all > "$TMPD/$s.out" 2>&1
  else
    echo "PATCH-DOES-NOT-APPLY" > "$TMPD/$s.out"
  fi
  rm -rf "$T"
}
export -f run_one; export TMPD
printf '%s\n' "${SEEDS[@]}" | xargs -P 4 -I{} bash -c 'run_one {}'
{
echo "# Seeded changes × checks"
echo
echo "Produced by scripts/seed_matrix.sh (edscheck -property all on a scratch copy with the change applied)."
echo
echo "| seeded change | breaks | caught by (rules that fire) | own property's check |"
echo "|---|---|---|---|"
for s in "${SEEDS[@]}"; do
  own=${s%%-*}
  if grep -q PATCH-DOES-NOT-APPLY "$TMPD/$s.out"; then echo "| $s | $own | (patch does not apply to the current tree) | n/a |"; continue; fi
  rules=$(grep -oE '^C[0-9]+\.[A-Za-z0-9]+' "$TMPD/$s.out" | sort -u | tr '\n' ' ')
  if grep -q "^ALL $own VIOLATION" "$TMPD/$s.out"; then o="**caught**"; elif grep -q "^ALL $own ok" "$TMPD/$s.out"; then o="missed"; else o="(no check for $own)"; fi
  echo "| $s | $own | ${rules:-–} | $o |"
done
} > /verif/seeded/MATRIX.new.md
if [ $# -eq 0 ]; then mv /verif/seeded/MATRIX.new.md /verif/seeded/MATRIX.md; cat /verif/seeded/MATRIX.md; else cat /verif/seeded/MATRIX.new.md; rm /verif/seeded/MATRIX.new.md; fi
