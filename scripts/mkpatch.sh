#!/bin/bash
# usage: mkpatch.sh <out.patch> <edit-command...>
# Copies /repo's tree twice under a scratch dir, runs the edit command inside copy b/, checks that
# b/ still builds, writes `diff -ru a b` (applicable with patch -p1) to <out.patch>, removes the copies.
# The edit command may be "-R:<sha>" to reverse a /repo commit.
set -eu
OUT=$(readlink -f "$1"); shift
T=$(mktemp -d /tmp/mkpatch.XXXXXX)
trap 'rm -rf "$T"' EXIT
rsync -a --exclude .git /repo/ "$T/a/"
rsync -a --exclude .git /repo/ "$T/b/"
if [[ "$1" == -R:* ]]; then
  (cd /repo && git show "${1#-R:}") | (cd "$T/b" && patch -R -p1 -s --no-backup-if-mismatch)
else
  (cd "$T/b" && "$@")
fi
(cd "$T/b" && GOFLAGS= GOPROXY=off GOTOOLCHAIN=local go build ./... && cd api && GOFLAGS= GOPROXY=off GOTOOLCHAIN=local go build ./...) || { echo "edited tree does not build"; exit 2; }
(cd "$T" && diff -ru a b > "$OUT") || true
[ -s "$OUT" ] || { echo "empty patch"; exit 3; }
echo "wrote $OUT ($(grep -c '^[-+][^-+]' "$OUT") changed lines)"
