#!/bin/bash
# Runs the pinned test suite of /repo (both modules, guard off) and prints failing tests.
# Exit 0 iff the only failing top-level entries are the baseline's always-failing envtest ones (TestAPIs).
REPO=${1:-/repo}
export GOPROXY=off GOSUMDB=off GOTOOLCHAIN=local GOFLAGS=
unset GOWORK
rc=0
for m in . api; do
  out=$(cd "$REPO/$m" && go test -vet=off -count=1 -timeout 25m ./... 2>&1)
  fails=$(echo "$out" | grep -E '^(--- FAIL|FAIL|panic:)' | grep -v -E 'TestAPIs|^FAIL$|^FAIL\s+github.com/DataDog/extendeddaemonset/controllers\s' )
  if [ -n "$fails" ]; then echo "module $m:"; echo "$fails"; rc=1; fi
  echo "$out" | grep -E '^(ok|FAIL|---)' | grep -c '^ok' | sed "s/^/module $m ok packages: /"
done
exit $rc
