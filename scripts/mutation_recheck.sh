#!/bin/bash
# Re-runs every property (edscheck -property all) on the surviving mutants that triage judged
# property-violating (mutation/mutants.json) and writes mutation/RECHECK.md: which rules catch them now.
set -u
D=$(mktemp -d /tmp/mutrc.XXXXXX); trap 'rm -rf "$D"' EXIT
python3 /verif/scripts/mutation_materialize.py "$D" violates >/dev/null
recheck() { d=$1; m=$(basename $d); T=$(mktemp -d /tmp/mutx.XXXXXX); mkdir -p $T/root; cp /verif/known_findings.json $T/root/; rsync -a --exclude .git /repo/ $T/repo/
  (cd $T/repo && patch -p1 -s --no-backup-if-mismatch < $d/patch.diff) >/dev/null 2>&1
  out=$(/verif/bin/edscheck -repo $T/repo -root $T/root -property all 2>&1); rules=$(echo "$out" | grep -oE '^C[0-9]+\.[A-Za-z0-9]+' | sort -u | tr '\n' ' ')
  echo "$m ${rules:-SILENT}"; rm -rf $T; }
export -f recheck
ls -d "$D"/m* | xargs -P 3 -I{} bash -c 'recheck {}' | sort > "$D/res.txt"
python3 - "$D/res.txt" <<'PY'
import json,sys
res=dict(l.strip().split(' ',1) for l in open(sys.argv[1]) if ' ' in l)
rows=[e for e in json.load(open('/verif/mutation/mutants.json')) if (e.get('triage') or {}).get('verdict')=='violates']
plumb=[e for e in rows if e['triage']['property']=='C19' and not e['func'].endswith('run') and '.run' not in e['func']]
out=['# Surviving mutants judged property-violating × current checks','',
'Produced by scripts/mutation_recheck.sh. "survivor" = built, every check silent at the time of the sweep, pinned suite passes.','',
'| mutant | file:line | edit | triage: property (confidence) | rules that fire now |','|---|---|---|---|---|']
n=c=0
for e in rows:
    t=e['triage']; r=res.get(e['mutant'],'?').strip()
    n+=1; c+= r!='SILENT'
    note='– (silent)'
    wiring = t['property']=='C19' and not e['func'].endswith('.run')
    if wiring: note='– (silent; CLI wiring outside the command bodies: not covered by C19 as stated)'
    if e['mutant'] in ('m0212','m0223'): note='– (silent; left on purpose, see DESIGN §9.9)'
    if e['mutant']=='m0155': note='– (silent; low-confidence triage: no statement bounds what the inverted migration test breaks)'
    if not (wiring and r=='SILENT'):
        ins=globals().get('ins',0)+1; globals()['ins']=ins
        if r!='SILENT': globals()['insc']=globals().get('insc',0)+1
    out.append('| %s | %s:%s | %s | %s (%s) | %s |'%(e['mutant'],e['file'].split('/')[-1],e['line'],e['operator'],t['property'],t.get('confidence'),r if r!='SILENT' else note))
out+=['','caught now: %d of %d (of the %d outside the CLI wiring: %d)'%(c,n,globals().get('ins',0),globals().get('insc',0))]
open('/verif/mutation/RECHECK.md','w').write('\n'.join(out)+'\n')
print('caught now: %d of %d'%(c,n))
PY
