#!/bin/bash
# usage: verify_refactor.sh <G> <k> — confirms a refactoring delivered in /tmp/rf/<G>/_out/<k>
# (applies, builds, pinned suite passes) and keeps it as /verif/refactorings/<G>-<k>/.
set -u
G=$1; K=$2; WT=${RFROOT:-/tmp/rf}/$G; OUT=$WT/_out/$K
export GOFLAGS= GOPROXY=off GOSUMDB=off GOTOOLCHAIN=local; unset GOWORK
cd "$WT" || exit 2
git checkout -q -- .; git status --short | grep -v -E '_out/|ALREADY_DONE.md' | awk '{print $2}' | xargs -r rm -rf
git apply "$OUT/patch.diff" || { echo "[$G-$K] FAIL: patch does not apply"; exit 1; }
(go build ./... && cd api && go build ./...) >/dev/null 2>&1 || { echo "[$G-$K] FAIL: build"; git checkout -q -- .; exit 1; }
/verif/scripts/suite.sh "$WT" > "$OUT/.suite.log" 2>&1 || { echo "[$G-$K] FAIL: suite"; head -5 "$OUT/.suite.log"; git checkout -q -- .; git status --short | grep -v -E '_out/|ALREADY_DONE.md' | awk '{print $2}' | xargs -r rm -rf; exit 1; }
git checkout -q -- .; git status --short | grep -v -E '_out/|ALREADY_DONE.md' | awk '{print $2}' | xargs -r rm -rf
D=/verif/refactorings/${RFTAG:-}$G-$K; mkdir -p "$D"; cp "$OUT/patch.diff" "$OUT/meta.json" "$D"/
echo "[$G-$K] OK"
