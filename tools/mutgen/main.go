// mutgen: systematic single-site mutants of the non-test Go source of the repository (measurement aid
// for the checker, not part of any verdict). Every mutant is a minimal textual edit at a position taken
// from the syntax tree: negated if-condition, swapped logical/relational/arithmetic operator, removed
// statement, flipped boolean or 0/1 literal, continue/break dropped. Output: <out>/<n>/patch.diff and
// meta.json. Sampling is deterministic (-seed).
package main

import (
	"encoding/json"
	"flag"
	"fmt"
	"go/ast"
	"go/parser"
	"go/token"
	"math/rand"
	"os"
	"os/exec"
	"path/filepath"
	"sort"
	"strings"
)

type edit struct {
	File      string `json:"file"`
	Line      int    `json:"line"`
	Func      string `json:"func"`
	Op        string `json:"operator"`
	Orig      string `json:"original"`
	Repl      string `json:"replacement"`
	start, end int
}

var swaps = map[token.Token][]string{
	token.LAND: {"||"}, token.LOR: {"&&"},
	token.EQL: {"!="}, token.NEQ: {"=="},
	token.LSS: {"<=", ">"}, token.LEQ: {"<"}, token.GTR: {">=", "<"}, token.GEQ: {">"},
	token.ADD: {"-"}, token.SUB: {"+"},
}

func isLogCall(e ast.Expr) bool {
	c, ok := e.(*ast.CallExpr)
	if !ok {
		return false
	}
	s := exprText(c.Fun)
	for _, p := range []string{"logger.", "reqLogger.", "log.", "klog.", "fmt.Print", "fmt.Fprint", "o.logger", "r.log.", "cmd.Print"} {
		if strings.HasPrefix(s, p) {
			return true
		}
	}
	return strings.Contains(s, "Logger.") || strings.Contains(s, ".V(")
}

var src []byte

func exprText(n ast.Node) string { return string(src[off(n.Pos()):off(n.End())]) }

var fset *token.FileSet

func off(p token.Pos) int { return fset.Position(p).Offset }

func main() {
	repo := flag.String("repo", "/repo", "tree")
	out := flag.String("out", "", "output directory")
	seed := flag.Int64("seed", 1, "sampling seed")
	max := flag.Int("n", 400, "number of mutants to sample")
	flag.Parse()
	files := flag.Args()
	var all []edit
	for _, rel := range files {
		fset = token.NewFileSet()
		path := filepath.Join(*repo, rel)
		b, err := os.ReadFile(path)
		if err != nil {
			fmt.Fprintln(os.Stderr, err)
			os.Exit(2)
		}
		src = b
		f, err := parser.ParseFile(fset, path, b, parser.ParseComments)
		if err != nil {
			fmt.Fprintln(os.Stderr, err)
			os.Exit(2)
		}
		for _, d := range f.Decls {
			fd, ok := d.(*ast.FuncDecl)
			if !ok || fd.Body == nil {
				continue
			}
			name := fd.Name.Name
			if fd.Recv != nil && len(fd.Recv.List) > 0 {
				name = "(" + exprText(fd.Recv.List[0].Type) + ")." + name
			}
			add := func(n ast.Node, s, e token.Pos, op, repl string) {
				all = append(all, edit{File: rel, Line: fset.Position(s).Line, Func: name, Op: op, Orig: string(src[off(s):off(e)]), Repl: repl, start: off(s), end: off(e)})
			}
			ast.Inspect(fd.Body, func(n ast.Node) bool {
				switch x := n.(type) {
				case *ast.CallExpr:
					if isLogCall(x) {
						return false
					}
				case *ast.IfStmt:
					add(x, x.Cond.Pos(), x.Cond.End(), "negate-condition", "!("+exprText(x.Cond)+")")
				case *ast.BinaryExpr:
					for _, r := range swaps[x.Op] {
						if x.Op == token.ADD {
							// skip string concatenation
							if bl, ok := x.X.(*ast.BasicLit); ok && bl.Kind == token.STRING {
								continue
							}
							if bl, ok := x.Y.(*ast.BasicLit); ok && bl.Kind == token.STRING {
								continue
							}
						}
						add(x, x.OpPos, x.OpPos+token.Pos(len(x.Op.String())), "operator "+x.Op.String()+"→"+r, r)
					}
					if x.Op == token.LAND || x.Op == token.LOR {
						// drop one operand
						add(x, x.Pos(), x.End(), "keep-left-operand", exprText(x.X))
						add(x, x.Pos(), x.End(), "keep-right-operand", exprText(x.Y))
					}
				case *ast.ExprStmt:
					if !isLogCall(x.X) {
						add(x, x.Pos(), x.End(), "remove-call-statement", "")
					}
				case *ast.AssignStmt:
					if x.Tok != token.DEFINE {
						add(x, x.Pos(), x.End(), "remove-assignment", "")
					}
				case *ast.IncDecStmt:
					add(x, x.Pos(), x.End(), "remove-incdec", "")
				case *ast.BranchStmt:
					if x.Label == nil && (x.Tok == token.CONTINUE || x.Tok == token.BREAK) {
						add(x, x.Pos(), x.End(), "remove-"+x.Tok.String(), "")
						if x.Tok == token.BREAK {
							add(x, x.Pos(), x.End(), "break→continue", "continue")
						}
					}
				case *ast.Ident:
					if x.Name == "true" {
						add(x, x.Pos(), x.End(), "true→false", "false")
					} else if x.Name == "false" {
						add(x, x.Pos(), x.End(), "false→true", "true")
					}
				case *ast.BasicLit:
					if x.Kind == token.INT && (x.Value == "0" || x.Value == "1") {
						r := "1"
						if x.Value == "1" {
							r = "0"
						}
						add(x, x.Pos(), x.End(), x.Value+"→"+r, r)
					}
				case *ast.UnaryExpr:
					if x.Op == token.NOT {
						add(x, x.Pos(), x.End(), "drop-not", exprText(x.X))
					}
				case *ast.DeferStmt:
					add(x, x.Pos(), x.End(), "remove-defer", "")
				case *ast.GoStmt:
					return true
				}
				return true
			})
		}
		// materialise lazily below; keep source per file
		srcs[rel] = b
	}
	sort.SliceStable(all, func(i, j int) bool {
		if all[i].File != all[j].File {
			return all[i].File < all[j].File
		}
		if all[i].start != all[j].start {
			return all[i].start < all[j].start
		}
		return all[i].Op < all[j].Op
	})
	fmt.Fprintf(os.Stderr, "mutation sites: %d\n", len(all))
	rng := rand.New(rand.NewSource(*seed))
	idx := rng.Perm(len(all))
	if len(idx) > *max {
		idx = idx[:*max]
	}
	sort.Ints(idx)
	for n, i := range idx {
		e := all[i]
		b := srcs[e.File]
		mut := append(append(append([]byte{}, b[:e.start]...), []byte(e.Repl)...), b[e.end:]...)
		dir := filepath.Join(*out, fmt.Sprintf("m%04d", n))
		_ = os.MkdirAll(dir, 0o755)
		tmpA := filepath.Join(dir, "a.go")
		tmpB := filepath.Join(dir, "b.go")
		_ = os.WriteFile(tmpA, b, 0o644)
		_ = os.WriteFile(tmpB, mut, 0o644)
		c := exec.Command("diff", "-u", "--label", "a/"+e.File, "--label", "b/"+e.File, tmpA, tmpB)
		d, _ := c.Output()
		_ = os.WriteFile(filepath.Join(dir, "patch.diff"), d, 0o644)
		_ = os.Remove(tmpA)
		_ = os.Remove(tmpB)
		m, _ := json.MarshalIndent(e, "", " ")
		_ = os.WriteFile(filepath.Join(dir, "meta.json"), m, 0o644)
	}
	fmt.Fprintf(os.Stderr, "mutants written: %d\n", len(idx))
}

var srcs = map[string][]byte{}
