module mutgen

go 1.22
