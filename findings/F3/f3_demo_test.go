package strategy

// Demonstration for finding F3 (fix commit 940c5a8): copy into
// controllers/extendeddaemonsetreplicaset/strategy/ and run
//   GOFLAGS= GOPROXY=off GOTOOLCHAIN=local go test -count=1 -run TestF3 ./controllers/extendeddaemonsetreplicaset/strategy/
// On the pinned tree it fails (the pod the controller has just created for the node is judged
// outdated and selected for deletion on the next sync, i.e. it is deleted and recreated for ever);
// with the "fix:" commit it passes.
//
// History: node "node-1" carries the resources annotation
//   resources.extendeddaemonset.datadoghq.com/bar.foo.agent = {"requests":{"cpu":"200m"}}
// and is also selected by a valid ExtendedDaemonsetSetting that sets requests.cpu=500m for the same
// container "agent". The pod is created with the production constructor
// (CreatePodFromDaemonSetReplicaSet: the node annotation wins), becomes ready, and the active
// replica set is synced again.

import (
	"testing"
	"time"

	corev1 "k8s.io/api/core/v1"
	"k8s.io/apimachinery/pkg/api/resource"
	metav1 "k8s.io/apimachinery/pkg/apis/meta/v1"
	"sigs.k8s.io/controller-runtime/pkg/client/fake"

	datadoghqv1alpha1 "github.com/DataDog/extendeddaemonset/api/v1alpha1"
	"github.com/DataDog/extendeddaemonset/api/v1alpha1/test"
	podutils "github.com/DataDog/extendeddaemonset/pkg/controller/utils/pod"
)

func TestF3PodFromNodeAnnotationAndSettingJudgedOutdated(t *testing.T) {
	now := time.Now()
	metaNow := metav1.NewTime(now)

	replicaset := &datadoghqv1alpha1.ExtendedDaemonSetReplicaSet{
		ObjectMeta: metav1.ObjectMeta{
			Namespace: "bar",
			Name:      "foo-1",
			Labels:    map[string]string{datadoghqv1alpha1.ExtendedDaemonSetNameLabelKey: "foo"},
		},
		Spec: datadoghqv1alpha1.ExtendedDaemonSetReplicaSetSpec{
			TemplateGeneration: "v1",
			Template: corev1.PodTemplateSpec{
				Spec: corev1.PodSpec{
					Containers: []corev1.Container{{
						Name:  "agent",
						Image: "agent:1",
						Resources: corev1.ResourceRequirements{
							Requests: corev1.ResourceList{corev1.ResourceCPU: resource.MustParse("100m")},
						},
					}},
				},
			},
		},
		Status: datadoghqv1alpha1.ExtendedDaemonSetReplicaSetStatus{
			Conditions: []datadoghqv1alpha1.ExtendedDaemonSetReplicaSetCondition{
				{Type: datadoghqv1alpha1.ConditionTypeActive, Status: corev1.ConditionTrue, LastTransitionTime: metaNow},
			},
		},
	}

	node := &corev1.Node{
		ObjectMeta: metav1.ObjectMeta{
			Name:   "node-1",
			Labels: map[string]string{"pool": "big"},
			Annotations: map[string]string{
				"resources.extendeddaemonset.datadoghq.com/bar.foo.agent": `{"requests":{"cpu":"200m"}}`,
			},
		},
	}
	setting := test.NewExtendedDaemonsetSetting("bar", "big-nodes", "foo", &test.NewExtendedDaemonsetSettingOptions{
		Selector: map[string]string{"pool": "big"},
		Resources: map[string]corev1.ResourceRequirements{
			"agent": {Requests: corev1.ResourceList{corev1.ResourceCPU: resource.MustParse("500m")}},
		},
	})
	nodeItem := NewNodeItem(node, setting)

	// The pod exactly as the replica-set controller creates it for this node.
	pod, err := podutils.CreatePodFromDaemonSetReplicaSet(nil, replicaset, node, setting, false)
	if err != nil {
		t.Fatalf("CreatePodFromDaemonSetReplicaSet: %v", err)
	}
	pod.Name = "foo-1-abcde"
	pod.Status = readyPodStatus
	t.Logf("created pod: container %q requests.cpu=%s (node annotation: 200m, setting: 500m)",
		pod.Spec.Containers[0].Name, pod.Spec.Containers[0].Resources.Requests.Cpu())

	rollingUpdate := datadoghqv1alpha1.DefaultExtendedDaemonSetSpecStrategyRollingUpdate(&datadoghqv1alpha1.ExtendedDaemonSetSpecStrategyRollingUpdate{})
	params := &Parameters{
		EDSName:       "foo",
		Logger:        testLogger,
		NewStatus:     &datadoghqv1alpha1.ExtendedDaemonSetReplicaSetStatus{},
		Strategy:      &datadoghqv1alpha1.ExtendedDaemonSetSpecStrategy{RollingUpdate: *rollingUpdate},
		Replicaset:    replicaset,
		NodeByName:    map[string]*NodeItem{node.Name: nodeItem},
		PodByNodeName: map[*NodeItem]*corev1.Pod{nodeItem: pod},
	}

	// Next sync of the active replica set, nothing has changed since the pod was created.
	result, err := ManageDeployment(fake.NewClientBuilder().Build(), &datadoghqv1alpha1.ExtendedDaemonSet{}, params, metaNow)
	if err != nil {
		t.Fatalf("ManageDeployment: %v", err)
	}
	t.Logf("status after sync: desired=%d current(up-to-date)=%d available=%d, pods to delete=%d",
		result.NewStatus.Desired, result.NewStatus.Current, result.NewStatus.Available, len(result.PodsToDelete))
	if len(result.PodsToDelete) != 0 {
		t.Errorf("the pod just created for %s is selected for deletion on the next sync", result.PodsToDelete[0].Node.Name)
	}
	if result.NewStatus.Current != 1 {
		t.Errorf("the pod just created is not counted as up to date: status.current=%d, want 1", result.NewStatus.Current)
	}
}
