package extendeddaemonset

// Demonstration for finding F6 (fix commit 76e325f): copy into
// controllers/extendeddaemonset/ and run
//   GOFLAGS= GOPROXY=off GOTOOLCHAIN=local go test -count=1 -run TestF6 ./controllers/extendeddaemonset/
// On the pinned tree it fails (the deleted node "node-gone" stays in status.canary.nodes and takes
// one of the two canary slots); with the "fix:" commit it passes (two existing nodes selected).
//
// History: a canary with replicas=1 selected node "node-gone"; that node was then removed from the
// cluster (scale-down). The user raises canary.replicas to 2, so the ExtendedDaemonSet sync calls
// selectNodes again with status.canary.nodes=[node-gone] and three existing nodes node1..node3.

import (
	"context"
	"testing"
	"time"

	corev1 "k8s.io/api/core/v1"
	"k8s.io/apimachinery/pkg/types"
	"k8s.io/apimachinery/pkg/util/intstr"
	"k8s.io/client-go/kubernetes/scheme"
	"sigs.k8s.io/controller-runtime/pkg/client/fake"

	datadoghqv1alpha1 "github.com/DataDog/extendeddaemonset/api/v1alpha1"
	"github.com/DataDog/extendeddaemonset/api/v1alpha1/test"
	commontest "github.com/DataDog/extendeddaemonset/pkg/controller/test"
)

func TestF6StaleCanaryNodeKept(t *testing.T) {
	s := scheme.Scheme
	s.AddKnownTypes(datadoghqv1alpha1.GroupVersion, &datadoghqv1alpha1.ExtendedDaemonSet{}, &datadoghqv1alpha1.ExtendedDaemonSetList{})

	nodeOptions := &commontest.NewNodeOptions{
		Conditions: []corev1.NodeCondition{{Type: corev1.NodeReady, Status: corev1.ConditionTrue}},
	}
	node1 := commontest.NewNode("node1", nodeOptions)
	node2 := commontest.NewNode("node2", nodeOptions)
	node3 := commontest.NewNode("node3", nodeOptions)

	two := intstr.FromInt(2)
	daemonset := test.NewExtendedDaemonSet("bar", "foo", &test.NewExtendedDaemonSetOptions{
		Canary: &datadoghqv1alpha1.ExtendedDaemonSetSpecStrategyCanary{
			Replicas: &two,
		},
		Status: &datadoghqv1alpha1.ExtendedDaemonSetStatus{
			ActiveReplicaSet: "foo-old",
			Desired:          3, Current: 3, Ready: 3, Available: 3, UpToDate: 3,
			State: datadoghqv1alpha1.ExtendedDaemonSetStatusStateCanary,
			Canary: &datadoghqv1alpha1.ExtendedDaemonSetStatusCanary{
				ReplicaSet: "foo-new",
				Nodes:      []string{"node-gone"},
			},
		},
	})
	daemonset = datadoghqv1alpha1.DefaultExtendedDaemonSet(daemonset, datadoghqv1alpha1.ExtendedDaemonSetSpecStrategyCanaryValidationModeAuto)

	activeRS := test.NewExtendedDaemonSetReplicaSet("bar", "foo-old", &test.NewExtendedDaemonSetReplicaSetOptions{
		Status: &datadoghqv1alpha1.ExtendedDaemonSetReplicaSetStatus{Status: "active", Desired: 3, Current: 3, Ready: 3, Available: 3},
	})
	canaryRS := test.NewExtendedDaemonSetReplicaSet("bar", "foo-new", &test.NewExtendedDaemonSetReplicaSetOptions{
		Status: &datadoghqv1alpha1.ExtendedDaemonSetReplicaSetStatus{Status: "canary", Desired: 1},
	})

	// "node-gone" is not among the Node objects any more.
	c := fake.NewClientBuilder().
		WithStatusSubresource(&datadoghqv1alpha1.ExtendedDaemonSet{}).
		WithObjects(daemonset, node1, node2, node3).Build()
	r := &Reconciler{client: c, scheme: s, log: testLogger}

	got, _, err := r.updateInstanceWithCurrentRS(testLogger, time.Now(), daemonset, activeRS, canaryRS,
		podsCounterType{Current: 3, Ready: 3, Available: 3})
	if err != nil {
		t.Fatalf("updateInstanceWithCurrentRS: %v", err)
	}
	if got.Status.Canary == nil {
		t.Fatalf("status.canary not set, state=%q", got.Status.State)
	}
	t.Logf("status.canary.nodes=%v", got.Status.Canary.Nodes)

	existing := 0
	for _, name := range got.Status.Canary.Nodes {
		if err := c.Get(context.TODO(), types.NamespacedName{Name: name}, &corev1.Node{}); err != nil {
			t.Errorf("status.canary.nodes contains %q, which is not a node of the cluster: %v", name, err)

			continue
		}
		existing++
	}
	if existing != 2 {
		t.Errorf("canary.replicas=2 but only %d existing node(s) selected: %v", existing, got.Status.Canary.Nodes)
	}
}
