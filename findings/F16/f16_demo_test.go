package extendeddaemonset

// Demonstration for finding F16 (C12): copy into controllers/extendeddaemonset/ and run
//   GOFLAGS= GOPROXY=off GOTOOLCHAIN=local go test -vet=off -count=1 -run TestF16 ./controllers/extendeddaemonset/
// Input: an ExtendedDaemonSet "foo" whose own metadata.labels carry the controller's reserved key
// extendeddaemonset.datadoghq.com/name with another ExtendedDaemonSet's name ("bar", e.g. the
// manifest was copied from bar). Before the "fix:" commit newReplicaSetFromInstance wrote the
// reserved label first and then copied the object's labels over it, so foo's replica set was
// labelled as bar's: bar lists, counts and may delete it, foo never finds it and creates a new one
// on every reconcile.

import (
	"testing"

	datadoghqv1alpha1 "github.com/DataDog/extendeddaemonset/api/v1alpha1"
	"github.com/DataDog/extendeddaemonset/api/v1alpha1/test"
)

func TestF16ReservedNameLabelWins(t *testing.T) {
	eds := test.NewExtendedDaemonSet("ns", "foo", &test.NewExtendedDaemonSetOptions{
		Labels: map[string]string{datadoghqv1alpha1.ExtendedDaemonSetNameLabelKey: "bar", "team": "x"},
	})
	rs, err := newReplicaSetFromInstance(eds)
	if err != nil {
		t.Fatal(err)
	}
	if got := rs.Labels[datadoghqv1alpha1.ExtendedDaemonSetNameLabelKey]; got != "foo" {
		t.Fatalf("replica set of ExtendedDaemonSet foo is labelled %s=%q: it belongs to %q's label selector, not to its owner's", datadoghqv1alpha1.ExtendedDaemonSetNameLabelKey, got, got)
	}
	if rs.Labels["team"] != "x" {
		t.Fatalf("user label lost: %v", rs.Labels)
	}
}
