package extendeddaemonset

// Demonstration for finding F2 (fix commit 13ff07a): copy into
// controllers/extendeddaemonset/ and run
//   GOFLAGS= GOPROXY=off GOTOOLCHAIN=local go test -count=1 -run TestF2 ./controllers/extendeddaemonset/
// On the pinned tree it fails (the failed canary replica set is returned as the one to make
// active); with the "fix:" commit it passes.
//
// History: canary with duration 5m. The canary replica set "foo-new" was created 6 minutes ago
// and has been marked Canary-Failed=True (e.g. by autoFail). The ExtendedDaemonSet reconciles
// after the canary duration has elapsed; there is no canary-valid annotation.

import (
	"testing"
	"time"

	corev1 "k8s.io/api/core/v1"
	metav1 "k8s.io/apimachinery/pkg/apis/meta/v1"
	"k8s.io/apimachinery/pkg/util/intstr"

	datadoghqv1alpha1 "github.com/DataDog/extendeddaemonset/api/v1alpha1"
	"github.com/DataDog/extendeddaemonset/api/v1alpha1/test"
)

func TestF2FailedCanaryPromotedByElapsedTime(t *testing.T) {
	now := time.Now()
	edsCreated := now.Add(-time.Hour)
	canaryCreated := now.Add(-6 * time.Minute)
	failedAt := metav1.NewTime(now.Add(-4 * time.Minute))

	activeRS := test.NewExtendedDaemonSetReplicaSet("bar", "foo-old", &test.NewExtendedDaemonSetReplicaSetOptions{
		CreationTime: &edsCreated,
	})
	failedCanaryRS := test.NewExtendedDaemonSetReplicaSet("bar", "foo-new", &test.NewExtendedDaemonSetReplicaSetOptions{
		CreationTime: &canaryCreated,
		Status: &datadoghqv1alpha1.ExtendedDaemonSetReplicaSetStatus{
			Status: "canary-failed",
			Conditions: []datadoghqv1alpha1.ExtendedDaemonSetReplicaSetCondition{
				{
					Type:               datadoghqv1alpha1.ConditionTypeCanaryFailed,
					Status:             corev1.ConditionTrue,
					LastTransitionTime: failedAt,
					LastUpdateTime:     failedAt,
					Reason:             "CrashLoopBackOff",
				},
			},
		},
	})
	if !IsCanaryDeploymentFailed(failedCanaryRS) {
		t.Fatal("fixture: the canary replica set must carry the Canary-Failed condition")
	}

	one := intstr.FromInt(1)
	daemonset := test.NewExtendedDaemonSet("bar", "foo", &test.NewExtendedDaemonSetOptions{
		CreationTime: &edsCreated,
		Canary: &datadoghqv1alpha1.ExtendedDaemonSetSpecStrategyCanary{
			Replicas: &one,
			Duration: &metav1.Duration{Duration: 5 * time.Minute},
		},
		Status: &datadoghqv1alpha1.ExtendedDaemonSetStatus{ActiveReplicaSet: activeRS.Name},
	})

	got, _ := selectCurrentReplicaSet(daemonset, activeRS, failedCanaryRS, now)
	if got != activeRS {
		t.Fatalf("selectCurrentReplicaSet promoted %q (Canary-Failed=True) to active after the canary duration elapsed; want %q to stay active",
			got.GetName(), activeRS.GetName())
	}
}
