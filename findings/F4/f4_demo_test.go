package extendeddaemonset

// Demonstration for finding F4 (fix commit d18c72f): copy into
// controllers/extendeddaemonset/ and run
//   GOFLAGS= GOPROXY=off GOTOOLCHAIN=local go test -count=1 -run TestF4 ./controllers/extendeddaemonset/
// On the pinned tree it fails (ns-b/foo adopts the replica set that belongs to ns-a/foo: no
// replica set is created in ns-b, and ns-b/foo reports ns-a's replica set as active together with
// its pod counts); with the "fix:" commit it passes.
//
// History: ExtendedDaemonSet "foo" runs in namespace ns-a with its replica set ns-a/foo-aaaaa
// (3 pods ready). A second ExtendedDaemonSet, also named "foo" and with the same pod template, is
// created in namespace ns-b and is reconciled for the first time.

import (
	"context"
	"testing"

	corev1 "k8s.io/api/core/v1"
	"k8s.io/apimachinery/pkg/types"
	"k8s.io/client-go/kubernetes/scheme"
	"k8s.io/client-go/tools/record"
	"sigs.k8s.io/controller-runtime/pkg/client"
	"sigs.k8s.io/controller-runtime/pkg/client/fake"

	datadoghqv1alpha1 "github.com/DataDog/extendeddaemonset/api/v1alpha1"
	"github.com/DataDog/extendeddaemonset/api/v1alpha1/test"
	"github.com/DataDog/extendeddaemonset/pkg/controller/utils/comparison"
)

func TestF4SameNameOtherNamespaceAdoptsForeignReplicaSet(t *testing.T) {
	s := scheme.Scheme
	s.AddKnownTypes(datadoghqv1alpha1.GroupVersion,
		&datadoghqv1alpha1.ExtendedDaemonSetReplicaSet{}, &datadoghqv1alpha1.ExtendedDaemonSetReplicaSetList{},
		&datadoghqv1alpha1.ExtendedDaemonSet{}, &datadoghqv1alpha1.ExtendedDaemonSetList{})
	recorder := record.NewBroadcaster().NewRecorder(s, corev1.EventSource{Component: "TestF4"})

	newEDS := func(ns string) *datadoghqv1alpha1.ExtendedDaemonSet {
		eds := test.NewExtendedDaemonSet(ns, "foo", &test.NewExtendedDaemonSetOptions{Labels: map[string]string{"app": "foo"}})

		return datadoghqv1alpha1.DefaultExtendedDaemonSet(eds, datadoghqv1alpha1.ExtendedDaemonSetSpecStrategyCanaryValidationModeAuto)
	}
	edsA, edsB := newEDS("ns-a"), newEDS("ns-b")
	edsA.Status.ActiveReplicaSet = "foo-aaaaa"

	hash, _ := comparison.GenerateMD5PodTemplateSpec(&edsA.Spec.Template)
	rsA := test.NewExtendedDaemonSetReplicaSet("ns-a", "foo-aaaaa", &test.NewExtendedDaemonSetReplicaSetOptions{
		Labels:       map[string]string{datadoghqv1alpha1.ExtendedDaemonSetNameLabelKey: "foo"},
		Annotations:  map[string]string{string(datadoghqv1alpha1.MD5ExtendedDaemonSetAnnotationKey): hash},
		OwnerRefName: "foo",
		Status:       &datadoghqv1alpha1.ExtendedDaemonSetReplicaSetStatus{Status: "active", Desired: 3, Current: 3, Ready: 3, Available: 3},
	})

	c := fake.NewClientBuilder().
		WithStatusSubresource(&datadoghqv1alpha1.ExtendedDaemonSet{}, &datadoghqv1alpha1.ExtendedDaemonSetReplicaSet{}).
		WithObjects(edsA, rsA, edsB).Build()
	r := &Reconciler{client: c, scheme: s, recorder: recorder, log: testLogger}

	// First reconcile of ns-b/foo.
	if _, err := r.Reconcile(context.TODO(), newRequest("ns-b", "foo")); err != nil {
		t.Fatalf("Reconcile(ns-b/foo): %v", err)
	}

	rsInB := &datadoghqv1alpha1.ExtendedDaemonSetReplicaSetList{}
	if err := c.List(context.TODO(), rsInB, client.InNamespace("ns-b")); err != nil {
		t.Fatal(err)
	}
	gotB := &datadoghqv1alpha1.ExtendedDaemonSet{}
	if err := c.Get(context.TODO(), types.NamespacedName{Namespace: "ns-b", Name: "foo"}, gotB); err != nil {
		t.Fatal(err)
	}
	t.Logf("ns-b/foo after its first reconcile: %d replica set(s) in ns-b, status.activeReplicaSet=%q status.ready=%d status.available=%d",
		len(rsInB.Items), gotB.Status.ActiveReplicaSet, gotB.Status.Ready, gotB.Status.Available)

	if len(rsInB.Items) != 1 {
		t.Errorf("ns-b/foo did not get its own replica set: %d replica sets in ns-b, want 1", len(rsInB.Items))
	}
	if gotB.Status.ActiveReplicaSet == rsA.Name {
		t.Errorf("ns-b/foo adopted the foreign replica set ns-a/%s as its active replica set", rsA.Name)
	}
	if gotB.Status.Ready != 0 {
		t.Errorf("ns-b/foo reports %d ready pods, all of which belong to ns-a/foo; want 0", gotB.Status.Ready)
	}
}
