package strategy

// Demonstration for finding F10 (fix commit 2ab85a8): copy into
// controllers/extendeddaemonsetreplicaset/strategy/ and run (needs cgo for the race detector)
//   GOFLAGS= GOPROXY=off GOTOOLCHAIN=local go test -race -count=1 -run TestF10 ./controllers/extendeddaemonsetreplicaset/strategy/
// On the pinned tree the race detector reports a DATA RACE on the shared error slice in
// deletePodSlice (and errors are usually lost: fewer errors returned than deletions failed);
// with the "fix:" commit it passes.
//
// History: the replica-set sync has 64 pods to clean up and every Delete call fails (API server
// unavailable / forbidden).

import (
	"context"
	"errors"
	"fmt"
	"testing"

	corev1 "k8s.io/api/core/v1"
	metav1 "k8s.io/apimachinery/pkg/apis/meta/v1"
	"sigs.k8s.io/controller-runtime/pkg/client"
	"sigs.k8s.io/controller-runtime/pkg/client/fake"
	"sigs.k8s.io/controller-runtime/pkg/client/interceptor"
)

func TestF10ParallelCleanupDeletionErrors(t *testing.T) {
	const nbPods = 64

	failingClient := interceptor.NewClient(fake.NewClientBuilder().Build(), interceptor.Funcs{
		Delete: func(_ context.Context, _ client.WithWatch, obj client.Object, _ ...client.DeleteOption) error {
			return errors.New("delete " + obj.GetName() + ": the server is currently unable to handle the request")
		},
	})

	pods := make([]*corev1.Pod, 0, nbPods)
	for i := 0; i < nbPods; i++ {
		pods = append(pods, &corev1.Pod{ObjectMeta: metav1.ObjectMeta{Namespace: "bar", Name: fmt.Sprintf("foo-%d", i)}})
	}

	for round := 0; round < 20; round++ {
		errs := deletePodSlice(failingClient, testLogger, pods)
		if len(errs) != nbPods {
			t.Errorf("round %d: %d deletions failed but deletePodSlice returned %d errors", round, nbPods, len(errs))
		}
	}
}
