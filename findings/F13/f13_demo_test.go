package strategy

// Demonstration for finding F13 (C16): copy into
// controllers/extendeddaemonsetreplicaset/strategy/ and run
//   go test -run TestF13 ./controllers/extendeddaemonsetreplicaset/strategy/
// On the pinned tree it panics (nil pointer dereference in manageCanaryPodFailures);
// with the "fix:" commit it passes.
//
// History: a canary is running (status.canary names this replica set), the user removes
// spec.strategy.canary, and the canary replica set syncs before the ExtendedDaemonSet
// reconcile has cleared status.canary. The spec passes IsDefaultedExtendedDaemonSet.

import (
	"testing"

	v1 "k8s.io/api/core/v1"

	"github.com/DataDog/extendeddaemonset/api/v1alpha1"
)

func TestF13CanaryBlockRemovedDuringCanary(t *testing.T) {
	params := &Parameters{
		EDSName:  "foo",
		Strategy: &v1alpha1.ExtendedDaemonSetSpecStrategy{ /* Canary: nil */ },
		Replicaset: &v1alpha1.ExtendedDaemonSetReplicaSet{
			Spec: v1alpha1.ExtendedDaemonSetReplicaSetSpec{TemplateGeneration: "v1"},
		},
		NewStatus:   &v1alpha1.ExtendedDaemonSetReplicaSetStatus{},
		CanaryNodes: testCanaryNodeNames,
		NodeByName:  testCanaryNodes,
		PodByNodeName: map[*NodeItem]*v1.Pod{
			testCanaryNodes["a"]: newTestCanaryPod("foo-a", "v1", readyPodStatus),
		},
		Logger: testLogger,
	}
	daemonset := &v1alpha1.ExtendedDaemonSet{}
	if !v1alpha1.IsDefaultedExtendedDaemonSet(v1alpha1.DefaultExtendedDaemonSet(daemonset, v1alpha1.ExtendedDaemonSetSpecStrategyCanaryValidationModeAuto)) {
		t.Fatal("spec without canary block must be accepted as defaulted")
	}
	if _, err := ManageCanaryDeployment(nil, daemonset, params); err != nil {
		t.Logf("returned error (fine): %v", err)
	}
}
