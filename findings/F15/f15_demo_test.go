package extendeddaemonset

// Demonstration for finding F15 (C02 / C14): copy into controllers/extendeddaemonset/ and run
//   GOFLAGS= GOPROXY=off GOTOOLCHAIN=local go test -vet=off -count=1 -run TestF15 ./controllers/extendeddaemonset/
// History: a canary is running (status.canary lists the canary replica set and its nodes) and the
// user removes spec.strategy.canary. Before the "fix:" commit updateInstanceWithCurrentRS cleared
// status.canary only inside `if spec.strategy.canary != nil`, so status.canary (and its node list)
// survived for ever: every later active replica set keeps treating those nodes as canary nodes and
// never updates them (no convergence), and kubectl-eds pause/freeze keep refusing ("active canary").

import (
	"testing"
	"time"

	"k8s.io/client-go/kubernetes/scheme"
	"sigs.k8s.io/controller-runtime/pkg/client/fake"

	datadoghqv1alpha1 "github.com/DataDog/extendeddaemonset/api/v1alpha1"
	"github.com/DataDog/extendeddaemonset/api/v1alpha1/test"
)

func TestF15CanaryStrategyRemovedDuringCanary(t *testing.T) {
	s := scheme.Scheme
	s.AddKnownTypes(datadoghqv1alpha1.GroupVersion, &datadoghqv1alpha1.ExtendedDaemonSetReplicaSet{})
	s.AddKnownTypes(datadoghqv1alpha1.GroupVersion, &datadoghqv1alpha1.ExtendedDaemonSet{})

	// no canary strategy in the spec any more, but the status still records the canary
	eds := test.NewExtendedDaemonSet("bar", "foo", &test.NewExtendedDaemonSetOptions{
		Status: &datadoghqv1alpha1.ExtendedDaemonSetStatus{
			ActiveReplicaSet: "foo-1",
			State:            datadoghqv1alpha1.ExtendedDaemonSetStatusStateCanary,
			Canary:           &datadoghqv1alpha1.ExtendedDaemonSetStatusCanary{ReplicaSet: "foo-2", Nodes: []string{"node1"}},
		},
	})
	eds.ResourceVersion = "1000"
	upToDate := test.NewExtendedDaemonSetReplicaSet("bar", "foo-2", nil)
	r := &Reconciler{
		client: fake.NewClientBuilder().WithStatusSubresource(&datadoghqv1alpha1.ExtendedDaemonSet{}).WithObjects(eds, upToDate).Build(),
		scheme: s,
		log:    testLogger,
	}
	// without a canary strategy the up-to-date replica set is the current one
	got, _, err := r.updateInstanceWithCurrentRS(testLogger, time.Now(), eds, upToDate, upToDate, podsCounterType{})
	if err != nil {
		t.Fatalf("unexpected error: %v", err)
	}
	if got.Status.ActiveReplicaSet != "foo-2" {
		t.Fatalf("activeReplicaSet = %q, want foo-2", got.Status.ActiveReplicaSet)
	}
	if got.Status.Canary != nil {
		t.Fatalf("status.canary = %+v survives although there is no canary strategy and foo-2 is the active replica set: its nodes stay hidden from every later active replica set", *got.Status.Canary)
	}
}
