package strategy

// Demonstration for finding F1 (fix commit f41dda2): copy into
// controllers/extendeddaemonsetreplicaset/strategy/ and run
//   GOFLAGS= GOPROXY=off GOTOOLCHAIN=local go test -count=1 -run TestF1 ./controllers/extendeddaemonsetreplicaset/strategy/
// On the pinned tree it fails (available outdated pods are selected for deletion while the two
// already-unavailable outdated pods are left alone: more than maxUnavailable nodes end up
// without an available pod); with the "fix:" commit it passes.
//
// History: ten nodes all run the previous generation "v0"; two of those pods are not ready.
// The new replica set "v1" becomes active with rollingUpdate.maxUnavailable=2. One sync.
// The candidate list is built in map iteration order, so the call is repeated on fresh maps.

import (
	"fmt"
	"testing"
	"time"

	corev1 "k8s.io/api/core/v1"
	metav1 "k8s.io/apimachinery/pkg/apis/meta/v1"
	"k8s.io/apimachinery/pkg/util/intstr"
	"sigs.k8s.io/controller-runtime/pkg/client/fake"

	datadoghqv1alpha1 "github.com/DataDog/extendeddaemonset/api/v1alpha1"
	podutils "github.com/DataDog/extendeddaemonset/pkg/controller/utils/pod"
)

func TestF1RollingUpdateExceedsMaxUnavailable(t *testing.T) {
	const (
		nbNodes        = 10
		nbUnavailable  = 2
		maxUnavailable = 2
		attempts       = 200
	)
	now := time.Now()
	metaNow := metav1.NewTime(now)

	rollingUpdate := datadoghqv1alpha1.DefaultExtendedDaemonSetSpecStrategyRollingUpdate(&datadoghqv1alpha1.ExtendedDaemonSetSpecStrategyRollingUpdate{})
	mu := intstr.FromInt(maxUnavailable)
	rollingUpdate.MaxUnavailable = &mu

	client := fake.NewClientBuilder().Build()
	notReadyStatus := corev1.PodStatus{
		Conditions: []corev1.PodCondition{{Type: corev1.PodReady, Status: corev1.ConditionFalse}},
		StartTime:  &metav1.Time{Time: now},
	}

	worst := 0
	bad := 0
	for i := 0; i < attempts; i++ {
		podByNode := map[*NodeItem]*corev1.Pod{}
		for n := 0; n < nbNodes; n++ {
			name := fmt.Sprintf("node-%d", n)
			node := &NodeItem{Node: &corev1.Node{ObjectMeta: metav1.ObjectMeta{Name: name}}}
			status := readyPodStatus
			if n < nbUnavailable {
				status = notReadyStatus
			}
			podByNode[node] = newTestPodOnNode("foo-"+name, name, "v0", status)
		}
		params := &Parameters{
			EDSName:   "foo",
			Logger:    testLogger,
			NewStatus: &datadoghqv1alpha1.ExtendedDaemonSetReplicaSetStatus{},
			Strategy:  &datadoghqv1alpha1.ExtendedDaemonSetSpecStrategy{RollingUpdate: *rollingUpdate},
			Replicaset: &datadoghqv1alpha1.ExtendedDaemonSetReplicaSet{
				Spec: datadoghqv1alpha1.ExtendedDaemonSetReplicaSetSpec{TemplateGeneration: "v1"},
				Status: datadoghqv1alpha1.ExtendedDaemonSetReplicaSetStatus{
					Conditions: []datadoghqv1alpha1.ExtendedDaemonSetReplicaSetCondition{
						{Type: datadoghqv1alpha1.ConditionTypeActive, Status: corev1.ConditionTrue, LastTransitionTime: metaNow},
					},
				},
			},
			PodByNodeName: podByNode,
		}

		result, err := ManageDeployment(client, &datadoghqv1alpha1.ExtendedDaemonSet{}, params, metaNow)
		if err != nil {
			t.Fatalf("ManageDeployment: %v", err)
		}

		// Nodes without an available pod once the decided deletions are carried out.
		deleted := map[*NodeItem]bool{}
		for _, node := range result.PodsToDelete {
			deleted[node] = true
		}
		unavailableAfter := 0
		for node, pod := range podByNode {
			if deleted[node] || !podutils.IsPodAvailable(pod, 0, metaNow) {
				unavailableAfter++
			}
		}
		if unavailableAfter > maxUnavailable {
			bad++
		}
		if unavailableAfter > worst {
			worst = unavailableAfter
		}
	}
	if bad > 0 {
		t.Fatalf("maxUnavailable=%d exceeded in %d of %d syncs: up to %d of %d nodes without an available pod after one sync",
			maxUnavailable, bad, attempts, worst, nbNodes)
	}
}
