package extendeddaemonset

// Demonstration for finding F14 (C15): copy into controllers/extendeddaemonset/ and run
//   GOFLAGS= GOPROXY=off GOTOOLCHAIN=local go test -vet=off -count=1 -run TestF14 ./controllers/extendeddaemonset/
// Before the "fix:" commit selectNodes only logged a canary nodeSelector it could not convert
// (e.g. matchExpressions {key: role, operator: In, values: []}, which the CRD schema and
// ValidateExtendedDaemonSetSpec accept) and then listed ALL nodes, so status.canary.nodes was
// filled with nodes that do not match spec.strategy.canary.nodeSelector and no error was reported.
// With the fix the conversion error is returned and no canary node is selected.

import (
	"testing"

	corev1 "k8s.io/api/core/v1"
	metav1 "k8s.io/apimachinery/pkg/apis/meta/v1"
	"k8s.io/apimachinery/pkg/util/intstr"
	"k8s.io/client-go/kubernetes/scheme"
	"sigs.k8s.io/controller-runtime/pkg/client/fake"

	datadoghqv1alpha1 "github.com/DataDog/extendeddaemonset/api/v1alpha1"
	"github.com/DataDog/extendeddaemonset/api/v1alpha1/test"
	commontest "github.com/DataDog/extendeddaemonset/pkg/controller/test"
)

func TestF14UnusableCanaryNodeSelector(t *testing.T) {
	s := scheme.Scheme
	s.AddKnownTypes(datadoghqv1alpha1.GroupVersion, &datadoghqv1alpha1.ExtendedDaemonSet{})
	nodeOptions := &commontest.NewNodeOptions{Conditions: []corev1.NodeCondition{{Type: corev1.NodeReady, Status: corev1.ConditionTrue}}}
	node1 := commontest.NewNode("node1", nodeOptions)
	node2 := commontest.NewNode("node2", nodeOptions)
	one := intstr.FromInt(1)
	options := &test.NewExtendedDaemonSetOptions{
		Canary: &datadoghqv1alpha1.ExtendedDaemonSetSpecStrategyCanary{
			Replicas: &one,
			NodeSelector: &metav1.LabelSelector{
				MatchExpressions: []metav1.LabelSelectorRequirement{{Key: "role", Operator: metav1.LabelSelectorOpIn, Values: []string{}}},
			},
		},
		Status: &datadoghqv1alpha1.ExtendedDaemonSetStatus{
			ActiveReplicaSet: "foo-1",
			Canary:           &datadoghqv1alpha1.ExtendedDaemonSetStatusCanary{ReplicaSet: "foo-2", Nodes: []string{}},
		},
	}
	eds := test.NewExtendedDaemonSet("bar", "foo", options)
	r := &Reconciler{
		client: fake.NewClientBuilder().WithObjects(node1, node2).Build(),
		scheme: s,
		log:    testLogger,
	}
	canaryStatus := &datadoghqv1alpha1.ExtendedDaemonSetStatusCanary{ReplicaSet: "foo-2", Nodes: []string{}}
	err := r.selectNodes(testLogger, eds, &eds.Spec, &datadoghqv1alpha1.ExtendedDaemonSetReplicaSet{}, canaryStatus)
	if err == nil || len(canaryStatus.Nodes) != 0 {
		t.Fatalf("canary nodes %v selected (err=%v) although no node can match the unusable canary nodeSelector", canaryStatus.Nodes, err)
	}
}
