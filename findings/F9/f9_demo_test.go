package extendeddaemonsetreplicaset

// Demonstration for finding F9 (fix commit 1becd9d): copy into
// controllers/extendeddaemonsetreplicaset/ and run
//   GOFLAGS= GOPROXY=off GOTOOLCHAIN=local go test -count=1 -run TestF9 ./controllers/extendeddaemonsetreplicaset/
// On the pinned tree it panics (nil pointer dereference: ManageDeployment returns a Result with
// NewStatus == nil next to its error and Reconcile writes a condition into it); with the "fix:"
// commit it passes (the parse error is recorded in the ReconcileError condition).
//
// Input: spec.strategy.rollingUpdate.maxUnavailable: "abc" (an int-or-string, so the CRD schema
// accepts it; defaulting and validation do not look at it). The active replica set reconciles.

import (
	"context"
	"testing"
	"time"

	corev1 "k8s.io/api/core/v1"
	"k8s.io/apimachinery/pkg/types"
	"k8s.io/apimachinery/pkg/util/intstr"
	"k8s.io/client-go/kubernetes/scheme"
	"k8s.io/client-go/tools/record"
	"k8s.io/client-go/util/flowcontrol"
	clock "k8s.io/utils/clock/testing"
	"sigs.k8s.io/controller-runtime/pkg/client/fake"

	datadoghqv1alpha1 "github.com/DataDog/extendeddaemonset/api/v1alpha1"
	"github.com/DataDog/extendeddaemonset/api/v1alpha1/test"
	"github.com/DataDog/extendeddaemonset/controllers/extendeddaemonsetreplicaset/conditions"
)

func TestF9MalformedMaxUnavailable(t *testing.T) {
	s := scheme.Scheme
	s.AddKnownTypes(datadoghqv1alpha1.GroupVersion,
		&datadoghqv1alpha1.ExtendedDaemonSetReplicaSetList{}, &datadoghqv1alpha1.ExtendedDaemonSetReplicaSet{},
		&datadoghqv1alpha1.ExtendedDaemonSetList{}, &datadoghqv1alpha1.ExtendedDaemonSet{},
		&datadoghqv1alpha1.ExtendedDaemonsetSettingList{}, &datadoghqv1alpha1.ExtendedDaemonsetSetting{})
	recorder := record.NewBroadcaster().NewRecorder(s, corev1.EventSource{Component: "TestF9"})

	maxUnavailable := intstr.FromString("abc")
	daemonset := test.NewExtendedDaemonSet("but", "foo", &test.NewExtendedDaemonSetOptions{
		RollingUpdate: &datadoghqv1alpha1.ExtendedDaemonSetSpecStrategyRollingUpdate{MaxUnavailable: &maxUnavailable},
		Status:        &datadoghqv1alpha1.ExtendedDaemonSetStatus{ActiveReplicaSet: "foo-1"},
	})
	daemonset = datadoghqv1alpha1.DefaultExtendedDaemonSet(daemonset, datadoghqv1alpha1.ExtendedDaemonSetSpecStrategyCanaryValidationModeAuto)
	if !datadoghqv1alpha1.IsDefaultedExtendedDaemonSet(daemonset) {
		t.Fatal("fixture: the spec must be accepted as defaulted")
	}
	if err := datadoghqv1alpha1.ValidateExtendedDaemonSetSpec(&daemonset.Spec); err != nil {
		t.Fatalf("fixture: the spec must pass validation, got %v", err)
	}
	replicaset := test.NewExtendedDaemonSetReplicaSet("but", "foo-1", &test.NewExtendedDaemonSetReplicaSetOptions{OwnerRefName: "foo"})

	r := &Reconciler{
		client: fake.NewClientBuilder().
			WithStatusSubresource(&datadoghqv1alpha1.ExtendedDaemonSet{}, &datadoghqv1alpha1.ExtendedDaemonSetReplicaSet{}).
			WithObjects(daemonset, replicaset).Build(),
		scheme:            s,
		recorder:          recorder,
		failedPodsBackOff: flowcontrol.NewFakeBackOff(30*time.Second, 15*time.Minute, clock.NewFakeClock(time.Now())),
		log:               testLogger,
	}

	// Must not panic. Reconcile reports strategy errors through the ReconcileError condition of the
	// replica set (its returned error is the one of the final status update).
	_, err := r.Reconcile(context.TODO(), newRequest("but", "foo-1"))
	t.Logf("Reconcile returned err=%v", err)

	got := &datadoghqv1alpha1.ExtendedDaemonSetReplicaSet{}
	if err = r.client.Get(context.TODO(), types.NamespacedName{Namespace: "but", Name: "foo-1"}, got); err != nil {
		t.Fatal(err)
	}
	if !conditions.IsConditionTrue(&got.Status, datadoghqv1alpha1.ConditionTypeReconcileError) {
		t.Errorf("maxUnavailable=\"abc\" was not reported: replica set conditions %v", got.Status.Conditions)
	}
}
