package extendeddaemonset

// Demonstration for finding F5 (fix commit 73bb54d): copy into
// controllers/extendeddaemonset/ and run
//   GOFLAGS= GOPROXY=off GOTOOLCHAIN=local go test -count=1 -run TestF5 ./controllers/extendeddaemonset/
// On the pinned tree it fails (canary.replicas "50%" on a four-node ExtendedDaemonSet selects no
// canary node, and no error is reported); with the "fix:" commit it passes (two nodes selected).
//
// History: ExtendedDaemonSet bar/foo runs on four nodes (status.desired=4, active replica set
// foo-old). The template is changed, the canary replica set foo-new has just been created (its
// status is still empty, desired=0), and the ExtendedDaemonSet status is synced.

import (
	"testing"
	"time"

	corev1 "k8s.io/api/core/v1"
	"k8s.io/apimachinery/pkg/util/intstr"
	"k8s.io/client-go/kubernetes/scheme"
	"sigs.k8s.io/controller-runtime/pkg/client/fake"

	datadoghqv1alpha1 "github.com/DataDog/extendeddaemonset/api/v1alpha1"
	"github.com/DataDog/extendeddaemonset/api/v1alpha1/test"
	commontest "github.com/DataDog/extendeddaemonset/pkg/controller/test"
)

func TestF5CanaryReplicasPercentSelectsNoNode(t *testing.T) {
	s := scheme.Scheme
	s.AddKnownTypes(datadoghqv1alpha1.GroupVersion, &datadoghqv1alpha1.ExtendedDaemonSet{}, &datadoghqv1alpha1.ExtendedDaemonSetList{})

	nodeOptions := &commontest.NewNodeOptions{
		Conditions: []corev1.NodeCondition{{Type: corev1.NodeReady, Status: corev1.ConditionTrue}},
	}
	node1 := commontest.NewNode("node1", nodeOptions)
	node2 := commontest.NewNode("node2", nodeOptions)
	node3 := commontest.NewNode("node3", nodeOptions)
	node4 := commontest.NewNode("node4", nodeOptions)

	fiftyPercent := intstr.FromString("50%")
	daemonset := test.NewExtendedDaemonSet("bar", "foo", &test.NewExtendedDaemonSetOptions{
		Canary: &datadoghqv1alpha1.ExtendedDaemonSetSpecStrategyCanary{
			Replicas: &fiftyPercent,
		},
		Status: &datadoghqv1alpha1.ExtendedDaemonSetStatus{
			ActiveReplicaSet: "foo-old",
			Desired:          4, Current: 4, Ready: 4, Available: 4, UpToDate: 4,
		},
	})
	daemonset = datadoghqv1alpha1.DefaultExtendedDaemonSet(daemonset, datadoghqv1alpha1.ExtendedDaemonSetSpecStrategyCanaryValidationModeAuto)

	activeRS := test.NewExtendedDaemonSetReplicaSet("bar", "foo-old", &test.NewExtendedDaemonSetReplicaSetOptions{
		Status: &datadoghqv1alpha1.ExtendedDaemonSetReplicaSetStatus{Status: "active", Desired: 4, Current: 4, Ready: 4, Available: 4},
	})
	// Just created by createNewReplicaSet: the replica-set controller has not written any status yet.
	canaryRS := test.NewExtendedDaemonSetReplicaSet("bar", "foo-new", nil)

	c := fake.NewClientBuilder().
		WithStatusSubresource(&datadoghqv1alpha1.ExtendedDaemonSet{}).
		WithObjects(daemonset, node1, node2, node3, node4).Build()
	r := &Reconciler{client: c, scheme: s, log: testLogger}

	got, _, err := r.updateInstanceWithCurrentRS(testLogger, time.Now(), daemonset, activeRS, canaryRS,
		podsCounterType{Current: 4, Ready: 4, Available: 4})
	if err != nil {
		t.Fatalf("updateInstanceWithCurrentRS: %v", err)
	}
	if got.Status.Canary == nil {
		t.Fatalf("status.canary not set, state=%q", got.Status.State)
	}
	t.Logf("state=%q status.canary.replicaSet=%q status.canary.nodes=%v", got.Status.State, got.Status.Canary.ReplicaSet, got.Status.Canary.Nodes)
	if n := len(got.Status.Canary.Nodes); n != 2 {
		t.Fatalf("canary.replicas=50%% of 4 nodes: %d canary node(s) selected %v, want 2", n, got.Status.Canary.Nodes)
	}
}
