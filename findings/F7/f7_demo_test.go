package v1alpha1

// Demonstration for finding F7 (fix commit d7dd09d): copy into
// api/v1alpha1/ and run (from the repository root; go.work makes ./api part of the workspace)
//   GOFLAGS= GOPROXY=off GOTOOLCHAIN=local go test -count=1 -run TestF7 ./api/v1alpha1/
// On the pinned tree it panics (nil pointer dereference of canary.Duration in
// ValidateExtendedDaemonSetSpec); with the "fix:" commit it passes.
//
// Input: a canary in manual validation mode (where a duration is not allowed, so it stays nil after
// defaulting) with autoFail.canaryTimeout set. The ExtendedDaemonSet Reconcile runs exactly this
// sequence: default, IsDefaultedExtendedDaemonSet, ValidateExtendedDaemonSetSpec.

import (
	"testing"
	"time"

	metav1 "k8s.io/apimachinery/pkg/apis/meta/v1"
)

func TestF7ValidateManualModeWithCanaryTimeout(t *testing.T) {
	eds := &ExtendedDaemonSet{
		Spec: ExtendedDaemonSetSpec{
			Strategy: ExtendedDaemonSetSpecStrategy{
				Canary: &ExtendedDaemonSetSpecStrategyCanary{
					ValidationMode: ExtendedDaemonSetSpecStrategyCanaryValidationModeManual,
					AutoFail: &ExtendedDaemonSetSpecStrategyCanaryAutoFail{
						CanaryTimeout: &metav1.Duration{Duration: 30 * time.Minute},
					},
				},
			},
		},
	}
	eds = DefaultExtendedDaemonSet(eds, ExtendedDaemonSetSpecStrategyCanaryValidationModeAuto)
	if !IsDefaultedExtendedDaemonSet(eds) {
		t.Fatal("fixture: the spec must be accepted as defaulted")
	}
	if eds.Spec.Strategy.Canary.Duration != nil {
		t.Fatal("fixture: manual validation mode must leave canary.duration nil")
	}

	if err := ValidateExtendedDaemonSetSpec(&eds.Spec); err != nil {
		t.Fatalf("manual validation mode with autoFail.canaryTimeout must be valid, got: %v", err)
	}
}
