package utils

// Demonstration for finding F12 (fix commit 887347e): copy into
// pkg/controller/utils/ and run
//   GOFLAGS= GOPROXY=off GOTOOLCHAIN=local go test -count=1 -run TestF12 ./pkg/controller/utils/
// On the pinned tree it fails (every label whose key needs sanitising is exported with an empty
// value); with the "fix:" commit it passes.
//
// Input: the labels of an ordinary ExtendedDaemonSet / replica set: the recommended
// app.kubernetes.io/name label, the operator's own extendeddaemonset.datadoghq.com/name label
// (present on every replica set), and a plain key that needs no sanitising.

import (
	"testing"

	metav1 "k8s.io/apimachinery/pkg/apis/meta/v1"
)

func TestF12BuildInfoLabelsLosesValues(t *testing.T) {
	obj := &metav1.ObjectMeta{
		Namespace: "bar",
		Name:      "foo-abcde",
		Labels: map[string]string{
			"app.kubernetes.io/name":               "datadog-agent",
			"extendeddaemonset.datadoghq.com/name": "foo",
			"team":                                 "infra",
		},
	}
	want := map[string]string{
		"app_kubernetes_io_name":               "datadog-agent",
		"extendeddaemonset_datadoghq_com_name": "foo",
		"team":                                 "infra",
	}

	keys, values := BuildInfoLabels(obj)
	t.Logf("keys=%q values=%q", keys, values)
	if len(keys) != len(want) || len(values) != len(want) {
		t.Fatalf("got %d keys / %d values, want %d of each", len(keys), len(values), len(want))
	}
	for i, key := range keys {
		wantValue, ok := want[key]
		if !ok {
			t.Errorf("unexpected metric label key %q", key)

			continue
		}
		if values[i] != wantValue {
			t.Errorf("metric label %s=%q, want %q", key, values[i], wantValue)
		}
	}
}
