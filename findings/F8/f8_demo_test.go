package strategy

// Demonstration for finding F8 (fix commit fbfe1f0): copy into
// controllers/extendeddaemonsetreplicaset/strategy/ and run
//   GOFLAGS= GOPROXY=off GOTOOLCHAIN=local go test -count=1 -run TestF8 ./controllers/extendeddaemonsetreplicaset/strategy/
// On the pinned tree it panics (integer divide by zero in calculateMaxCreation); with the
// "fix:" commit it passes (ManageDeployment returns an error instead).
//
// Input: spec.strategy.rollingUpdate.slowStartIntervalDuration: 0s ("no slow start"). The value is
// kept by defaulting (only nil is defaulted), passes IsDefaultedExtendedDaemonSet and
// ValidateExtendedDaemonSetSpec, and reaches the active replica set's sync.

import (
	"testing"
	"time"

	corev1 "k8s.io/api/core/v1"
	metav1 "k8s.io/apimachinery/pkg/apis/meta/v1"
	"sigs.k8s.io/controller-runtime/pkg/client/fake"

	datadoghqv1alpha1 "github.com/DataDog/extendeddaemonset/api/v1alpha1"
)

func TestF8ZeroSlowStartIntervalDuration(t *testing.T) {
	now := time.Now()
	metaNow := metav1.NewTime(now)

	daemonset := &datadoghqv1alpha1.ExtendedDaemonSet{
		Spec: datadoghqv1alpha1.ExtendedDaemonSetSpec{
			Strategy: datadoghqv1alpha1.ExtendedDaemonSetSpecStrategy{
				RollingUpdate: datadoghqv1alpha1.ExtendedDaemonSetSpecStrategyRollingUpdate{
					SlowStartIntervalDuration: &metav1.Duration{Duration: 0},
				},
			},
		},
	}
	daemonset = datadoghqv1alpha1.DefaultExtendedDaemonSet(daemonset, datadoghqv1alpha1.ExtendedDaemonSetSpecStrategyCanaryValidationModeAuto)
	if !datadoghqv1alpha1.IsDefaultedExtendedDaemonSet(daemonset) {
		t.Fatal("fixture: the spec must be accepted as defaulted")
	}
	if err := datadoghqv1alpha1.ValidateExtendedDaemonSetSpec(&daemonset.Spec); err != nil {
		t.Fatalf("fixture: the spec must pass validation, got %v", err)
	}
	if d := daemonset.Spec.Strategy.RollingUpdate.SlowStartIntervalDuration.Duration; d != 0 {
		t.Fatalf("fixture: slowStartIntervalDuration was changed by defaulting to %s", d)
	}

	params := &Parameters{
		EDSName:   "foo",
		Logger:    testLogger,
		NewStatus: &datadoghqv1alpha1.ExtendedDaemonSetReplicaSetStatus{},
		Strategy:  &daemonset.Spec.Strategy,
		Replicaset: &datadoghqv1alpha1.ExtendedDaemonSetReplicaSet{
			Spec: datadoghqv1alpha1.ExtendedDaemonSetReplicaSetSpec{TemplateGeneration: "v1"},
		},
		PodByNodeName: map[*NodeItem]*corev1.Pod{
			testCanaryNodes["a"]: nil,
			testCanaryNodes["b"]: nil,
		},
	}

	// Must not panic; rejecting the value with an error or creating the pods are both acceptable.
	result, err := ManageDeployment(fake.NewClientBuilder().Build(), daemonset, params, metaNow)
	t.Logf("ManageDeployment returned err=%v, %d pod(s) to create", err, len(result.PodsToCreate))
}
