package main

// C14 — status tells the truth about replica sets and pods.

import (
	"fmt"
	"go/token"
	"go/types"
	"sort"
	"strings"

	"golang.org/x/tools/go/ssa"
)

func init() {
	register("C14", "Decides: (R1) in the ExtendedDaemonSet reconciler the accumulator fields Ready/Current/Available are each written by exactly one `acc.X += item.Status.X` that executes for every item of the listed replica sets (before any filtering); Status.Current/Ready/Available are stored only from the like-named accumulator field; Status.Desired is stored only as <rs>.Status.Desired of the replica set whose name is stored to Status.ActiveReplicaSet, or incremented by <rs>.Status.Desired of the replica set whose name is stored to Status.Canary.ReplicaSet, on exactly the paths that store that name and after the base store; Status.UpToDate is stored only as <rs>.Status.Current of one of those two replica sets, the canary one on exactly the canary paths; (R2) in every strategy planner the stored NewStatus.Ready/Available/Current are per-node counters of one loop that are incremented only under IsPodReady(pod) / IsPodAvailable(pod) / a test that holds only when the pod's template-hash annotation equals a hash (inline, or a repository predicate every true path of which carries that equality, followed through nested predicates) of one pod of the iteration; where NewStatus.Desired is a counter (active and canary roles) it grows by exactly one per iteration and every feasible iteration path satisfies 0 <= dAvailable <= dReady <= dCurrent <= dDesired, using the lemma IsPodAvailable => IsPodReady (itself checked) to prune infeasible paths; a pod counted as current that is known Ready / available on the path is also counted in Ready / Available, and these counters are not constants when Current is counted; every return of a planner whose error result is not known non-nil is dominated by the stores of those four counters (stale counters only accompany an error); (R3) decision tables: the condition-maintenance function sets Canary-Failed True iff failed and Canary-Paused True iff paused and not failed; the state function stores State 'Canary Failed' iff failed, otherwise during an active canary 'Canary Paused' iff paused else 'Canary', otherwise the non-canary state of the annotations; Status.Canary is cleared unless the canary is active; the active flag is true only without failure and with different active/up-to-date names; the condition updater gives an existing condition the status it is handed unless equal, and refreshes Reason and Message from its arguments on every path where that status is True, also when the status did not change; where the replica-set reconciler calls the rolling-update planner (active role), every replica-set condition that IsCanaryDeploymentPaused / IsCanaryDeploymentFailed read has been set to False on every path.", runC14)
}

const fnEDSCondUpdate = pkgEDSCond + ".UpdateExtendedDaemonSetStatusCondition"

// nameRootOf returns the object whose name v is (x.Name, x.ObjectMeta.Name, x.GetName()).
func nameRootOf(v ssa.Value) ssa.Value {
	v = unwrap(v)
	if c, ok := v.(*ssa.Call); ok {
		if strings.HasSuffix(calleeName(&c.Call), ".GetName") {
			if c.Call.IsInvoke() {
				return unwrap(c.Call.Value)
			}
			if len(c.Call.Args) == 1 {
				r, p := accessPath(c.Call.Args[0])
				if len(p) == 0 || (len(p) == 1 && p[0] == "ObjectMeta") {
					return r
				}
			}
		}
		return nil
	}
	r, p := accessPath(v)
	if len(p) == 0 || p[len(p)-1] != "Name" {
		return nil
	}
	for _, f := range p[:len(p)-1] {
		if f != "ObjectMeta" {
			return nil
		}
	}
	return r
}

// statusFieldOf reports (root, X) when v reads <root>.Status.X of an ExtendedDaemonSetReplicaSet.
func rsStatusField(v ssa.Value) (ssa.Value, string, bool) {
	v = stripIntConv(v)
	if _, isLoad := v.(*ssa.UnOp); !isLoad {
		if _, isField := v.(*ssa.Field); !isField {
			return nil, "", false
		}
	}
	r, p := accessPath(v)
	if len(p) != 2 || p[0] != "Status" {
		return nil, "", false
	}
	t := r.Type()
	if a, ok := r.(*ssa.Alloc); ok {
		t = a.Type()
	}
	if !isPtrToNamed(t, pkgAPI, "ExtendedDaemonSetReplicaSet") {
		return nil, "", false
	}
	return r, p[1], true
}

func storesOfField(fn *ssa.Function, pkg, typ string, fields map[string]bool) []*ssa.Store {
	var out []*ssa.Store
	for _, b := range fn.Blocks {
		for _, in := range b.Instrs {
			if st, ok := in.(*ssa.Store); ok {
				if fa, ok := st.Addr.(*ssa.FieldAddr); ok && fields[fieldName(fa)] && isPtrToNamed(fa.X.Type(), pkg, typ) {
					out = append(out, st)
				}
			}
		}
	}
	return out
}

// ---------------------------------------------------------------------------------------------
// R1

type c14Acc struct {
	ok     map[string]bool
	detail map[string]string
}

// c14Accumulate checks that alloc a (a struct of counters local to fn) is filled by one
// `a.X += item.Status.X` per field, executed for every item of a listed replica-set list.
func c14Accumulate(r *Run, a *ssa.Alloc, fn *ssa.Function, tr *ipTracer) *c14Acc {
	res := &c14Acc{ok: map[string]bool{}, detail: map[string]string{}}
	st, _ := a.Type().(*types.Pointer).Elem().Underlying().(*types.Struct)
	if st == nil {
		return res
	}
	loops := findLoops(fn)
	// isListed: the list value is (on every way it can reach this function: directly, through a
	// parameter from every call site, or as the result of a repository helper) an object that a
	// client List call of replica sets has filled.
	isListed := func(v ssa.Value) bool {
		n := 0
		leaves := tr.trace(v, fn)
		if cell, isCell := v.(*ssa.Alloc); isCell {
			// a variable holding the list pointer (e.g. captured by a closure): what is stored in it
			if ws := wholeStores(cell); len(ws) > 0 {
				leaves = nil
				for _, st := range ws {
					leaves = append(leaves, tr.trace(st.Val, fn)...)
				}
			}
		}
		for _, lf := range leaves {
			if isNilConst(lf.v) {
				continue // error returns of a listing helper
			}
			al, ok := lf.v.(*ssa.Alloc)
			if !ok {
				return false
			}
			filled := false
			for _, ci := range callsIn(lf.fn) {
				if e := clientEffect(lf.fn, ci); e != nil && e.Verb == "List" && e.Kind == pkgAPI+".ExtendedDaemonSetReplicaSetList" && derivesOnlyFrom(e.Obj, func(o ssa.Value) bool { return o == ssa.Value(al) }) {
					filled = true
				}
			}
			if !filled {
				return false
			}
			n++
		}
		return n > 0
	}
	// an assignment to an accumulator field: in this function, or inside a helper (e.g. a method of the
	// accumulator type) that receives the accumulator's address at call site `via`
	type accStore struct {
		st   *ssa.Store
		via  *ssa.Call
		base ssa.Value // the accumulator as the assignment sees it: the variable, or the helper's parameter
	}
	stores := map[string][]accStore{}
	escapes := ""
	for _, rf := range refs(a) {
		switch x := rf.(type) {
		case *ssa.Call:
			cal := staticCallee(&x.Call)
			if cal == nil || len(cal.Blocks) == 0 || !r.Prog.IsRuleSite(cal) {
				escapes = "the accumulator's address escapes"
				continue
			}
			for i, arg := range x.Call.Args {
				if arg != ssa.Value(a) || i >= len(cal.Params) {
					continue
				}
				prm := cal.Params[i]
				for _, r1 := range refs(prm) {
					fa, isFA := r1.(*ssa.FieldAddr)
					if !isFA {
						if _, isDbg := r1.(*ssa.DebugRef); !isDbg {
							escapes = "the accumulator's address escapes inside " + shortFunc(cal)
						}
						continue
					}
					for _, r2 := range refs(fa) {
						switch y := r2.(type) {
						case *ssa.Store:
							if y.Addr == ssa.Value(fa) {
								stores[fieldName(fa)] = append(stores[fieldName(fa)], accStore{y, x, prm})
							} else {
								escapes = "the address of a counter is stored"
							}
						case *ssa.UnOp, *ssa.DebugRef:
						default:
							escapes = "the address of a counter escapes"
						}
					}
				}
			}
		case *ssa.FieldAddr:
			for _, r2 := range refs(x) {
				switch y := r2.(type) {
				case *ssa.Store:
					if y.Addr == ssa.Value(x) {
						stores[fieldName(x)] = append(stores[fieldName(x)], accStore{y, nil, a})
					} else {
						escapes = "the address of a counter is stored"
					}
				case *ssa.UnOp, *ssa.DebugRef:
				default:
					escapes = "the address of a counter escapes"
				}
			}
		case *ssa.UnOp, *ssa.DebugRef:
		case *ssa.Store:
			if x.Addr == ssa.Value(a) {
				escapes = "the accumulator is assigned as a whole"
			} else {
				escapes = "the accumulator's address is stored"
			}
		default:
			escapes = "the accumulator's address escapes"
		}
	}
	for i := 0; i < st.NumFields(); i++ {
		X := st.Field(i).Name()
		if escapes != "" {
			res.detail[X] = escapes
			continue
		}
		ss := stores[X]
		if len(ss) != 1 {
			res.detail[X] = fmt.Sprintf("%d assignments to the accumulator field (exactly one `+=` expected)", len(ss))
			continue
		}
		rec := ss[0]
		s := rec.st
		// where the addition happens as seen from this function: the assignment, or the helper call
		var at ssa.Instruction = s
		if rec.via != nil {
			at = rec.via
			everyCall := true
			for _, rb := range rec.via.Call.StaticCallee().Blocks {
				if returnOf(rb) != nil && !s.Block().Dominates(rb) {
					everyCall = false
				}
			}
			if !everyCall {
				res.detail[X] = "the helper " + shortFunc(s.Parent()) + " does not add on every path"
				continue
			}
		}
		bo, ok := stripIntConv(s.Val).(*ssa.BinOp)
		if !ok || bo.Op != token.ADD {
			res.detail[X] = "the assignment is not an addition"
			continue
		}
		isSelf := func(v ssa.Value) bool {
			u, ok := stripIntConv(v).(*ssa.UnOp)
			if !ok || u.Op != token.MUL {
				return false
			}
			fa, ok := u.X.(*ssa.FieldAddr)
			return ok && fa.X == rec.base && fieldName(fa) == X
		}
		var item ssa.Value
		switch {
		case isSelf(bo.X):
			item = bo.Y
		case isSelf(bo.Y):
			item = bo.X
		default:
			res.detail[X] = "the addition does not add to the previous value of the same field"
			continue
		}
		root, fld, ok := rsStatusField(item)
		if !ok && rec.via != nil {
			// inside the helper the item is a field of a parameter: lift it to the call's argument
			if prm, pth := accessPath(stripIntConv(item)); len(pth) >= 1 {
				if pp, isP := prm.(*ssa.Parameter); isP && pp.Parent() == s.Parent() {
					if i := paramIndex(pp); i >= 0 && i < len(rec.via.Call.Args) {
						ar, ap := accessPath(rec.via.Call.Args[i])
						full := append(append([]string{}, ap...), pth...)
						t := ar.Type()
						if al, isAl := ar.(*ssa.Alloc); isAl {
							t = al.Type()
						}
						if len(full) == 2 && full[0] == "Status" && isPtrToNamed(t, pkgAPI, "ExtendedDaemonSetReplicaSet") {
							root, fld, ok = ar, full[1], true
						}
					}
				}
			}
		}
		if !ok {
			res.detail[X] = "the added value is not a replica set's Status field: " + pathString(item)
			continue
		}
		if fld != X {
			res.detail[X] = "accumulator field " + X + " adds the replica set's Status." + fld
			continue
		}
		l := loopOfBlock(loops, at.Block())
		if l == nil || l.rangeOver == nil || l.innerExit {
			res.detail[X] = "the addition is not inside a loop that visits every index once (range, or for i := 0; i < len(items); i++ without break/return)"
			continue
		}
		// the loop ranges over <list>.Items of a listed replica-set list
		lroot, lpath := accessPath(l.rangeOver)
		if !(len(lpath) == 1 && lpath[0] == "Items" && isListed(lroot)) {
			res.detail[X] = "the loop does not range over the Items of the listed replica sets"
			continue
		}
		// the list keeps its items while it is traversed (matters for index loops, which re-read
		// len(list.Items) on every iteration): no assignment to list.Items in this function and, for
		// an index loop, the list is not handed to a call inside the loop
		changed := ""
		for _, b := range fn.Blocks {
			for _, in := range b.Instrs {
				switch y := in.(type) {
				case *ssa.Store:
					if fa, isFA := y.Addr.(*ssa.FieldAddr); isFA && fieldName(fa) == "Items" && fa.X == lroot {
						changed = "the listed Items are reassigned at " + r.Prog.Pos(instrPos(y))
					}
				case ssa.CallInstruction:
					if l.classic && l.blocks[b] {
						for _, a := range y.Common().Args {
							if unwrap(a) == lroot {
								changed = "the list is passed to a call inside the index loop at " + r.Prog.Pos(y.Pos())
							}
						}
					}
				}
			}
		}
		if changed != "" {
			res.detail[X] = changed
			continue
		}
		// the item is the element of this iteration
		kk := newKeyer(fn)
		isElem := func(v ssa.Value) bool {
			ia, ok := v.(*ssa.IndexAddr)
			return ok && ia.Index == l.key && kk.key(ia.X) == kk.key(l.rangeOver)
		}
		elemOK := isElem(root)
		if al, isAl := root.(*ssa.Alloc); isAl && !elemOK {
			n := 0
			for _, rf := range refs(al) {
				if s2, isSt := rf.(*ssa.Store); isSt && s2.Addr == ssa.Value(al) {
					n++
					if u, isU := s2.Val.(*ssa.UnOp); isU && u.Op == token.MUL && isElem(u.X) {
						elemOK = true
					} else {
						elemOK = false
						break
					}
				}
			}
			if n != 1 {
				elemOK = false
			}
		}
		if !elemOK {
			res.detail[X] = "the added status is not the one of the current item of the loop"
			continue
		}
		every := true
		for _, latch := range l.latches {
			if !at.Block().Dominates(latch) {
				every = false
			}
		}
		if !every {
			res.detail[X] = "the addition is skipped for some items (it does not execute on every iteration: filtering happens before it)"
			continue
		}
		res.ok[X] = true
	}
	return res
}

var c14StatusCounters = map[string]bool{"Desired": true, "Current": true, "Ready": true, "Available": true, "UpToDate": true}

func c14StatusTable(r *Run, reach map[*ssa.Function]bool) {
	// the status is only written field by field (a whole-struct assignment would bypass the table)
	var whole []string
	for _, fn := range sortedFuncs(reach) {
		if !r.Prog.IsRuleSite(fn) {
			continue
		}
		for _, st := range storesOfField(fn, pkgAPI, "ExtendedDaemonSet", map[string]bool{"Status": true}) {
			whole = append(whole, r.Prog.Pos(instrPos(st)))
		}
		for _, b := range fn.Blocks {
			for _, in := range b.Instrs {
				if st, ok := in.(*ssa.Store); ok && isPtrToNamed(st.Addr.Type(), pkgAPI, "ExtendedDaemonSetStatus") {
					whole = append(whole, r.Prog.Pos(instrPos(st)))
				}
			}
		}
	}
	{
		o := r.Check("C14.R1", "no whole-status assignment", "-", "-", "ExtendedDaemonSet.Status is written field by field in the code reachable from the reconciler", len(whole) == 0, strings.Join(whole, ", "))
		o.Trivial = len(whole) == 0
	}
	tr := &ipTracer{reach: reach, depth: 8, descend: r.Prog.IsRuleSite}
	accCache := map[*ssa.Alloc]*c14Acc{}
	accReported := map[string]bool{}
	type canarySite struct {
		fn     *ssa.Function
		stores []*ssa.Store
		root   ssa.Value
	}
	for _, fn := range sortedFuncs(reach) {
		if !r.Prog.IsRuleSite(fn) {
			continue
		}
		sts := storesOfField(fn, pkgAPI, "ExtendedDaemonSetStatus", c14StatusCounters)
		if len(sts) == 0 {
			continue
		}
		k := newKeyer(fn)
		// replica sets whose name is recorded as active / canary in this function
		activeRoots, canaryRoots := map[ssa.Value]bool{}, map[ssa.Value]bool{}
		var canaryNameStores []*ssa.Store
		for _, st := range storesOfField(fn, pkgAPI, "ExtendedDaemonSetStatus", map[string]bool{"ActiveReplicaSet": true}) {
			if root := nameRootOf(st.Val); root != nil {
				activeRoots[root] = true
			}
		}
		for _, st := range storesOfField(fn, pkgAPI, "ExtendedDaemonSetStatusCanary", map[string]bool{"ReplicaSet": true}) {
			if root := nameRootOf(st.Val); root != nil {
				canaryRoots[root] = true
				canaryNameStores = append(canaryNameStores, st)
			}
		}
		var canaryStores []*ssa.Store
		var baseDesired []*ssa.Store
		for _, st := range sts {
			fa := st.Addr.(*ssa.FieldAddr)
			F := fieldName(fa)
			pos := r.Prog.Pos(instrPos(st))
			construct := "store Status." + F
			v := stripIntConv(st.Val)
			switch F {
			case "Current", "Ready", "Available":
				need := "Status." + F + " is the sum over all listed replica sets of their Status." + F
				p, fld, ok := paramFieldLeaf(v)
				if !ok || fld != F {
					detail := "stored from " + pathString(st.Val)
					if ok {
						detail = "stored from the accumulator field " + fld
					}
					r.Check("C14.R1", construct, pos, shortFunc(fn), need, false, detail)
					continue
				}
				// the accumulator: wherever the parameter's value comes from (every call site, through
				// helper results), it is the value of one local struct variable filled by the accumulation
				leaves := tr.trace(p, fn)
				okAll := len(leaves) > 0
				detail := ""
				for _, lf := range leaves {
					var al *ssa.Alloc
					if u, isU := lf.v.(*ssa.UnOp); isU && u.Op == token.MUL {
						al, _ = u.X.(*ssa.Alloc)
					}
					if al == nil {
						okAll = false
						detail = "the accumulator comes from " + shortFunc(lf.fn) + ":" + pathString(lf.v) + ", which is not a local counter variable"
						continue
					}
					acc := accCache[al]
					if acc == nil {
						acc = c14Accumulate(r, al, lf.fn, tr)
						accCache[al] = acc
					}
					akey := shortFunc(lf.fn) + "|" + F
					if !accReported[akey] {
						accReported[akey] = true
						r.Check("C14.R1", "accumulate "+F, r.Prog.Pos(al.Pos()), shortFunc(lf.fn),
							"accumulator."+F+" += item.Status."+F+" exactly once, for every listed replica set", acc.ok[F], acc.detail[F])
					}
					if !acc.ok[F] {
						detail = "see accumulate " + F
					}
				}
				r.Check("C14.R1", construct, pos, shortFunc(fn), need, okAll, detail)
			case "Desired", "UpToDate":
				want := map[string]string{"Desired": "Desired", "UpToDate": "Current"}[F]
				need := "Status." + F + " comes from <rs>.Status." + want + " of the replica set recorded as active, plus/replaced by the canary replica set's during an active canary"
				src := v
				isAdd := false
				if bo, ok := v.(*ssa.BinOp); ok && bo.Op == token.ADD {
					// addition to the previous value of the same field
					selfKey := k.key(fa)
					isSelf := func(x ssa.Value) bool {
						u, ok := stripIntConv(x).(*ssa.UnOp)
						return ok && u.Op == token.MUL && k.key(u.X) == selfKey
					}
					switch {
					case isSelf(bo.X):
						src, isAdd = bo.Y, true
					case isSelf(bo.Y):
						src, isAdd = bo.X, true
					}
				}
				root, fld, ok := rsStatusField(src)
				switch {
				case !ok:
					r.Check("C14.R1", construct, pos, shortFunc(fn), need, false, "stored from "+st.Val.String())
				case fld != want:
					r.Check("C14.R1", construct, pos, shortFunc(fn), need, false, "stored from the replica set's Status."+fld)
				case activeRoots[root] && !isAdd:
					r.Check("C14.R1", construct+" (active)", pos, shortFunc(fn), need, true, "from the replica set whose name is stored to Status.ActiveReplicaSet")
					if F == "Desired" {
						baseDesired = append(baseDesired, st)
					}
				case canaryRoots[root] && (isAdd == (F == "Desired")):
					canaryStores = append(canaryStores, st)
					// discharged by the path check below
				default:
					why := "the source replica set is neither the one recorded in Status.ActiveReplicaSet nor the one recorded in Status.Canary.ReplicaSet of this function"
					if canaryRoots[root] && F == "Desired" {
						why = "the canary replica set's Desired replaces the active one's instead of being added to it"
					} else if activeRoots[root] && isAdd {
						why = "the active replica set's value is added to the previous value instead of replacing it"
					}
					r.Check("C14.R1", construct, pos, shortFunc(fn), need, false, why)
				}
			}
		}
		_ = baseDesired
		if len(canaryStores) > 0 {
			// canary contributions happen on exactly the paths that record the canary replica set
			paths, _, ok := funcPaths(fn, 5000)
			r.paths += len(paths)
			for _, st := range canaryStores {
				F := fieldName(st.Addr.(*ssa.FieldAddr))
				pos := r.Prog.Pos(instrPos(st))
				good := ok
				detail := ""
				if !ok {
					detail = "path cap exceeded"
				}
				for _, p := range paths {
					has := p.Contains(st.Block())
					rec := false
					for _, ns := range canaryNameStores {
						if p.Contains(ns.Block()) {
							rec = true
						}
					}
					if has != rec {
						good = false
						detail = fmt.Sprintf("on path [%s] the canary contribution is applied=%v but Status.Canary.ReplicaSet is recorded=%v", shortFacts(p), has, rec)
					}
				}
				r.Check("C14.R1", "store Status."+F+" (canary)", pos, shortFunc(fn),
					"the canary replica set contributes to Status."+F+" on exactly the paths that record it in Status.Canary.ReplicaSet", good, detail)
			}
			// and after the base value was stored by the caller, on the same status object
			hasAdd := false
			for _, st := range canaryStores {
				if fieldName(st.Addr.(*ssa.FieldAddr)) == "Desired" {
					hasAdd = true
				}
			}
			if hasAdd {
				var add *ssa.Store
				for _, st := range canaryStores {
					if fieldName(st.Addr.(*ssa.FieldAddr)) == "Desired" {
						add = st
					}
				}
				isAdd := map[*ssa.Store]bool{}
				for _, st := range canaryStores {
					isAdd[st] = true
				}
				// climb from the addition towards the callers until a function that stores the base value
				// into the same status object is found; there the base must not be storable after the point
				// from which the addition is reached
				var climb func(cur *ssa.Function, root ssa.Value, at ssa.Instruction, depth int) (bool, string)
				climb = func(cur *ssa.Function, root ssa.Value, at ssa.Instruction, depth int) (bool, string) {
					var bases []*ssa.Store
					for _, st := range storesOfField(cur, pkgAPI, "ExtendedDaemonSetStatus", map[string]bool{"Desired": true}) {
						if rt, _ := accessPath(st.Addr); rt == root && !isAdd[st] {
							bases = append(bases, st)
						}
					}
					// the base value may be stored by a helper called from here on the same status object
					var baseAt []ssa.Instruction
					for _, b := range bases {
						baseAt = append(baseAt, b)
					}
					for _, ci := range callsIn(cur) {
						c, isCall := ci.(*ssa.Call)
						if !isCall {
							continue
						}
						h := staticCallee(&c.Call)
						if h == nil || h == fn || len(h.Blocks) == 0 || !r.Prog.IsRuleSite(h) {
							continue
						}
						for i, a := range c.Call.Args {
							if rt, _ := accessPath(a); rt != root || i >= len(h.Params) {
								continue
							}
							for _, st := range storesOfField(h, pkgAPI, "ExtendedDaemonSetStatus", map[string]bool{"Desired": true}) {
								if rt2, _ := accessPath(st.Addr); rt2 == ssa.Value(h.Params[i]) {
									if _, _, isRS := rsStatusField(stripIntConv(st.Val)); isRS {
										baseAt = append(baseAt, c)
									}
								}
							}
						}
					}
					if len(baseAt) > 0 {
						for _, b := range baseAt {
							if canExecuteAfter(at, b) {
								return false, "the base value of Desired at " + r.Prog.Pos(instrPos(b)) + " can be stored after the canary addition"
							}
						}
						return true, "base stored in " + shortFunc(cur)
					}
					sp, isParam := root.(*ssa.Parameter)
					if !isParam || depth > 4 {
						return false, "no base value of Desired is stored into the same status object before the addition"
					}
					sites := callSitesOf(cur, reach)
					if len(sites) == 0 {
						return false, "no caller stores a base value of Desired into the same status object"
					}
					for _, c := range sites {
						argRoot, _ := accessPath(c.Common().Args[paramIndex(sp)])
						if ok, why := climb(c.Parent(), argRoot, c, depth+1); !ok {
							return false, why
						}
					}
					return true, ""
				}
				sroot, _ := accessPath(add.Addr)
				good, detail := climb(fn, sroot, add, 0)
				r.Check("C14.R1", "canary addition after base Desired", r.Prog.Pos(instrPos(add)), shortFunc(fn),
					"the canary replica set's Desired is added after the active one's was stored into the same status", good, detail)
			}
		}
	}
}

// ---------------------------------------------------------------------------------------------
// R2

func c14Planners(r *Run) {
	rec := r.Prog.Method(pkgERS, "Reconciler", "Reconcile")
	if rec == nil {
		r.Fatal("anchor (%s.Reconciler).Reconcile not found", pkgERS)
		return
	}
	lemma := availableImpliesReady(r, "C14.R2")
	fields := map[string]bool{"Desired": true, "Ready": true, "Current": true, "Available": true}
	reach := r.Prog.reachableFuncs(rec)
	// A planner is the function in which the stored values are built. A store whose value is a field of
	// a struct the function received as a parameter (a counters object with a writeTo-style method, or
	// a helper taking the counters) belongs to the callers: there the call stands for the store.
	type statusVal struct {
		v      ssa.Value
		at     ssa.Instruction // position in the planner: the store, or the call of the helper that stores
		helper *ssa.Function
		via    *ssa.Call
		base   *ssa.Parameter
	}
	byPlanner := map[*ssa.Function]map[string][]statusVal{}
	add := func(pl *ssa.Function, F string, sv statusVal) {
		if byPlanner[pl] == nil {
			byPlanner[pl] = map[string][]statusVal{}
		}
		byPlanner[pl][F] = append(byPlanner[pl][F], sv)
	}
	paramBase := func(v ssa.Value, fn *ssa.Function) *ssa.Parameter {
		var base ssa.Value
		switch x := stripIntConv(v).(type) {
		case *ssa.UnOp:
			if fa, ok := x.X.(*ssa.FieldAddr); ok && x.Op == token.MUL {
				base = fa.X
			}
		case *ssa.Field:
			base = x.X
		}
		switch y := base.(type) {
		case *ssa.Parameter:
			return y
		case *ssa.Alloc:
			return wholeStructParam(y)
		}
		return nil
	}
	for _, fn := range sortedFuncs(reach) {
		if !r.Prog.IsRuleSite(fn) {
			continue
		}
		for _, st := range storesOfField(fn, pkgAPI, "ExtendedDaemonSetReplicaSetStatus", fields) {
			F := fieldName(st.Addr.(*ssa.FieldAddr))
			if prm := paramBase(st.Val, fn); prm != nil {
				sites := callSitesOf(fn, reach)
				every := true
				for _, rb := range fn.Blocks {
					if returnOf(rb) != nil && !(st.Block() == rb || st.Block().Dominates(rb)) {
						every = false
					}
				}
				if len(sites) > 0 && every {
					for _, cs := range sites {
						if call, isCall := cs.(*ssa.Call); isCall {
							add(cs.Parent(), F, statusVal{v: st.Val, at: call, helper: fn, via: call, base: prm})
						}
					}
					continue
				}
			}
			add(fn, F, statusVal{v: st.Val, at: st})
		}
	}
	var planners []*ssa.Function
	for pl := range byPlanner {
		planners = append(planners, pl)
	}
	sort.Slice(planners, func(i, j int) bool { return funcName(planners[i]) < funcName(planners[j]) })
	for _, fn := range planners {
		pos := r.Prog.Pos(fn.Pos())
		vals := map[string]statusVal{}
		positions := map[string][]ssa.Instruction{}
		dup := false
		for F, svs := range byPlanner[fn] {
			if len(svs) > 1 {
				dup = true
			}
			vals[F] = svs[0]
			for _, sv := range svs {
				positions[F] = append(positions[F], sv.at)
			}
		}
		c14CountersOnSuccess(r, fn, positions)
		if dup {
			r.Undecided("C14.R2", "planner counters", pos, shortFunc(fn), "a status counter field is assigned more than once")
			continue
		}
		cr := &cellResolver{prog: r.Prog}
		var main *loopB
		loopFn := fn // the counting loop may live in a helper that collects the counts
		phis := map[string]*ccell{}
		consts := map[string]int64{}
		bad := ""
		var names []string
		for F := range vals {
			names = append(names, F)
		}
		sort.Strings(names)
		isZero := func(v ssa.Value) bool { c, isC := constInt(stripIntConv(v)); return isC && c == 0 }
		for _, F := range names {
			sv := vals[F]
			v := sv.v
			if c, ok := constInt(stripIntConv(v)); ok {
				consts[F] = c
				continue
			}
			var ph *ccell
			var why string
			if sv.via == nil {
				ph, why = cr.resolve(v, fn)
			} else {
				// the field of the helper's parameter object, looked up in the object the planner passes
				var fld string
				switch x := stripIntConv(v).(type) {
				case *ssa.UnOp:
					fld = fieldName(x.X)
				case *ssa.Field:
					fld = fieldName(x)
				}
				if i := paramIndex(sv.base); i >= 0 && i < len(sv.via.Call.Args) {
					ph, why = cr.resolveField(sv.via.Call.Args[i], fld, fn, 0)
				} else {
					why = "the helper's parameter object cannot be matched with an argument"
				}
			}
			if ph == nil {
				bad = "NewStatus." + F + " is not a per-node counter of a loop: " + why
				break
			}
			if main != nil && ph.loop != main {
				bad = "the status counters are built in different loops"
				break
			}
			main, loopFn = ph.loop, ph.fn
			if !ph.startsFrom(isZero, true) {
				bad = "counter of NewStatus." + F + " does not start at zero"
			}
			phis[F] = ph
		}
		if bad == "" && main == nil {
			o := r.Check("C14.R2", "planner counters", pos, shortFunc(fn), "status counters are constants or per-node counters", true, "all constant")
			o.Trivial = true
			continue
		}
		if bad == "" && (main.innerExit || main.nested) {
			bad = "the counting loop has a break/return or a nested loop"
		}
		if bad != "" {
			r.Undecided("C14.R2", "planner counters", pos, shortFunc(fn), bad)
			continue
		}
		k := newKeyer(loopFn)
		paths, ok := main.iterPaths(k, 5000)
		if ok {
			paths, ok = cr.expand(paths, 5000)
		}
		r.paths += len(paths)
		if !ok {
			r.Undecided("C14.R2", "planner counters", pos, shortFunc(fn), "path cap exceeded")
			continue
		}
		lpos := r.Prog.Pos(instrPos(main.header.Instrs[len(main.header.Instrs)-1]))
		inLoop := func(v ssa.Value) bool {
			b := blockOf(unwrap(v))
			return b != nil && main.blocks[b]
		}
		type guard struct {
			callee string
			arg    int
		}
		guards := map[string]guard{
			"Ready":     {fnIsPodReady, 0},
			"Available": {fnIsPodAvailable, 0},
			"Current":   {c14TemplateMatch, -1},
		}
		tmplMemo := map[string]bool{}
		guardOK := map[string]bool{"Ready": true, "Available": true, "Current": true}
		guardDetail := map[string]string{}
		guardN := map[string]int{}
		chainOK, chainDetail := true, ""
		desOK, desDetail := true, ""
		complOK := map[string]bool{"Ready": true, "Available": true}
		complDetail := map[string]string{}
		feasible := 0
		for _, p := range paths {
			// facts about pods of this iteration, keyed by callee
			subj := map[string]map[string]bool{} // callee -> subject key -> polarity
			for _, f := range p.Facts {
				// "the pod runs this replica set's template": the pod's template-hash annotation equals a
				// hash, tested inline or inside a repository predicate that is true only in that case
				if pod := c14HashEqSubject(r, f.V, inLoop); pod != nil {
					if subj[c14TemplateMatch] == nil {
						subj[c14TemplateMatch] = map[string]bool{}
					}
					subj[c14TemplateMatch][k.key(pod)] = f.Pol
				}
				c, isCall := f.V.(*ssa.Call)
				if !isCall {
					continue
				}
				if cal := staticCallee(&c.Call); cal != nil && r.Prog.IsRuleSite(cal) {
					for i, a := range c.Call.Args {
						a = cr.mapArg(p, a)
						if inLoop(a) && isPtrToNamed(a.Type(), pkgCoreV1, "Pod") && c14ImpliesTemplateMatch(r, cal, i, tmplMemo, 0) {
							if subj[c14TemplateMatch] == nil {
								subj[c14TemplateMatch] = map[string]bool{}
							}
							subj[c14TemplateMatch][k.key(unwrap(a))] = f.Pol
						}
					}
				}
				for _, g := range guards {
					if calleeName(&c.Call) == g.callee && g.arg >= 0 && g.arg < len(c.Call.Args) && inLoop(cr.mapArg(p, c.Call.Args[g.arg])) {
						if subj[g.callee] == nil {
							subj[g.callee] = map[string]bool{}
						}
						subj[g.callee][k.key(unwrap(cr.mapArg(p, c.Call.Args[g.arg])))] = f.Pol
					}
				}
			}
			// lemma: available(x) => ready(x)
			infeasible := false
			if lemma {
				for x, av := range subj[fnIsPodAvailable] {
					if rd, known := subj[fnIsPodReady][x]; av && known && !rd {
						infeasible = true
					}
				}
			}
			if infeasible {
				continue
			}
			feasible++
			d := map[string]int64{}
			okd := true
			for F, ph := range phis {
				x, good := ph.delta(p)
				if !good || x < 0 {
					okd = false
					chainOK = false
					chainDetail = "NewStatus." + F + " is not a simple per-node increment on path [" + shortFacts(p) + "]"
				}
				d[F] = x
			}
			if !okd {
				continue
			}
			// one pod per iteration: all positive guards used talk about the same pod
			subjects := map[string]bool{}
			for F, g := range guards {
				if d[F] <= 0 {
					continue
				}
				guardN[F]++
				found := false
				for x, pol := range subj[g.callee] {
					if pol {
						found = true
						subjects[x] = true
					}
				}
				if !found {
					guardOK[F] = false
					guardDetail[F] = "incremented on a path without " + shortName(g.callee) + "(pod)==true: [" + shortFacts(p) + "]"
				}
			}
			if len(subjects) > 1 {
				chainOK = false
				chainDetail = "the counters of one iteration are guarded by tests on different pods on path [" + shortFacts(p) + "]"
			}
			// completeness: a pod counted as current that is known Ready / available is counted as such
			if d["Current"] >= 1 {
				for _, F := range []string{"Ready", "Available"} {
					if _, isCtr := phis[F]; !isCtr {
						continue
					}
					known := false
					for _, pol := range subj[guards[F].callee] {
						if pol {
							known = true
						}
					}
					if known && d[F] < 1 {
						complOK[F] = false
						complDetail[F] = "a current pod with " + shortName(guards[F].callee) + "(pod)==true is not counted on path [" + shortFacts(p) + "]"
					}
				}
			}
			if _, isCtr := phis["Desired"]; isCtr {
				if d["Desired"] != 1 {
					desOK = false
					desDetail = fmt.Sprintf("Desired grows by %d on path [%s]", d["Desired"], shortFacts(p))
				}
				if !(d["Available"] <= d["Ready"] && d["Ready"] <= d["Current"] && d["Current"] <= d["Desired"]) {
					chainOK = false
					chainDetail = fmt.Sprintf("one node adds available=%d ready=%d current=%d desired=%d on path [%s]", d["Available"], d["Ready"], d["Current"], d["Desired"], shortFacts(p))
				}
			}
		}
		for _, F := range []string{"Ready", "Available", "Current"} {
			g := guards[F]
			if _, isCtr := phis[F]; !isCtr {
				o := r.Check("C14.R2", "NewStatus."+F+" guard", lpos, shortFunc(fn), "NewStatus."+F+" counts a node only under "+shortName(g.callee)+"(pod)", true, "constant")
				o.Trivial = true
				continue
			}
			det := guardDetail[F]
			if guardOK[F] {
				det = fmt.Sprintf("%d incrementing path(s) of %d feasible", guardN[F], feasible)
			}
			r.Check("C14.R2", "NewStatus."+F+" guard", lpos, shortFunc(fn), "NewStatus."+F+" counts a node only under "+shortName(g.callee)+"(pod)", guardOK[F] && guardN[F] > 0, det)
		}
		// completeness of Ready / Available relative to Current
		if _, curIsCtr := phis["Current"]; curIsCtr {
			for _, F := range []string{"Ready", "Available"} {
				g := guards[F]
				_, isCtr := phis[F]
				det := complDetail[F]
				if !isCtr {
					det = fmt.Sprintf("NewStatus.%s is the constant %d although current pods are counted: %s pods are never reported", F, consts[F], strings.ToLower(F))
				}
				r.Check("C14.R2", "NewStatus."+F+" complete", lpos, shortFunc(fn),
					"every pod counted as current for which "+shortName(g.callee)+"(pod) is known to hold is counted in NewStatus."+F+" (and the counter is not a constant)", isCtr && complOK[F], det)
			}
		}
		if _, isCtr := phis["Desired"]; isCtr {
			r.Check("C14.R2", "NewStatus.Desired per node", lpos, shortFunc(fn), "NewStatus.Desired grows by exactly one per targeted node", desOK, desDetail)
			r.Check("C14.R2", "counter chain", lpos, shortFunc(fn), "per node: 0 <= dAvailable <= dReady <= dCurrent <= dDesired <= 1 on every feasible path", chainOK,
				map[bool]string{true: fmt.Sprintf("%d feasible path(s) of %d", feasible, len(paths)), false: chainDetail}[chainOK])
		} else {
			o := r.Check("C14.R2", "counter chain", lpos, shortFunc(fn), "per node: the counters are simple increments guarded by tests on one pod", chainOK,
				map[bool]string{true: fmt.Sprintf("Desired is the constant %d (role neither active nor canary): the chain up to Desired is not claimed for this role", consts["Desired"]), false: chainDetail}[chainOK])
			o.Trivial = chainOK
		}
	}
}

// c14CountersOnSuccess (R2b): every return of a planner that is not an error return (the returned
// error is not known to be non-nil where the return executes) is dominated by a store of each of
// NewStatus.{Desired, Ready, Current, Available}: a successful plan always carries freshly counted
// numbers; stale counters may only accompany an error.
func c14CountersOnSuccess(r *Run, fn *ssa.Function, positions map[string][]ssa.Instruction) {
	ff := computeFacts(fn)
	errIdx := -1
	res := fn.Signature.Results()
	errT := types.Universe.Lookup("error").Type()
	for i := 0; i < res.Len(); i++ {
		if types.Identical(res.At(i).Type(), errT) {
			errIdx = i
		}
	}
	for i, ret := range returnsOf(fn) {
		rpos := r.Prog.Pos(instrPos(ret))
		construct := fmt.Sprintf("counters written before return-%d", i+1)
		need := "a return without a known error is dominated by the stores of NewStatus.Desired/Ready/Current/Available"
		if errIdx >= 0 && errIdx < len(ret.Results) {
			e := ret.Results[errIdx]
			if !isNilConst(e) && ff.Holds(ret.Block(), false, func(v ssa.Value, _ string) bool {
				return isNilCompareOf(v, func(x ssa.Value) bool { return x == e })
			}) {
				o := r.Check("C14.R2", construct, rpos, shortFunc(fn), need, true, "error return: the returned error is non-nil on every path to it")
				o.Trivial = true
				continue
			}
		}
		var missing []string
		for _, F := range []string{"Desired", "Ready", "Current", "Available"} {
			found := false
			for _, at := range positions[F] {
				if at.Block() == ret.Block() || at.Block().Dominates(ret.Block()) {
					found = true
				}
			}
			if !found {
				missing = append(missing, F)
			}
		}
		detail := ""
		if len(missing) > 0 {
			detail = "this return can be reached without writing NewStatus." + strings.Join(missing, ", NewStatus.") + ": the replica-set status keeps its previous numbers"
		}
		r.Check("C14.R2", construct, rpos, shortFunc(fn), need, len(missing) == 0, detail)
	}
}

// c14TemplateMatch names the semantic guard "the pod's template-hash annotation equals a hash".
const c14TemplateMatch = "<template-hash match>"

// c14HashEqSubject: v is `<pod>.Annotations[MD5ExtendedDaemonSetAnnotationKey] == x` for a pod accepted
// by isPod; returns that pod.
func c14HashEqSubject(r *Run, v ssa.Value, isPod func(ssa.Value) bool) ssa.Value {
	x, y, ok := eqOperands(v)
	if !ok {
		return nil
	}
	key, _ := r.Prog.constStr(pkgAPI, "MD5ExtendedDaemonSetAnnotationKey")
	for _, side := range []ssa.Value{x, y} {
		side = unwrap(side)
		if e, isE := side.(*ssa.Extract); isE && e.Index == 0 {
			side = e.Tuple
		}
		l, isL := side.(*ssa.Lookup)
		if !isL {
			continue
		}
		if s, isS := constString(l.Index); !isS || s != key {
			continue
		}
		var pod ssa.Value
		if annotationsOf(func(o ssa.Value) bool {
			if isPtrToNamed(o.Type(), pkgCoreV1, "Pod") && isPod(o) {
				pod = o
				return true
			}
			return false
		})(l.X) {
			return pod
		}
		if _, isParam := unwrap(l.X).(*ssa.Parameter); isParam && isPod(unwrap(l.X)) {
			return l.X // the subject was handed over as its annotations map
		}
	}
	return nil
}

// c14ImpliesTemplateMatch: every path on which fn returns true carries the template-hash equality
// of its parameter #podIdx, directly or through another repository predicate called with that pod.
func c14ImpliesTemplateMatch(r *Run, fn *ssa.Function, podIdx int, memo map[string]bool, depth int) bool {
	if podIdx >= len(fn.Params) || depth > 3 || len(fn.Blocks) == 0 {
		return false
	}
	res := fn.Signature.Results()
	if res.Len() != 1 {
		return false
	}
	if b, isB := res.At(0).Type().Underlying().(*types.Basic); !isB || b.Kind() != types.Bool {
		return false
	}
	mk := fmt.Sprintf("%s#%d", funcName(fn), podIdx)
	if v, ok := memo[mk]; ok {
		return v
	}
	memo[mk] = false
	pod := fn.Params[podIdx]
	isPod := func(v ssa.Value) bool { return unwrap(v) == ssa.Value(pod) }
	paths, ok := truePaths(fn, 0, 2000)
	r.paths += len(paths)
	good := ok && len(paths) > 0
	for _, p := range paths {
		found := false
		for _, f := range p.Facts {
			if !f.Pol {
				continue
			}
			if c14HashEqSubject(r, f.V, isPod) != nil {
				found = true
			}
			if c, isCall := f.V.(*ssa.Call); isCall {
				if cal := staticCallee(&c.Call); cal != nil && r.Prog.IsRuleSite(cal) {
					for i, a := range c.Call.Args {
						passes := isPod(a)
						if !passes {
							// the pod's annotations handed to a predicate that only needs them
							if _, isMap := a.Type().Underlying().(*types.Map); isMap {
								passes = annotationsOf(isPod)(a)
							}
						}
						if passes && c14ImpliesTemplateMatch(r, cal, i, memo, depth+1) {
							found = true
						}
					}
				}
			}
		}
		if !found {
			good = false
		}
	}
	memo[mk] = good
	return good
}

// c14CondUpdater (R3): the ExtendedDaemonSet condition updater makes an existing condition agree with
// what it is given: Status becomes the given status unless it already equals it, and whenever the
// given status is True the Reason and the Message are refreshed - also when the status did not change
// (a condition that stays True must follow a changed reason, e.g. another pause reason).
func c14CondUpdater(r *Run, reach map[*ssa.Function]bool) {
	fn := r.Prog.Func(pkgEDSCond, "UpdateExtendedDaemonSetStatusCondition")
	if fn == nil {
		r.Fatal("anchor %s not found", fnEDSCondUpdate)
		return
	}
	pos := r.Prog.Pos(fn.Pos())
	var statusP *ssa.Parameter
	var strs []*ssa.Parameter
	for _, p := range fn.Params {
		switch {
		case typeName(p.Type()) == pkgCoreV1+".ConditionStatus":
			statusP = p
		default:
			if b, ok := p.Type().(*types.Basic); ok && b.Kind() == types.String {
				strs = append(strs, p)
			}
		}
	}
	// which string parameter is the reason: the one that receives a value converted from an
	// ExtendedDaemonSetStatusReason at a call site of the reconciler
	var reasonP, descP *ssa.Parameter
	for _, c := range callSitesOf(fn, reach) {
		for i, a := range c.Common().Args {
			if i >= len(fn.Params) {
				break
			}
			// the argument is (on some way it is computed) a value converted from a status reason
			if anyOrigin(a, func(o ssa.Value) bool { return typeName(o.Type()) == pkgAPI+".ExtendedDaemonSetStatusReason" }) {
				reasonP = fn.Params[i]
			}
		}
	}
	// preferably: the arguments that a newly created condition receives as Reason and Message (read off
	// the constructor the updater calls)
	for _, ci := range callsIn(fn) {
		c, isCall := ci.(*ssa.Call)
		if !isCall {
			continue
		}
		ctor := staticCallee(&c.Call)
		if ctor == nil || !r.Prog.IsRuleSite(ctor) || typeName(c.Type()) != pkgAPI+".ExtendedDaemonSetCondition" {
			continue
		}
		for _, b := range ctor.Blocks {
			for _, in := range b.Instrs {
				st, isSt := in.(*ssa.Store)
				if !isSt {
					continue
				}
				fa, isFA := st.Addr.(*ssa.FieldAddr)
				if !isFA {
					continue
				}
				for i, cp := range ctor.Params {
					if i >= len(c.Call.Args) || !(st.Val == ssa.Value(cp) || readsParam(st.Val, cp)) {
						continue
					}
					up, isP := c.Call.Args[i].(*ssa.Parameter)
					if !isP || up.Parent() != fn {
						continue
					}
					switch fieldName(fa) {
					case "Reason":
						reasonP = up
					case "Message":
						descP = up
					}
				}
			}
		}
	}
	for _, p := range strs {
		if p != reasonP && descP == nil {
			descP = p
		}
	}
	if statusP == nil || reasonP == nil || descP == nil || len(strs) != 2 {
		r.Undecided("C14.R3", "condition updater", pos, shortFunc(fn), "the status / reason / message parameters of the updater cannot be identified")
		return
	}
	isCondPtr := func(v ssa.Value) bool { return isPtrToNamed(v.Type(), pkgAPI, "ExtendedDaemonSetCondition") }
	isElem := func(v ssa.Value) bool {
		if _, isParam := v.(*ssa.Parameter); isParam {
			return false
		}
		return isCondPtr(v)
	}
	exists := func(p *Path) bool { return pathFoundElement(p, isCondPtr) }
	isTrue := map[*ssa.Parameter]string{statusP: "True"}
	rootFr := &vframe{fn: fn}
	for _, w := range []struct {
		field string
		val   *ssa.Parameter
	}{{"Reason", reasonP}, {"Message", descP}} {
		eng := &setEngine{r: r, field: w.field, val: w.val, strAssume: isTrue}
		ok, n, bad := eng.check(rootFr, isElem, exists)
		detail := fmt.Sprintf("%d path(s) with an existing condition and status True", n)
		if !ok {
			detail = "not refreshed on path " + bad
		}
		r.Check("C14.R3", "updater refreshes "+w.field, pos, shortFunc(fn),
			"an existing condition given status True gets its "+w.field+" from the argument on every path (also when the status does not change)", ok && n > 0, detail)
	}
	// Status: unless known equal
	eng := &setEngine{r: r, field: "Status", val: statusP, unlessEqual: true}
	ok, n, bad := eng.check(rootFr, isElem, exists)
	detail := fmt.Sprintf("%d path(s) with an existing condition whose status is not known to equal the argument", n)
	if !ok {
		detail = "not updated on path " + bad
	}
	r.Check("C14.R3", "updater sets Status", pos, shortFunc(fn), "an existing condition gets the given status unless it already has it", ok && n > 0, detail)
}

// c14ActiveRoleResets (R3): the ExtendedDaemonSet reconciler derives its Canary-Paused / Canary-Failed
// conditions and state from conditions it reads on the up-to-date replica set (through
// IsCanaryDeploymentPaused / IsCanaryDeploymentFailed), also when that replica set is the active one and
// no canary is running. So a replica set that syncs in the active role must reset every such condition to
// False before it plans the rolling update - otherwise a pause/failure recorded while it was the canary
// is reported for ever after its promotion.
func c14ActiveRoleResets(r *Run) {
	rec := r.Prog.Method(pkgERS, "Reconciler", "Reconcile")
	planner := r.Prog.Func(pkgStrategy, "ManageDeployment")
	if rec == nil || planner == nil {
		r.Fatal("anchors for the active-role reset not found")
		return
	}
	reach := r.Prog.reachableFuncs(rec)
	// condition types read by the canary predicates
	read := map[string]string{}
	for _, name := range []string{"IsCanaryDeploymentPaused", "IsCanaryDeploymentFailed"} {
		pred := r.Prog.Func(pkgEDS, name)
		if pred == nil {
			r.Fatal("anchor %s.%s not found", pkgEDS, name)
			return
		}
		for _, fn := range sortedFuncs(r.Prog.reachableFuncs(pred)) {
			for _, ci := range callsIn(fn) {
				c := ci.Common()
				cal := staticCallee(c)
				if cal == nil || cal.Pkg == nil || cal.Pkg.Pkg.Path() != pkgERSCond || len(c.Args) < 2 {
					continue
				}
				if s, ok := constString(c.Args[1]); ok {
					read[s] = name
				}
			}
		}
	}
	var types []string
	for t := range read {
		types = append(types, t)
	}
	sort.Strings(types)
	sites := callSitesOf(planner, reach)
	if len(types) == 0 || len(sites) == 0 {
		r.Check("C14.R3", "active role resets canary conditions", r.Prog.Pos(planner.Pos()), shortFunc(planner),
			"the canary predicates read replica-set conditions and the rolling-update planner is called from the replica-set reconciler", false,
			fmt.Sprintf("%d condition types read, %d call sites of the planner", len(types), len(sites)))
		return
	}
	for _, cs := range sites {
		f := cs.Parent()
		var paramsRoot ssa.Value
		for _, a := range cs.Common().Args {
			if isPtrToNamed(a.Type(), pkgStrategy, "Parameters") {
				paramsRoot, _ = accessPath(a)
			}
		}
		for _, t := range types {
			t := t
			// a reset: the updater called with (status, _, t, False, …), directly or inside a repository
			// helper / local closure every path of which does it; the helper's parameters stand for the
			// call's arguments (type and status may be passed in) and captured variables for the cells
			// they are bound to
			type env map[*ssa.Parameter]ssa.Value
			var resolve func(v ssa.Value, e env, d int) ssa.Value
			resolve = func(v ssa.Value, e env, d int) ssa.Value {
				for i := 0; i < 6 && v != nil; i++ {
					switch x := v.(type) {
					case *ssa.Parameter:
						if nv, ok := e[x]; ok {
							v = nv
							continue
						}
					case *ssa.FreeVar:
						if bnd := closureBinding(x); bnd != nil {
							v = bnd
							continue
						}
					}
					break
				}
				return v
			}
			var resetIn func(in ssa.Instruction, e env, depth int) bool
			resetIn = func(in ssa.Instruction, e env, depth int) bool {
				c, ok := in.(*ssa.Call)
				if !ok {
					return false
				}
				if calleeName(&c.Call) == fnERSCondUpdate && len(c.Call.Args) == 8 {
					ty, okT := constString(resolve(c.Call.Args[2], e, 0))
					st, okS := constString(resolve(c.Call.Args[3], e, 0))
					if !okT || !okS || ty != t || st != "False" {
						return false
					}
					root, _ := accessPath(c.Call.Args[0])
					root = resolve(root, e, 0)
					if rr, _ := accessPath(root); rr != nil {
						root = rr
					}
					return paramsRoot == nil || root == paramsRoot
				}
				cal := staticCallee(&c.Call)
				if cal == nil || cal == planner || depth > 2 || len(cal.Blocks) == 0 || !r.Prog.IsRuleSite(cal) {
					return false
				}
				sub := env{}
				for i, a := range c.Call.Args {
					if i < len(cal.Params) {
						sub[cal.Params[i]] = resolve(a, e, 0)
					}
				}
				isRet := func(x ssa.Instruction) bool { _, isR := x.(*ssa.Return); return isR }
				return reachFromEntryAvoiding(cal, isRet, func(x ssa.Instruction) bool { return resetIn(x, sub, depth+1) }) == nil
			}
			isReset := func(in ssa.Instruction) bool { return resetIn(in, env{}, 0) }
			esc := reachFromEntryAvoiding(f, func(in ssa.Instruction) bool { return in == ssa.Instruction(cs) }, isReset)
			r.Check("C14.R3", "active role resets condition "+t, r.Prog.Pos(cs.Pos()), shortFunc(f),
				"before planning in the active role, the replica-set condition "+t+" (read by "+read[t]+" for the ExtendedDaemonSet's status) is set to False on the status handed to the planner", esc == nil,
				map[bool]string{true: "", false: "the rolling-update planner can be reached without resetting the condition: a value recorded while the replica set was the canary survives its promotion"}[esc == nil])
		}
	}
}

func shortName(callee string) string {
	if i := strings.LastIndex(callee, "."); i >= 0 {
		return callee[i+1:]
	}
	return callee
}

// ---------------------------------------------------------------------------------------------
// R3

// boolRoles classifies the bool parameters of fn from the arguments at its call sites:
// "failed" <- IsCanaryDeploymentFailed(...), "paused" <- IsCanaryDeploymentPaused(...)#0,
// "active" <- result of another repository predicate.
func c14BoolRoles(r *Run, fn *ssa.Function, reach map[*ssa.Function]bool) (map[string]*ssa.Parameter, *ssa.Call) {
	roles := map[string]*ssa.Parameter{}
	var activeCall *ssa.Call
	for _, c := range callSitesOf(fn, reach) {
		for i, p := range fn.Params {
			if b, ok := p.Type().Underlying().(*types.Basic); !ok || b.Kind() != types.Bool {
				continue
			}
			a := c.Common().Args[i]
			if _, ok := isResultOf(a, pkgEDS+".IsCanaryDeploymentFailed", -1); ok {
				roles["failed"] = p
			} else if _, ok := isResultOf(a, pkgEDS+".IsCanaryDeploymentPaused", 0); ok {
				roles["paused"] = p
			} else if call, ok := a.(*ssa.Call); ok && staticCallee(&call.Call) != nil && r.Prog.IsRuleSite(staticCallee(&call.Call)) {
				roles["active"] = p
				activeCall = call
			}
		}
	}
	return roles, activeCall
}

// tri is a three-valued boolean read off path facts.
func paramFact(p *Path, param *ssa.Parameter) (val, known bool) {
	if param == nil {
		return false, false
	}
	for _, f := range p.Facts {
		if f.V == ssa.Value(param) {
			return f.Pol, true
		}
	}
	return false, false
}

func c14Tables(r *Run, reach map[*ssa.Function]bool) {
	failedT, _ := r.Prog.constStr(pkgAPI, "ConditionTypeEDSCanaryFailed")
	pausedT, _ := r.Prog.constStr(pkgAPI, "ConditionTypeEDSCanaryPaused")
	stFailed, _ := r.Prog.constStr(pkgAPI, "ExtendedDaemonSetStatusStateCanaryFailed")
	stPaused, _ := r.Prog.constStr(pkgAPI, "ExtendedDaemonSetStatusStateCanaryPaused")
	stCanary, _ := r.Prog.constStr(pkgAPI, "ExtendedDaemonSetStatusStateCanary")

	for _, fn := range sortedFuncs(reach) {
		if !r.Prog.IsRuleSite(fn) {
			continue
		}
		// ---- condition maintenance: calls of the updater with the canary condition types
		var condCalls []*ssa.Call
		for _, ci := range callsIn(fn) {
			if c, ok := ci.(*ssa.Call); ok && calleeName(&c.Call) == fnEDSCondUpdate && len(c.Call.Args) >= 4 {
				condCalls = append(condCalls, c)
			}
		}
		isCanaryCond := false
		for _, c := range condCalls {
			if s, ok := constString(c.Call.Args[2]); ok && (s == failedT || s == pausedT) {
				isCanaryCond = true
			}
		}
		if isCanaryCond {
			c14CondTable(r, fn, reach, condCalls, failedT, pausedT)
		}
		// ---- state function: stores State constants of the canary states
		stateStores := storesOfField(fn, pkgAPI, "ExtendedDaemonSetStatus", map[string]bool{"State": true})
		isStateFn := false
		for _, st := range stateStores {
			if s, ok := constString(st.Val); ok && (s == stFailed || s == stPaused || s == stCanary) {
				isStateFn = true
			}
		}
		if isStateFn {
			c14StateTable(r, fn, reach, stFailed, stPaused, stCanary)
		}
	}
}

func c14CondTable(r *Run, fn *ssa.Function, reach map[*ssa.Function]bool, calls []*ssa.Call, failedT, pausedT string) {
	pos := r.Prog.Pos(fn.Pos())
	roles, _ := c14BoolRoles(r, fn, reach)
	if roles["failed"] == nil || roles["paused"] == nil {
		r.Undecided("C14.R3", "canary conditions", pos, shortFunc(fn), "the failed/paused parameters cannot be identified from the call sites (arguments are not the results of IsCanaryDeploymentFailed / IsCanaryDeploymentPaused)")
		return
	}
	paths, _, ok := funcPaths(fn, 5000)
	r.paths += len(paths)
	if !ok {
		r.Undecided("C14.R3", "canary conditions", pos, shortFunc(fn), "path cap exceeded")
		return
	}
	for _, p := range paths {
		failed, fk := paramFact(p, roles["failed"])
		paused, pk := paramFact(p, roles["paused"])
		last := map[string]string{} // type -> status written last on this path
		for _, b := range p.Blocks {
			for _, in := range b.Instrs {
				for _, c := range calls {
					if ssa.Instruction(c) != in {
						continue
					}
					t, okT := constString(c.Call.Args[2])
					s, okS := constString(p.Resolve(c.Call.Args[3]))
					if !okT {
						continue
					}
					if !okS {
						s = "?"
					}
					last[t] = s
				}
			}
		}
		desc := fmt.Sprintf("failed=%s paused=%s", c14tri(failed, fk), c14tri(paused, pk))
		ret := returnOf(p.Blocks[len(p.Blocks)-1])
		rpos := r.Prog.Pos(instrPos(ret))
		// Canary-Failed
		{
			okRule := fk && last[failedT] == map[bool]string{true: "True", false: "False"}[failed]
			r.Check("C14.R3", "Canary-Failed condition on path ["+desc+"]", rpos, shortFunc(fn), "condition Canary-Failed is True iff the canary failed", okRule,
				"written status: "+last[failedT])
		}
		// Canary-Paused = paused && !failed
		{
			var want string
			switch {
			case fk && failed:
				want = "False"
			case pk && !paused:
				want = "False"
			case fk && pk && paused && !failed:
				want = "True"
			}
			okRule := want != "" && last[pausedT] == want
			r.Check("C14.R3", "Canary-Paused condition on path ["+desc+"]", rpos, shortFunc(fn), "condition Canary-Paused is True iff the canary is paused and not failed", okRule,
				"written status: "+last[pausedT]+", expected "+want)
		}
	}
}

func c14tri(v, known bool) string {
	if !known {
		return "?"
	}
	return fmt.Sprint(v)
}

func c14StateTable(r *Run, fn *ssa.Function, reach map[*ssa.Function]bool, stFailed, stPaused, stCanary string) {
	pos := r.Prog.Pos(fn.Pos())
	roles, activeCall := c14BoolRoles(r, fn, reach)
	if roles["failed"] == nil || roles["paused"] == nil || roles["active"] == nil {
		r.Undecided("C14.R3", "state table", pos, shortFunc(fn), "the failed/paused/active parameters cannot be identified from the call sites")
		return
	}
	paths, _, ok := funcPaths(fn, 5000)
	r.paths += len(paths)
	if !ok {
		r.Undecided("C14.R3", "state table", pos, shortFunc(fn), "path cap exceeded")
		return
	}
	for _, p := range paths {
		failed, fk := paramFact(p, roles["failed"])
		paused, pk := paramFact(p, roles["paused"])
		active, ak := paramFact(p, roles["active"])
		var lastState ssa.Value
		var lastCanary ssa.Value
		var lastReason ssa.Value
		canaryNamed := false
		for _, b := range p.Blocks {
			for _, in := range b.Instrs {
				st, isSt := in.(*ssa.Store)
				if !isSt {
					continue
				}
				fa, isFA := st.Addr.(*ssa.FieldAddr)
				if !isFA {
					continue
				}
				switch {
				case isPtrToNamed(fa.X.Type(), pkgAPI, "ExtendedDaemonSetStatus") && fieldName(fa) == "State":
					lastState = p.Resolve(st.Val)
				case isPtrToNamed(fa.X.Type(), pkgAPI, "ExtendedDaemonSetStatus") && fieldName(fa) == "Reason":
					lastReason = p.Resolve(st.Val)
				case isPtrToNamed(fa.X.Type(), pkgAPI, "ExtendedDaemonSetStatus") && fieldName(fa) == "Canary":
					lastCanary = st.Val
				case isPtrToNamed(fa.X.Type(), pkgAPI, "ExtendedDaemonSetStatusCanary") && fieldName(fa) == "ReplicaSet":
					canaryNamed = true
				}
			}
		}
		desc := fmt.Sprintf("failed=%s active=%s paused=%s", c14tri(failed, fk), c14tri(active, ak), c14tri(paused, pk))
		ret := returnOf(p.Blocks[len(p.Blocks)-1])
		rpos := r.Prog.Pos(instrPos(ret))
		got := "<none>"
		if lastState != nil {
			if s, isC := constString(lastState); isC {
				got = "'" + s + "'"
			} else {
				got = lastState.String()
			}
		}
		var okState bool
		var want string
		switch {
		case fk && failed:
			want = "'" + stFailed + "'"
			okState = got == want
		case fk && !failed && ak && active:
			switch {
			case pk && paused:
				want = "'" + stPaused + "'"
			case pk && !paused:
				want = "'" + stCanary + "'"
			default:
				want = "(paused undetermined on this path)"
			}
			okState = got == want
		case fk && !failed && ak && !active:
			want = "the non-canary state of the annotations"
			if c, isCall := lastState.(*ssa.Call); isCall {
				cal := staticCallee(&c.Call)
				okState = cal != nil && r.Prog.IsRuleSite(cal) && len(c.Call.Args) == 1 && annotationsOf(func(x ssa.Value) bool {
					return isPtrToNamed(x.Type(), pkgAPI, "ExtendedDaemonSet")
				})(c.Call.Args[0])
			}
		default:
			want = "(failed/active undetermined on this path)"
		}
		r.Check("C14.R3", "State on path ["+desc+"]", rpos, shortFunc(fn),
			"State is 'Canary Failed' iff failed; else during an active canary 'Canary Paused' iff paused, else 'Canary'; else the non-canary state", okState, "stores "+got+", expected "+want)
		// Status.Reason: the pause reason during a paused active canary, empty otherwise — and it
		// must be (re)written on every path, a stale reason of an earlier canary would otherwise
		// survive into 'Running'.
		if fk && ak && (failed || !active || pk) {
			wantReason := "\"\""
			okReason := false
			gotReason := "<not written>"
			if lastReason != nil {
				gotReason = lastReason.String()
			}
			if !failed && active && paused {
				wantReason = "the paused-reason parameter"
				_, isP := unwrap(lastReason).(*ssa.Parameter)
				okReason = lastReason != nil && isP
			} else if lastReason != nil {
				sv, isC := constString(lastReason)
				okReason = isC && sv == ""
			}
			r.Check("C14.R3", "Reason on path ["+desc+"]", rpos, shortFunc(fn),
				"Status.Reason is the pause reason iff the canary is active, not failed and paused; it is reset to empty otherwise", okReason, "stores "+gotReason+", expected "+wantReason)
		}
		// Status.Canary
		if ak && active && fk && !failed {
			r.Check("C14.R3", "Status.Canary on path ["+desc+"]", rpos, shortFunc(fn), "during an active canary Status.Canary records the canary replica set", canaryNamed && (lastCanary == nil || !isNilConst(lastCanary)),
				fmt.Sprintf("Canary.ReplicaSet stored on this path: %v", canaryNamed))
		} else {
			r.Check("C14.R3", "Status.Canary on path ["+desc+"]", rpos, shortFunc(fn), "Status.Canary is cleared when the canary failed or is not active", lastCanary != nil && isNilConst(lastCanary) && !canaryNamed,
				fmt.Sprintf("nil stored to Status.Canary on this path: %v; Canary.ReplicaSet stored: %v", lastCanary != nil && isNilConst(lastCanary), canaryNamed))
		}
	}
	// the active predicate
	if activeCall != nil {
		c14ActivePredicate(r, activeCall)
	}
}

// c14ActivePredicate: the function computing `active` returns true only with failed=false and
// different replica-set names, and is given (name of the active one, name of the up-to-date one, failed).
func c14ActivePredicate(r *Run, call *ssa.Call) {
	fn := staticCallee(&call.Call)
	pos := r.Prog.Pos(fn.Pos())
	var failedP *ssa.Parameter
	var names []*ssa.Parameter
	for i, p := range fn.Params {
		switch b := p.Type().Underlying().(type) {
		case *types.Basic:
			if b.Kind() == types.Bool {
				if _, ok := isResultOf(call.Call.Args[i], pkgEDS+".IsCanaryDeploymentFailed", -1); ok {
					failedP = p
				}
			}
			if b.Kind() == types.String && nameRootOf(call.Call.Args[i]) != nil {
				names = append(names, p)
			}
		}
	}
	if failedP == nil || len(names) != 2 {
		r.Undecided("C14.R3", "active predicate", pos, shortFunc(fn), "expected (…, active name, up-to-date name, failed) arguments")
		return
	}
	a, b := nameRootOf(call.Call.Args[paramIndex(names[0])]), nameRootOf(call.Call.Args[paramIndex(names[1])])
	distinct := a != b
	paths, ok := truePaths(fn, 0, 5000)
	r.paths += len(paths)
	good := ok && distinct
	detail := ""
	if !distinct {
		detail = "both names are taken from the same replica set"
	}
	n := 0
	for _, p := range paths {
		n++
		failed, fk := paramFact(p, failedP)
		differ := p.Has(false, func(v ssa.Value, _ string) bool { return isEqCompare(v, isParam(names[0]), isParam(names[1])) })
		if !(fk && !failed && differ) {
			good = false
			detail = "returns true on path [" + shortFacts(p) + "]"
		}
	}
	if n == 0 {
		good = false
		detail = "never returns true"
	}
	r.Check("C14.R3", "active predicate", pos, shortFunc(fn), "the canary is active only if it has not failed and the active and up-to-date replica sets differ", good, detail)
}

func runC14(r *Run) {
	r.RuleDoc("C14.R1", "ExtendedDaemonSet status counters: accumulation over every listed replica set and field correspondence")
	r.RuleDoc("C14.R2", "planner counters: guards, one per node, chain available <= ready <= current <= desired per iteration")
	r.RuleDoc("C14.R3", "decision tables of the canary conditions, the state string, Status.Canary and the active flag")
	r.Floor("C14.R1", 9)
	r.Floor("C14.R2", 23)
	r.Floor("C14.R3", 15)
	r.NotCovered("agreement of the counters with the pods that actually exist (needs a cluster state); staleness of replica-set statuses read by the ExtendedDaemonSet reconciler; the Reason field and the non-canary state strings (C08); consumers of the status (cmd/check-eds, kubectl-eds); the counter chain for replica sets in the 'unknown' role, whose Desired is the constant 0; status when spec.strategy.canary is nil (the state function is not called)")

	_, reach := edsReconcile(r)
	if reach == nil {
		return
	}
	c14StatusTable(r, reach)
	c14Planners(r)
	c14Tables(r, reach)
	c14CondUpdater(r, reach)
	c14ActiveRoleResets(r)
	r.RuleDoc("C14.R4", "status.canary is decided on every path to the status write (no stale canary survives, e.g. after the canary strategy is removed)")
	r.Floor("C14.R4", 1)
	c14CanaryAlwaysDecided(r, "C14.R4")
	c14Imports(r)
}
