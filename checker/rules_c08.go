package main

// C08 — pause and freeze annotations stop exactly what they promise to stop.

import (
	"fmt"
	"sort"
	"strings"

	"golang.org/x/tools/go/ssa"
)

func init() {
	register("C08", "Decides the guard structure of pause/freeze: (R1) in the rolling-update strategy every non-nil store to Result.PodsToDelete is under IsRollingUpdatePaused(parent annotations)=false ∧ IsRolloutFrozen(parent annotations)=false, every non-nil store to Result.PodsToCreate under IsRolloutFrozen=false and NOT under a paused=false guard (a paused rolling update keeps creating pods on nodes that have none); (R2) canary pods are created only under fresh IsPaused=false ∧ IsFailed=false (=C06.R7), and every path of the promotion decision that returns the up-to-date replica set without active==upToDate / active==nil / no canary / canary-valid carries paused=false (elapsed time never promotes a paused canary); (R3) the annotation readers IsRollingUpdatePaused, IsRolloutFrozen, IsCanaryDeploymentPaused, IsCanaryDeploymentUnpaused are true only when their annotation equals \"true\" (so removal or \"false\" resumes) and false only when it does not, IsCanaryDeploymentPaused additionally on the replica set's own Canary-Paused condition; (R4) status.state decision tables: the non-canary state function returns Running only with ¬frozen ∧ ¬paused, RolloutFrozen only with frozen, RollingUpdatePaused only with paused; the canary state switch stores CanaryFailed iff failed, CanaryPaused iff active ∧ paused, Canary iff active ∧ ¬paused, and the non-canary state otherwise, with the flags wired from the readers at the call site.", runC08)
}

func runC08(r *Run) {
	r.RuleDoc("C08.R1", "update deletions guarded by ¬paused ∧ ¬frozen, creations by ¬frozen only")
	r.RuleDoc("C08.R2", "canary creations guarded by ¬paused ∧ ¬failed; a paused canary is not promoted by time")
	r.RuleDoc("C08.R3", "annotation readers are true exactly on the value \"true\" (canary pause also on the Canary-Paused condition)")
	r.RuleDoc("C08.R4", "status.state decision tables")
	r.Floor("C08.R1", 3)
	r.Floor("C08.R2", 5)
	r.Floor("C08.R3", 4)
	r.Floor("C08.R4", 9)
	r.NotCovered("behaviour over histories of toggling the annotations and over interleavings of reconciles; that the replica-set controller deletes/creates exactly Result.PodsToDelete/PodsToCreate (C03/C09/C12); clean-up deletions of duplicate or orphan pods, which the statement excludes")
	c08RollingUpdateGuards(r)
	canaryCreationGuard(r, "C08.R2")
	c08PausedPromotion(r)
	c08Readers(r)
	c08StateTables(r)
	c08Imports(r)
}

// c08FlagOfFact classifies a must-fact of the rolling-update strategy as the paused or frozen atom:
// the reader call itself (loads of never-escaping Result fields are forwarded by the keyer), or a
// load of Result.IsPaused/IsFrozen whose single store in the function is the reader call and still
// describes memory at the site.
func c08FlagOfFact(fn *ssa.Function, f Fact, site ssa.Instruction) (string, string) {
	readerOf := func(v ssa.Value) string {
		call, ok := stripConv(v).(*ssa.Call)
		if !ok || len(call.Call.Args) != 1 {
			return ""
		}
		isEDS := func(x ssa.Value) bool {
			_, isP := x.(*ssa.Parameter)
			return isP && isNamedType(x.Type(), pkgAPI, "ExtendedDaemonSet")
		}
		if !annotationsOf(isEDS)(stripConv(call.Call.Args[0])) {
			return ""
		}
		switch calleeName(&call.Call) {
		case pkgEDS + ".IsRollingUpdatePaused":
			return "paused"
		case pkgEDS + ".IsRolloutFrozen":
			return "frozen"
		}
		return ""
	}
	if w := readerOf(f.V); w != "" {
		return w, ""
	}
	for _, field := range []string{"IsPaused", "IsFrozen"} {
		if !isResultFlagLoad(f.V, field) {
			continue
		}
		ld := f.V.(*ssa.UnOp)
		root, _ := accessPath(ld)
		var sts []*ssa.Store
		for _, st := range storesToFieldOf(fn, pkgStrategy, "Result", field) {
			if sr, _ := accessPath(st.Addr); sr == root {
				sts = append(sts, st)
			}
		}
		if len(sts) != 1 {
			return "", fmt.Sprintf("Result.%s is stored %d times", field, len(sts))
		}
		w := readerOf(sts[0].Val)
		if w == "" {
			return "", "Result." + field + " is not stored from the annotation reader applied to the parent's annotations"
		}
		for _, k := range flagKillers(fn, pkgStrategy, "Result", field) {
			if k != ssa.Instruction(sts[0]) && mayExecBetween(sts[0], k, site) {
				return "", "Result." + field + " may change between its initialisation and the guarded store"
			}
		}
		if !(sts[0].Block() == ld.Block() && instrIndex(sts[0]) < instrIndex(ld) || sts[0].Block() != ld.Block() && sts[0].Block().Dominates(ld.Block())) {
			return "", "Result." + field + " is read before it is initialised"
		}
		return w, ""
	}
	return "", ""
}

func c08RollingUpdateGuards(r *Run) {
	entry := r.Prog.Func(pkgStrategy, "ManageDeployment")
	if entry == nil {
		r.Fatal("anchor %s.ManageDeployment not found", pkgStrategy)
		return
	}
	reach := r.Prog.reachableFuncs(entry)
	nDel, nCre := 0, 0
	createWhilePaused := false
	lastCreatePos, lastCreateFn := "-", "-"
	for _, fn := range sortedFuncs(reach) {
		var ff *FuncFacts
		for _, field := range []string{"PodsToDelete", "PodsToCreate"} {
			for _, st := range storesToFieldOf(fn, pkgStrategy, "Result", field) {
				pos := r.Prog.Pos(instrPos(st))
				if isNilConst(st.Val) {
					o := r.Check("C08.R1", "store "+field+"=nil", pos, shortFunc(fn), "storing nil deletes/creates nothing", true, "")
					o.Trivial = true
					continue
				}
				if ff == nil {
					ff = computeFacts(fn)
				}
				have := map[string]bool{}
				var notes []string
				for _, f := range ff.AtExpanded(st.Block()) {
					w, note := c08FlagOfFact(fn, f, st)
					if note != "" {
						notes = append(notes, note)
					}
					if w != "" && !f.Pol {
						have["¬"+w] = true
					}
				}
				detail := "must-facts: " + shortSet(ff.At(st.Block()))
				if len(notes) > 0 {
					detail = strings.Join(notes, "; ") + "; " + detail
				}
				if field == "PodsToDelete" {
					nDel++
					ok := have["¬paused"] && have["¬frozen"]
					if ok {
						detail = ""
					} else {
						detail = fmt.Sprintf("paused=false present: %v, frozen=false present: %v; ", have["¬paused"], have["¬frozen"]) + detail
					}
					r.Check("C08.R1", "store PodsToDelete", pos, shortFunc(fn),
						"pods are handed to update-deletion only under IsRollingUpdatePaused=false ∧ IsRolloutFrozen=false of the parent's annotations", ok, detail)
				} else {
					nCre++
					ok := have["¬frozen"]
					if ok {
						detail = ""
					} else {
						detail = "frozen=false is not a must-fact at the store; " + detail
					}
					r.Check("C08.R1", "store PodsToCreate", pos, shortFunc(fn),
						"pods are handed to creation only under IsRolloutFrozen=false of the parent's annotations", ok, detail)
					if !have["¬paused"] {
						createWhilePaused = true
					}
					lastCreatePos, lastCreateFn = pos, shortFunc(fn)
				}
			}
		}
	}
	if nCre > 0 {
		d2 := ""
		if !createWhilePaused {
			d2 = "every creation store is also guarded by paused=false: a paused rolling update must keep creating pods on nodes that have none"
		}
		r.Check("C08.R1", "creation not blocked by pause", lastCreatePos, lastCreateFn,
			"some store to PodsToCreate is not guarded by IsRollingUpdatePaused=false", createWhilePaused, d2)
	}
	if nDel == 0 {
		r.Check("C08.R1", "store PodsToDelete", "-", "-", "the rolling-update strategy stores Result.PodsToDelete", false, "no non-nil store found")
	}
	if nCre == 0 {
		r.Check("C08.R1", "store PodsToCreate", "-", "-", "the rolling-update strategy stores Result.PodsToCreate", false, "no non-nil store found")
	}
}

// c08PausedPromotion: paths of the promotion decision that promote by elapsed time carry paused=false.
func c08PausedPromotion(r *Run) {
	site := findDecision(r, "C08.R2")
	if site == nil || !assignRolesA(r, "C08.R2", site) {
		return
	}
	fn := site.decision
	paths, _, ok := funcPaths(fn, 5000)
	r.paths += len(paths)
	if !ok {
		r.Undecided("C08.R2", "time promotion while paused", r.Prog.Pos(fn.Pos()), shortFunc(fn), "path cap exceeded")
		return
	}
	utd := site.roles["upToDate"]
	okAll, detail, n := true, "", 0
	for _, p := range paths {
		ret := returnOf(p.Blocks[len(p.Blocks)-1])
		if unwrap(p.Resolve(ret.Results[0])) != ssa.Value(utd) {
			continue
		}
		// every alternative of the path (helpers of the decision expanded) must justify the promotion
		for _, alt := range decisionAlternatives(r.Prog, p) {
			var notes []string
			a := classifyDecisionA(r.Prog, site, alt, &notes)
			if is(a.eqActive, true) || is(a.activeNil, true) || is(a.noCanary, true) || is(a.valid, true) {
				continue
			}
			n++
			if !is(a.paused, false) && okAll {
				okAll = false
				detail = "a path returns the up-to-date replica set without explicit validation and without paused=false: " + describeAtoms(a)
				if len(notes) > 0 {
					detail += "; " + strings.Join(notes, "; ")
				}
			}
		}
	}
	o := r.Check("C08.R2", "time promotion while paused", r.Prog.Pos(fn.Pos()), shortFunc(fn),
		"elapsed time promotes the canary only when IsCanaryDeploymentPaused(parent annotations, up-to-date replica set) is false", okAll, detail)
	if n == 0 {
		o.Trivial = true
	}
}

// c08Readers implements R3.
func c08Readers(r *Run) {
	trueVal, okT := r.Prog.constStr(pkgAPI, "ValueStringTrue")
	if !okT {
		r.Fatal("constant %s.ValueStringTrue not found", pkgAPI)
		return
	}
	for _, rd := range []struct {
		fn, key string
		cond    string
	}{
		{"IsRollingUpdatePaused", "ExtendedDaemonSetRollingUpdatePausedAnnotationKey", ""},
		{"IsRolloutFrozen", "ExtendedDaemonSetRolloutFrozenAnnotationKey", ""},
		{"IsCanaryDeploymentPaused", "ExtendedDaemonSetCanaryPausedAnnotationKey", "ConditionTypeCanaryPaused"},
		{"IsCanaryDeploymentUnpaused", "ExtendedDaemonSetCanaryUnpausedAnnotationKey", ""},
	} {
		fn := r.Prog.Func(pkgEDS, rd.fn)
		key, okK := r.Prog.constStr(pkgAPI, rd.key)
		if fn == nil || !okK {
			r.Fatal("anchor %s.%s or constant %s not found", pkgEDS, rd.fn, rd.key)
			continue
		}
		condType := ""
		if rd.cond != "" {
			condType, _ = r.Prog.constStr(pkgAPI, rd.cond)
		}
		c08ReaderTable(r, fn, key, trueVal, condType)
	}
}

func c08ReaderTable(r *Run, fn *ssa.Function, key, trueVal, condType string) {
	c08ReaderTableAs(r, "C08.R3", fn, key, trueVal, condType)
}

// c08ReaderTableAs records the reader table under the given rule id (C08.R3, and C06.R13 for the
// canary readers).
func c08ReaderTableAs(r *Run, rule string, fn *ssa.Function, key, trueVal, condType string) {
	var ann *ssa.Parameter
	for _, p := range fn.Params {
		if p.Type().String() == "map[string]string" {
			ann = p
		}
	}
	pos := r.Prog.Pos(fn.Pos())
	if ann == nil {
		r.Undecided(rule, "reader table", pos, shortFunc(fn), "no annotations parameter")
		return
	}
	paths, k, ok := funcPaths(fn, 5000)
	r.paths += len(paths)
	if !ok {
		r.Undecided(rule, "reader table", pos, shortFunc(fn), "path cap exceeded")
		return
	}
	// matchers read a fact in the environment of the (possibly nested) helper it was found in
	lookupOf := func(v ssa.Value, env *envT, idx int) bool {
		v, env = stripConvE(v, env)
		var l *ssa.Lookup
		if e, isE := v.(*ssa.Extract); isE {
			if e.Index != idx {
				return false
			}
			l, _ = e.Tuple.(*ssa.Lookup)
		} else if idx == 0 {
			l, _ = v.(*ssa.Lookup)
			if l != nil && l.CommaOk {
				return false
			}
		}
		if l == nil {
			return false
		}
		if m, _ := stripConvE(l.X, env); m != ssa.Value(ann) {
			return false
		}
		kv, _ := stripConvE(l.Index, env)
		s, okc := constString(kv)
		return okc && s == key
	}
	eqTrue := func(xf xfact) bool {
		return isEqCompare(xf.V, func(v ssa.Value) bool { return lookupOf(v, xf.env, 0) }, isConstStringVal(trueVal))
	}
	found := func(xf xfact) bool { return lookupOf(xf.V, xf.env, 1) }
	condTrue := func(xf xfact) bool {
		call, isC := xf.V.(*ssa.Call)
		if !isC || condType == "" || calleeName(&call.Call) != pkgERSCond+".IsConditionTrue" {
			return false
		}
		t, okc := condTypeConst(call)
		root, okr := singleRootWithSuffixE(call.Call.Args[0], xf.env, "Status")
		pr, isP := root.(*ssa.Parameter)
		return okc && t == condType && okr && isP && pr.Parent() == fn
	}
	ersNil := func(xf xfact) bool {
		return isNilCompareOf(xf.V, func(x ssa.Value) bool {
			v, _ := stripConvE(x, xf.env)
			pr, isP := v.(*ssa.Parameter)
			return isP && pr.Parent() == fn
		})
	}
	stop := func(g *ssa.Function) bool { return g.Pkg != nil && g.Pkg.Pkg.Path() == pkgERSCond }
	has := func(alt []xfact, pol bool, m func(xfact) bool) bool {
		for _, xf := range alt {
			if xf.Pol == pol && m(xf) {
				return true
			}
		}
		return false
	}
	descAlt := func(alt []xfact) string {
		fs := factSet{}
		for _, xf := range alt {
			fs[fkey(xf.Fact)] = xf.Fact
		}
		return shortSet(fs)
	}
	okAll, detail := true, ""
	bad := func(s string) {
		if okAll {
			okAll, detail = false, s
		}
	}
	nTrue := 0
	check := func(facts []Fact, outcome bool) {
		for _, alt := range expandAlternatives(r.Prog, facts, nil, 0, stop) {
			if outcome {
				nTrue++
				if !(has(alt, true, eqTrue) || has(alt, true, condTrue)) {
					bad("can be true without annotation == \"" + trueVal + "\": " + descAlt(alt))
				}
				continue
			}
			if !(has(alt, false, eqTrue) || has(alt, false, found)) {
				bad("can be false without establishing annotation != \"" + trueVal + "\": " + descAlt(alt))
			}
			// false although the condition may be true: allowed only when the replica set is nil
			if condType != "" && !has(alt, false, condTrue) && !has(alt, true, ersNil) {
				bad("can be false without consulting the replica set's condition: " + descAlt(alt))
			}
		}
	}
	for _, p := range paths {
		ret := returnOf(p.Blocks[len(p.Blocks)-1])
		res := p.Resolve(ret.Results[0])
		facts := factList(p.Facts)
		if b, isC := constBool(res); isC {
			check(facts, b)
			continue
		}
		// a computed result: both outcomes, each with what the result expression then implies
		check(append(append([]Fact(nil), facts...), k.normCond(res, true)...), true)
		check(append(append([]Fact(nil), facts...), k.normCond(res, false)...), false)
	}
	if nTrue == 0 {
		bad("no path can return true")
	}
	need := "true exactly when the annotation equals \"" + trueVal + "\""
	if condType != "" {
		need += " or the replica set's " + condType + " condition is true"
	}
	r.Check(rule, "reader table", pos, shortFunc(fn), need, okAll, detail)
}

// c08StateTables implements R4.
func c08StateTables(r *Run) {
	_, reach := edsReconcile(r)
	if reach == nil {
		return
	}
	state := func(name string) string {
		s, _ := r.Prog.constStr(pkgAPI, name)
		return s
	}
	sRunning, sFrozen, sPaused := state("ExtendedDaemonSetStatusStateRunning"), state("ExtendedDaemonSetStatusStateRolloutFrozen"), state("ExtendedDaemonSetStatusStateRollingUpdatePaused")
	sCanary, sCanaryPaused, sCanaryFailed := state("ExtendedDaemonSetStatusStateCanary"), state("ExtendedDaemonSetStatusStateCanaryPaused"), state("ExtendedDaemonSetStatusStateCanaryFailed")
	for _, s := range []string{sRunning, sFrozen, sPaused, sCanary, sCanaryPaused, sCanaryFailed} {
		if s == "" {
			r.Fatal("a status state constant of %s is missing", pkgAPI)
			return
		}
	}
	isEDSVal := func(x ssa.Value) bool { return isNamedType(x.Type(), pkgAPI, "ExtendedDaemonSet") }
	nonCanaryFns := map[*ssa.Function]bool{}
	switchFns := map[*ssa.Function]bool{}
	for _, fn := range sortedFuncs(reach) {
		for _, st := range storesToFieldOf(fn, pkgAPI, "ExtendedDaemonSetStatus", "State") {
			pos := r.Prog.Pos(instrPos(st))
			// the stored state may be chosen through a local variable: classify every alternative of the phi
			for _, alt := range c08PhiLeaves(st.Val) {
				if _, isC := constString(alt); isC {
					switchFns[fn] = true
					continue
				}
				call, isCall := stripConv(alt).(*ssa.Call)
				g := (*ssa.Function)(nil)
				if isCall {
					g = staticCallee(&call.Call)
				}
				if g == nil || !r.Prog.IsRuleSite(g) || len(call.Call.Args) != 1 {
					r.Undecided("C08.R4", "store Status.State", pos, shortFunc(fn), "the state is neither a constant nor the result of a repository state function of the annotations")
					continue
				}
				// the annotations may reach the helper through its parameters: follow them to the call sites
				okArg := true
				srcs := argSources(r.Prog, call.Call.Args[0], 0)
				for _, src := range srcs {
					if !annotationsOf(isEDSVal)(src) {
						okArg = false
					}
				}
				okArg = okArg && len(srcs) > 0
				r.Check("C08.R4", "store Status.State="+shortFunc(g)+"(annotations)", pos, shortFunc(fn), "the non-canary state is computed from the reconciled object's annotations", okArg, "argument "+describeVal(call.Call.Args[0]))
				nonCanaryFns[g] = true
			}
		}
	}
	// non-canary table
	for _, g := range sortedFuncs(nonCanaryFns) {
		// the outcomes of the state function: one per path, or — when it scans an ordered table of
		// {predicate, state} rows — one per row plus the default
		outcomes, ok := tableScanOutcomes(r.Prog, g)
		if !ok {
			outcomes, ok = pathOutcomes(g)
		}
		r.paths += len(outcomes)
		if !ok || len(g.Params) != 1 {
			r.Undecided("C08.R4", "non-canary state table", r.Prog.Pos(g.Pos()), shortFunc(g), "path cap exceeded or unexpected signature")
			continue
		}
		arg := g.Params[0]
		atom := func(o decisionOutcome, reader string) tri {
			t := triUnknown
			for _, pf := range o.preds {
				if funcName(pf.fn) == pkgEDS+"."+reader && len(pf.args) == 1 && stripConv(pf.args[0]) == ssa.Value(arg) {
					t = triOf(pf.pol)
				}
			}
			return t
		}
		seen := map[string]bool{}
		for _, o := range outcomes {
			s, isC := constString(o.result)
			fr, pa := atom(o, "IsRolloutFrozen"), atom(o, "IsRollingUpdatePaused")
			construct := fmt.Sprintf("non-canary state on path [frozen=%v paused=%v]", fr, pa)
			pos := r.Prog.Pos(o.pos)
			if !isC {
				r.Undecided("C08.R4", construct, pos, shortFunc(g), "the returned state is not a constant on this path")
				continue
			}
			seen[s] = true
			var ok bool
			var need string
			switch s {
			case sRunning:
				ok, need = fr == triFalse && pa == triFalse, "\""+s+"\" only with frozen=false ∧ paused=false"
			case sFrozen:
				ok, need = fr == triTrue, "\""+s+"\" only with the rollout-frozen annotation true"
			case sPaused:
				ok, need = pa == triTrue, "\""+s+"\" only with the rolling-update-paused annotation true"
			default:
				ok, need = false, "one of the three non-canary states"
			}
			r.Check("C08.R4", construct, pos, shortFunc(g), need, ok, "returns \""+s+"\"")
		}
		var missing []string
		for _, s := range []string{sRunning, sFrozen, sPaused} {
			if !seen[s] {
				missing = append(missing, s)
			}
		}
		md := ""
		if len(missing) > 0 {
			md = "never returned: " + strings.Join(missing, ", ")
		}
		r.Check("C08.R4", "non-canary states all reachable", r.Prog.Pos(g.Pos()), shortFunc(g), "the paused and the frozen situation are both reflected in a state", len(missing) == 0, md)
	}
	if len(nonCanaryFns) == 0 {
		r.Check("C08.R4", "non-canary state table", "-", "-", "status.state is computed by a state function of the annotations", false, "none found")
	}
	// canary state switch
	for _, fn := range sortedFuncs(switchFns) {
		c08CanarySwitch(r, fn, reach, nonCanaryFns, map[string]string{"failed": sCanaryFailed, "paused": sCanaryPaused, "canary": sCanary})
	}
	if len(switchFns) == 0 {
		r.Check("C08.R4", "canary state switch", "-", "-", "a function stores the canary states", false, "none found")
	}
}

func c08CanarySwitch(r *Run, fn *ssa.Function, reach map[*ssa.Function]bool, nonCanaryFns map[*ssa.Function]bool, st map[string]string) {
	pos := r.Prog.Pos(fn.Pos())
	// roles of the boolean parameters from the call sites
	role := map[int]string{}
	cs := callSitesOf(fn, reach)
	if len(cs) == 0 {
		r.Undecided("C08.R4", "canary state switch", pos, shortFunc(fn), "no static call site")
		return
	}
	var ersArgs []ssa.Value
	wiringNote := ""
	for _, c := range cs {
		for i, a := range c.Common().Args {
			if i >= len(fn.Params) || fn.Params[i].Type().String() != "bool" {
				continue
			}
			var w string
			v := stripConv(a)
			if call, ok := v.(*ssa.Call); ok && calleeName(&call.Call) == pkgEDS+".IsCanaryDeploymentFailed" {
				w = "failed"
				ersArgs = append(ersArgs, stripConv(call.Call.Args[0]))
			} else if e, ok := v.(*ssa.Extract); ok && e.Index == 0 {
				if call, ok := e.Tuple.(*ssa.Call); ok && calleeName(&call.Call) == pkgEDS+".IsCanaryDeploymentPaused" {
					w = "paused"
					ersArgs = append(ersArgs, stripConv(call.Call.Args[1]))
					if !annotationsOf(func(x ssa.Value) bool { return isNamedType(x.Type(), pkgAPI, "ExtendedDaemonSet") })(stripConv(call.Call.Args[0])) {
						wiringNote = "the paused flag is not read from the reconciled object's annotations"
					}
				}
			}
			if w == "" {
				w = "active"
			}
			if prev, ok := role[i]; ok && prev != w {
				r.Undecided("C08.R4", "canary state switch", r.Prog.Pos(c.Pos()), shortFunc(fn), "call sites disagree on the role of a flag parameter")
				return
			}
			role[i] = w
		}
	}
	count := map[string]int{}
	byRole := map[string]*ssa.Parameter{}
	for i, w := range role {
		count[w]++
		byRole[w] = fn.Params[i]
	}
	if count["failed"] != 1 || count["paused"] != 1 || count["active"] != 1 {
		var got []string
		for i, w := range role {
			got = append(got, fn.Params[i].Name()+"="+w)
		}
		sort.Strings(got)
		r.Undecided("C08.R4", "canary state switch", pos, shortFunc(fn), "cannot assign the roles failed/paused/active to the flag parameters from the call site: "+strings.Join(got, " "))
		return
	}
	for _, a := range ersArgs {
		if a != ersArgs[0] {
			wiringNote = "the failed and the paused flag are read from different replica sets"
		}
	}
	r.Check("C08.R4", "canary state switch flag wiring", r.Prog.Pos(cs[0].Pos()), shortFunc(cs[0].Parent()),
		"failed and paused are the readers applied to one replica set and the reconciled object's annotations", wiringNote == "", wiringNote)
	var statusParam *ssa.Parameter
	for _, p := range fn.Params {
		if isNamedType(p.Type(), pkgAPI, "ExtendedDaemonSetStatus") {
			statusParam = p
		}
	}
	paths, _, ok := funcPaths(fn, 5000)
	r.paths += len(paths)
	if !ok || statusParam == nil {
		r.Undecided("C08.R4", "canary state switch", pos, shortFunc(fn), "path cap exceeded or no status parameter")
		return
	}
	atom := func(p *Path, w string) tri {
		for _, f := range p.Facts {
			if f.V == ssa.Value(byRole[w]) {
				return triOf(f.Pol)
			}
		}
		return triUnknown
	}
	type agg struct {
		ok     bool
		detail string
		pos    string
		need   string
	}
	res := map[string]*agg{}
	var order []string
	for _, p := range paths {
		fa, ac, pa := atom(p, "failed"), atom(p, "active"), atom(p, "paused")
		var last *ssa.Store
		for _, b := range p.Blocks {
			for _, in := range b.Instrs {
				if s, isS := in.(*ssa.Store); isS && isFieldAddrOf(s.Addr, pkgAPI, "ExtendedDaemonSetStatus", "State") {
					if root, _ := accessPath(s.Addr); root == ssa.Value(statusParam) {
						last = s
					}
				}
			}
		}
		var construct, need string
		okp := false
		got := "no state stored"
		var lastVal ssa.Value
		if last != nil {
			// a state chosen through a local variable is a phi: take the alternative of this path
			lastVal = stripConv(p.Resolve(stripConv(last.Val)))
			if s, isC := constString(lastVal); isC {
				got = "\"" + s + "\""
			} else {
				got = describeVal(lastVal)
			}
		}
		isConst := func(want string) bool {
			if last == nil {
				return false
			}
			s, isC := constString(lastVal)
			return isC && s == want
		}
		switch {
		case fa == triTrue:
			construct, need = "state on paths [failed]", "\""+st["failed"]+"\""
			okp = isConst(st["failed"])
		case fa == triFalse && ac == triTrue && pa == triTrue:
			construct, need = "state on paths [¬failed active paused]", "\""+st["paused"]+"\""
			okp = isConst(st["paused"])
		case fa == triFalse && ac == triTrue && pa == triFalse:
			construct, need = "state on paths [¬failed active ¬paused]", "\""+st["canary"]+"\""
			okp = isConst(st["canary"])
		case fa == triFalse && ac == triFalse:
			construct, need = "state on paths [¬failed ¬active]", "the non-canary state of the reconciled object's annotations"
			if last != nil {
				if call, isC := lastVal.(*ssa.Call); isC && nonCanaryFns[staticCallee(&call.Call)] {
					okp = true
				}
			}
		default:
			construct, need = fmt.Sprintf("state on paths [failed=%v active=%v paused=%v]", fa, ac, pa), "a state decided by the flags failed, active and paused"
			okp = false
			got += " (the path does not decide all three flags)"
		}
		a := res[construct]
		if a == nil {
			a = &agg{ok: true, need: need, pos: pos}
			res[construct] = a
			order = append(order, construct)
		}
		if last != nil {
			a.pos = r.Prog.Pos(instrPos(last))
		}
		if !okp && a.ok {
			a.ok = false
			a.detail = "stores " + got
		}
	}
	sort.Strings(order)
	for _, k := range order {
		a := res[k]
		r.Check("C08.R4", k, a.pos, shortFunc(fn), "status.state is "+a.need, a.ok, a.detail)
	}
	for _, want := range []string{"state on paths [failed]", "state on paths [¬failed active paused]", "state on paths [¬failed active ¬paused]", "state on paths [¬failed ¬active]"} {
		if res[want] == nil {
			r.Check("C08.R4", want, pos, shortFunc(fn), "the case exists in the state switch", false, "no path with these flags")
		}
	}
}

// c08PhiLeaves flattens a value chosen through phis (a local variable assigned on several
// branches) into its alternatives.
func c08PhiLeaves(v ssa.Value) []ssa.Value {
	var out []ssa.Value
	seen := map[ssa.Value]bool{}
	var rec func(v ssa.Value)
	rec = func(v ssa.Value) {
		v = stripConv(v)
		if seen[v] {
			return
		}
		seen[v] = true
		if ph, ok := v.(*ssa.Phi); ok {
			for _, e := range ph.Edges {
				rec(e)
			}
			return
		}
		out = append(out, v)
	}
	rec(v)
	return out
}
