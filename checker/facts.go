package main

// GUARD: must-facts per basic block, and PATHS: acyclic path enumeration with path-local facts.

import (
	"go/token"
	"sort"
	"strings"

	"golang.org/x/tools/go/ssa"
)

// Fact: the condition identified by Key is known to have truth value Pol.
type Fact struct {
	Key string
	Pol bool
	V   ssa.Value // the (normalised) condition value
}

// normCond decomposes a branch condition taken with polarity pol into atomic facts.
// !x flips; x != y becomes (x==y, !pol); >,>=,<= are rewritten to < atoms.
func (k *keyer) normCond(v ssa.Value, pol bool) []Fact { return k.normCondD(v, pol, 0) }

func (k *keyer) normCondD(v ssa.Value, pol bool, depth int) []Fact {
	if depth > 24 { // cyclic boolean phis (a flag carried around a loop): stay atomic
		return []Fact{{Key: k.key(v), Pol: pol, V: v}}
	}
	switch x := v.(type) {
	case *ssa.UnOp:
		if x.Op == token.NOT {
			return k.normCondD(x.X, !pol, depth+1)
		}
		if x.Op == token.MUL && k.fwd != nil {
			if sv := k.fwd.forward(x); sv != nil {
				return k.normCondD(sv, pol, depth+1)
			}
		}
	case *ssa.BinOp:
		a, b := k.key(x.X), k.key(x.Y)
		switch x.Op {
		case token.EQL, token.NEQ:
			if b < a {
				a, b = b, a
			}
			p := pol
			if x.Op == token.NEQ {
				p = !pol
			}
			return []Fact{{Key: "(" + a + "==" + b + ")", Pol: p, V: v}}
		case token.LSS:
			return []Fact{{Key: "(" + a + "<" + b + ")", Pol: pol, V: v}}
		case token.GTR:
			return []Fact{{Key: "(" + b + "<" + a + ")", Pol: pol, V: v}}
		case token.GEQ: // a >= b  ==  !(a < b)
			return []Fact{{Key: "(" + a + "<" + b + ")", Pol: !pol, V: v}}
		case token.LEQ: // a <= b  ==  !(b < a)
			return []Fact{{Key: "(" + b + "<" + a + ")", Pol: !pol, V: v}}
		}
	case *ssa.Phi:
		// Boolean phi of a short-circuit expression used as a value: if every edge but one
		// carries the constant !pol, the remaining edge's value has polarity pol.
		var rest []ssa.Value
		for _, e := range x.Edges {
			if b, ok := constBool(e); ok && b != pol {
				continue
			}
			rest = append(rest, e)
		}
		if len(rest) == 1 && len(x.Edges) > 1 {
			out := []Fact{{Key: k.key(v), Pol: pol, V: v}}
			if _, isConst := constBool(rest[0]); !isConst && rest[0] != v {
				out = append(out, k.normCondD(rest[0], pol, depth+1)...)
			}
			return out
		}
	}
	return []Fact{{Key: k.key(v), Pol: pol, V: v}}
}

type factSet map[string]Fact // keyed by Key+polarity

func fkey(f Fact) string {
	if f.Pol {
		return "+" + f.Key
	}
	return "-" + f.Key
}

func (s factSet) has(key string, pol bool) bool {
	_, ok := s[fkey(Fact{Key: key, Pol: pol})]
	return ok
}

func (s factSet) String() string {
	var out []string
	for k := range s {
		out = append(out, k)
	}
	sort.Strings(out)
	return strings.Join(out, " ∧ ")
}

// FuncFacts holds must-facts for every block of a function.
type FuncFacts struct {
	fn  *ssa.Function
	K   *keyer
	in  map[*ssa.BasicBlock]factSet
	top map[*ssa.BasicBlock]bool
}

// edgeFacts returns the facts learned on the CFG edge from->to.
func (k *keyer) edgeFacts(from, to *ssa.BasicBlock) []Fact {
	if len(from.Instrs) == 0 {
		return nil
	}
	iff, ok := from.Instrs[len(from.Instrs)-1].(*ssa.If)
	if !ok {
		return nil
	}
	if from.Succs[0] == from.Succs[1] {
		return nil
	}
	if from.Succs[0] == to {
		return k.normCond(iff.Cond, true)
	}
	return k.normCond(iff.Cond, false)
}

// computeFacts runs the forward must-analysis (intersection over predecessors).
func computeFacts(fn *ssa.Function) *FuncFacts {
	ff := &FuncFacts{fn: fn, K: newKeyer(fn), in: map[*ssa.BasicBlock]factSet{}, top: map[*ssa.BasicBlock]bool{}}
	if len(fn.Blocks) == 0 {
		return ff
	}
	for _, b := range fn.Blocks {
		ff.top[b] = true
	}
	ff.top[fn.Blocks[0]] = false
	ff.in[fn.Blocks[0]] = factSet{}
	changed := true
	for iter := 0; changed && iter < 200; iter++ {
		changed = false
		for _, b := range fn.Blocks[1:] {
			var acc factSet
			first := true
			for _, p := range b.Preds {
				if ff.top[p] {
					continue // unreached so far: contributes ⊤
				}
				out := factSet{}
				for kk, f := range ff.in[p] {
					out[kk] = f
				}
				for _, f := range ff.K.edgeFacts(p, b) {
					out[fkey(f)] = f
				}
				if first {
					acc = out
					first = false
				} else {
					for kk := range acc {
						if _, ok := out[kk]; !ok {
							delete(acc, kk)
						}
					}
				}
			}
			if first {
				continue
			}
			if ff.top[b] || len(acc) != len(ff.in[b]) {
				ff.top[b] = false
				ff.in[b] = acc
				changed = true
			}
		}
	}
	return ff
}

// At returns the must-facts holding on entry to block b.
func (ff *FuncFacts) At(b *ssa.BasicBlock) factSet {
	if s, ok := ff.in[b]; ok {
		return s
	}
	return factSet{}
}

// Holds reports whether some fact at block b has polarity pol and a condition value accepted by match.
func (ff *FuncFacts) Holds(b *ssa.BasicBlock, pol bool, match func(v ssa.Value, key string) bool) bool {
	for _, f := range ff.At(b) {
		if f.Pol == pol && match(f.V, f.Key) {
			return true
		}
	}
	return false
}

// ---------------------------------------------------------------------------------------------
// PATHS

// Path is an acyclic CFG path with the facts learned on its edges.
type Path struct {
	Blocks []*ssa.BasicBlock
	Facts  factSet
	k      *keyer
}

// Resolve follows phis along the path: a phi in block B resolves to the edge value of the
// predecessor of B on this path (repeatedly).
func (p *Path) Resolve(v ssa.Value) ssa.Value {
	for i := 0; i < 32; i++ {
		phi, ok := v.(*ssa.Phi)
		if !ok {
			return v
		}
		idx := -1
		for j, b := range p.Blocks {
			if b == phi.Block() {
				idx = j
			}
		}
		if idx <= 0 {
			return v
		}
		pred := p.Blocks[idx-1]
		found := false
		for j, pb := range phi.Block().Preds {
			if pb == pred {
				v = phi.Edges[j]
				found = true
				break
			}
		}
		if !found {
			return v
		}
	}
	return v
}

// ResolveOnce resolves one phi level along the path.
func (p *Path) ResolveOnce(v ssa.Value) ssa.Value {
	phi, ok := v.(*ssa.Phi)
	if !ok {
		return v
	}
	idx := -1
	for j, b := range p.Blocks {
		if b == phi.Block() {
			idx = j
		}
	}
	if idx <= 0 {
		return v
	}
	pred := p.Blocks[idx-1]
	for j, pb := range phi.Block().Preds {
		if pb == pred {
			return phi.Edges[j]
		}
	}
	return v
}

// Has reports whether the path carries a fact with the given polarity accepted by match.
func (p *Path) Has(pol bool, match func(v ssa.Value, key string) bool) bool {
	for _, f := range p.Facts {
		if f.Pol == pol && match(f.V, f.Key) {
			return true
		}
	}
	return false
}

// Contains reports whether the path passes through block b.
func (p *Path) Contains(b *ssa.BasicBlock) bool {
	for _, x := range p.Blocks {
		if x == b {
			return true
		}
	}
	return false
}

// enumPaths enumerates acyclic paths from block `from` to every block accepted by isEnd.
// Paths whose facts contradict each other on one key are pruned. Path facts resolve boolean
// phis along the path, so a branch on a flag assigned earlier on the path prunes the other side.
// ok=false when the cap is exceeded.
func enumPaths(fn *ssa.Function, k *keyer, from *ssa.BasicBlock, isEnd func(*ssa.BasicBlock) bool, stopAt func(*ssa.BasicBlock) bool, cap int) ([]*Path, bool) {
	var out []*Path
	onPath := map[*ssa.BasicBlock]bool{}
	var blocks []*ssa.BasicBlock
	var facts []Fact
	okAll := true
	var rec func(b *ssa.BasicBlock)
	rec = func(b *ssa.BasicBlock) {
		if !okAll {
			return
		}
		blocks = append(blocks, b)
		onPath[b] = true
		defer func() { blocks = blocks[:len(blocks)-1]; onPath[b] = false }()
		if isEnd(b) {
			p := &Path{Blocks: append([]*ssa.BasicBlock(nil), blocks...), Facts: factSet{}, k: k}
			for _, f := range facts {
				p.Facts[fkey(f)] = f
			}
			out = append(out, p)
			if len(out) > cap {
				okAll = false
			}
			if len(b.Succs) == 0 {
				return
			}
		}
		if stopAt != nil && stopAt(b) && len(blocks) > 1 {
			return
		}
		for _, s := range b.Succs {
			if onPath[s] {
				continue
			}
			// facts learned on the edge, with phis in the condition resolved along this path
			var nf []Fact
			if iff, ok := b.Instrs[len(b.Instrs)-1].(*ssa.If); ok && b.Succs[0] != b.Succs[1] {
				pol := b.Succs[0] == s
				cond := resolveAlong(blocks, iff.Cond)
				if cb, isConst := constBool(cond); isConst {
					if cb != pol {
						continue // branch not taken on this path
					}
				} else {
					nf = k.normCond(cond, pol)
				}
			}
			contra := false
			for _, f := range nf {
				for _, g := range facts {
					if g.Key == f.Key && g.Pol != f.Pol {
						contra = true
					}
				}
			}
			if contra {
				continue
			}
			n := len(facts)
			facts = append(facts, nf...)
			rec(s)
			facts = facts[:n]
		}
	}
	rec(from)
	return out, okAll
}

func resolveAlong(blocks []*ssa.BasicBlock, v ssa.Value) ssa.Value {
	p := &Path{Blocks: blocks}
	// also look through a leading negation
	if u, ok := v.(*ssa.UnOp); ok && u.Op == token.NOT {
		inner := p.Resolve(u.X)
		if b, ok := constBool(inner); ok {
			return ssa.NewConst(boolConst(!b), u.Type())
		}
		return v
	}
	return p.Resolve(v)
}

// returnBlocks lists the blocks ending in a Return.
func isReturnBlock(b *ssa.BasicBlock) bool {
	if len(b.Instrs) == 0 {
		return false
	}
	_, ok := b.Instrs[len(b.Instrs)-1].(*ssa.Return)
	return ok
}

func returnOf(b *ssa.BasicBlock) *ssa.Return {
	if len(b.Instrs) == 0 {
		return nil
	}
	r, _ := b.Instrs[len(b.Instrs)-1].(*ssa.Return)
	return r
}

// funcPaths enumerates entry→return paths.
func funcPaths(fn *ssa.Function, cap int) ([]*Path, *keyer, bool) {
	k := newKeyer(fn)
	if len(fn.Blocks) == 0 {
		return nil, k, true
	}
	ps, ok := enumPaths(fn, k, fn.Blocks[0], isReturnBlock, nil, cap)
	return ps, k, ok
}

// FactsAtEdge returns the must-facts holding when control flows from block `from` to `to`.
func (ff *FuncFacts) FactsAtEdge(from, to *ssa.BasicBlock) factSet {
	out := factSet{}
	for k, f := range ff.At(from) {
		out[k] = f
	}
	for _, f := range ff.K.edgeFacts(from, to) {
		out[fkey(f)] = f
	}
	return out
}

// enclosingLoopHeaders returns the headers of the natural loops whose body contains block b.
func enclosingLoopHeaders(fn *ssa.Function, b *ssa.BasicBlock) map[*ssa.BasicBlock]bool {
	out := map[*ssa.BasicBlock]bool{}
	for _, u := range fn.Blocks {
		for _, h := range u.Succs {
			if !h.Dominates(u) {
				continue
			}
			// natural loop of back edge u->h: h plus every block that reaches u without passing h
			body := map[*ssa.BasicBlock]bool{h: true}
			stack := []*ssa.BasicBlock{u}
			for len(stack) > 0 {
				x := stack[len(stack)-1]
				stack = stack[:len(stack)-1]
				if body[x] {
					continue
				}
				body[x] = true
				stack = append(stack, x.Preds...)
			}
			if body[b] {
				out[h] = true
			}
		}
	}
	return out
}

// FlagTrueFacts analyses a boolean flag built from constants (found := false; ...; found = true)
// that is tested in block use: it returns, for every way the flag can become true, the must-facts
// holding at the point where the constant true is assigned. ok=false when some source of the flag
// is not a boolean constant or a phi of such (then the flag is opaque), or when the flag is carried
// around a loop that encloses the use (it may then have been set in an earlier iteration, so the
// facts under which it was set say nothing about the current iteration's element).
func (ff *FuncFacts) FlagTrueFacts(v ssa.Value, use *ssa.BasicBlock) (sets []factSet, ok bool) {
	ok = true
	var headers map[*ssa.BasicBlock]bool
	if use != nil {
		headers = enclosingLoopHeaders(ff.fn, use)
	}
	seen := map[ssa.Value]bool{}
	var rec func(v ssa.Value)
	rec = func(v ssa.Value) {
		if seen[v] {
			return
		}
		seen[v] = true
		phi, isPhi := v.(*ssa.Phi)
		if !isPhi {
			if _, isC := constBool(v); !isC {
				ok = false
			}
			return
		}
		if headers[phi.Block()] {
			ok = false // loop-carried across iterations of a loop enclosing the use
			return
		}
		for i, e := range phi.Edges {
			if b, isC := constBool(e); isC {
				if b {
					sets = append(sets, ff.FactsAtEdge(phi.Block().Preds[i], phi.Block()))
				}
				continue
			}
			rec(e)
		}
	}
	if _, isPhi := v.(*ssa.Phi); !isPhi {
		return nil, false
	}
	rec(v)
	return sets, ok
}

// anyFact reports whether the set has a fact of the polarity accepted by match.
func (s factSet) any(pol bool, match func(v ssa.Value, key string) bool) bool {
	for _, f := range s {
		if f.Pol == pol && match(f.V, f.Key) {
			return true
		}
	}
	return false
}
