package main

// C11 (continued) — clauses added after seeded changes showed the gap:
//   R4  the non-idempotent pod Create is issued once per candidate and never re-issued in the
//       same invocation (imported from C01.R4);
//   R5  no error of an API read is swallowed: when a Get/List (or a repository function that
//       forwards such an error) fails, the calling function returns an error that depends on it
//       (absence reported by IsNotFound is a state, not a failure);
//   R6  the two-step status/spec write is recoverable (imported from C07.R1/R2).

import (
	"fmt"
	"strings"

	"golang.org/x/tools/go/ssa"
)

func c11Extra(r *Run) {
	r.Floor("C11.R4", 3)
	r.Floor("C11.R5", 12)
	r.Floor("C11.R6", 5)
	r.ImportFrom(runC01, map[string]string{"C01.R4": "C11.R4"}, map[string]string{
		"C11.R4": "pod Create (GenerateName, not idempotent) is issued once per creation candidate, never retried within a sync, only for nil entries",
	})
	r.ImportFrom(runC07, map[string]string{"C07.R1": "C11.R6", "C07.R2": "C11.R6"}, map[string]string{
		"C11.R6": "the two-step rollback write (status, then spec) is recomputed from scratch: guarded by a whole-object diff, failed flag read from the replica set, spec write follows a successful status write",
	})
	c11ReadErrors(r)
	c11MoreImports(r)
	c11SelfClearingGuards(r)
}

// errorResultIndex returns the index of the (last) error result of a signature, or -1.
func errorResultIndex(fn *ssa.Function) int {
	res := fn.Signature.Results()
	for i := res.Len() - 1; i >= 0; i-- {
		if res.At(i).Type().String() == "error" {
			return i
		}
	}
	return -1
}

// c11ReadErrors implements C11.R5.
func c11ReadErrors(r *Run) {
	r.RuleDoc("C11.R5", "errors of API reads (Get/List), direct or forwarded by repository functions, are propagated: on the error path the caller returns an error depending on it (IsNotFound excepted)")
	entries := reconcileEntries(r)
	var roots []*ssa.Function
	for _, e := range entries {
		roots = append(roots, e)
	}
	reach := r.Prog.reachableFuncs(roots...)

	// errValue(call) -> the error value produced by a call instruction, if any
	errValueOf := func(c *ssa.Call) ssa.Value {
		sig := c.Call.Signature()
		n := sig.Results().Len()
		if n == 0 {
			return nil
		}
		if n == 1 {
			if sig.Results().At(0).Type().String() == "error" {
				return c
			}
			return nil
		}
		for _, rr := range refs(c) {
			if ex, ok := rr.(*ssa.Extract); ok && sig.Results().At(ex.Index).Type().String() == "error" {
				return ex
			}
		}
		return nil
	}

	// read-error sources: client Get/List, and repository functions that may return an error
	// depending on a read-error source (fixpoint).
	source := map[*ssa.Function]bool{}
	isSourceCall := func(c *ssa.Call) bool {
		if e := clientEffect(c.Parent(), c); e != nil {
			return e.Verb == "Get" || e.Verb == "List"
		}
		if cal := staticCallee(&c.Call); cal != nil && source[cal] {
			return true
		}
		return false
	}
	for changed := true; changed; {
		changed = false
		for _, fn := range sortedFuncs(reach) {
			if source[fn] {
				continue
			}
			idx := errorResultIndex(fn)
			if idx < 0 {
				continue
			}
			for _, b := range fn.Blocks {
				ret := returnOf(b)
				if ret == nil || len(ret.Results) <= idx {
					continue
				}
				if dependsOn(ret.Results[idx], func(v ssa.Value) bool {
					c, ok := v.(*ssa.Call)
					return ok && isSourceCall(c)
				}) {
					source[fn] = true
					changed = true
				}
			}
		}
	}

	// named exception (one symbol, with the reason): the settings reconciler's own list of settings
	settingsListReason := "status-only reconciler: on a failed settings list it rewrites its previous verdict (Error cleared) and stops; nothing else is computed from the missing list and no pod is touched"

	for _, fn := range sortedFuncs(reach) {
		var ff *FuncFacts
		for _, ci := range callsIn(fn) {
			c, ok := ci.(*ssa.Call)
			if !ok || !isSourceCall(c) {
				continue
			}
			ev := errValueOf(c)
			what := calleeName(&c.Call)
			if e := clientEffect(fn, c); e != nil {
				what = e.String()
			} else {
				what = "call " + strings.ReplaceAll(what, repoMod+"/", "")
			}
			pos := r.Prog.Pos(c.Pos())
			construct := "read error of " + what
			if ev == nil {
				r.Check("C11.R5", construct, pos, shortFunc(fn), "the error result of an API read is not discarded", false, "error result is dropped")
				continue
			}
			if fn.Pkg != nil && fn.Pkg.Pkg.Path() == pkgSetting && what == "List(ExtendedDaemonsetSettingList)" {
				o := r.Check("C11.R5", construct, pos, shortFunc(fn), "named exception", true, settingsListReason)
				o.Trivial = true
				continue
			}
			if ff == nil {
				ff = computeFacts(fn)
			}
			// the failure is recorded in a status the function writes: a store to an `Error` field whose
			// value depends on the error, in a block reached only with the error set
			if c11RecordedInStatus(fn, ff, ev) {
				r.Check("C11.R5", construct, pos, shortFunc(fn), "when the read fails the failure is recorded in the object's status (Error field built from the error)", true, "")
				continue
			}
			idx := errorResultIndex(fn)
			if idx < 0 {
				r.Check("C11.R5", construct, pos, shortFunc(fn), "a function that performs an API read can report its failure", false, "the function has no error result")
				continue
			}
			// every return reachable with ev != nil (and not IsNotFound(ev)) must return an error depending on ev.
			okAll, detail := true, ""
			tested := false
			for _, b := range fn.Blocks {
				ret := returnOf(b)
				if ret == nil || len(ret.Results) <= idx {
					continue
				}
				failing := ff.Holds(b, false, func(v ssa.Value, _ string) bool {
					return isNilCompareOf(v, func(x ssa.Value) bool { return x == ev })
				})
				if !failing {
					// the return of the error value itself (return x, err) without a test also propagates
					if dependsOnV(ret.Results[idx], func(v ssa.Value) bool { return v == ev }) {
						tested = true
					}
					continue
				}
				tested = true
				notFound := ff.Holds(b, true, func(v ssa.Value, _ string) bool {
					cc, isC := v.(*ssa.Call)
					return isC && strings.HasSuffix(calleeName(&cc.Call), "errors.IsNotFound") && len(cc.Call.Args) == 1 && cc.Call.Args[0] == ev
				})
				if notFound {
					continue
				}
				if !dependsOnV(ret.Results[idx], func(v ssa.Value) bool { return v == ev }) {
					okAll = false
					detail = fmt.Sprintf("return at %s is reached with the read error set but returns %s", r.Prog.Pos(instrPos(ret)), ret.Results[idx].String())
				}
			}
			if !tested && c11CollectedIntoSlice(ev) {
				// the error is appended to the error list of the sync, whose way into the
				// ReconcileError condition is C17.R3's obligation
				tested = true
			}
			if !tested {
				okAll = false
				detail = "the error is never tested against nil nor returned: the computation continues on a partial view"
			}
			r.Check("C11.R5", construct, pos, shortFunc(fn), "when the read fails the function returns an error that depends on it (IsNotFound excepted)", okAll, detail)
		}
	}
}

// c11CollectedIntoSlice reports whether the error value is appended to a slice (errs = append(errs, err)).
func c11CollectedIntoSlice(ev ssa.Value) bool {
	for _, rr := range refs(ev) {
		st, ok := rr.(*ssa.Store)
		if !ok || st.Val != ev {
			continue
		}
		ia, ok := st.Addr.(*ssa.IndexAddr)
		if !ok {
			continue
		}
		for _, r2 := range refs(ia.X) {
			sl, ok := r2.(*ssa.Slice)
			if !ok {
				continue
			}
			for _, r3 := range refs(sl) {
				if c, ok := r3.(*ssa.Call); ok {
					if b, ok := c.Call.Value.(*ssa.Builtin); ok && b.Name() == "append" {
						return true
					}
				}
			}
		}
	}
	return false
}

// c11SelfClearingGuards (C11.R7): an API write of a replica-set role must not be guarded by
// "condition T of the reconciled replica set is True" when the same role unconditionally rewrites
// condition T to False in the same invocation: after one failed attempt the guard is gone and the
// write is never retried (edge-triggered instead of level-triggered). Expected instance count on a
// correct tree is zero; the positive control controls/C11/R7__* keeps the rule honest.
func c11SelfClearingGuards(r *Run) {
	r.RuleDoc("C11.R7", "no API write is guarded by a persisted condition of the reconciled replica set that the same invocation resets (such a write would not be retried after a failure)")
	// dispatchers: functions of the replica-set controller package, reachable from its Reconcile, that
	// call a planner of the strategy package (found by what they call, not by name: a renamed or split
	// dispatcher — one method per role — is analysed the same way)
	rec := r.Prog.Method(pkgERS, "Reconciler", "Reconcile")
	if rec == nil {
		r.Fatal("anchor (%s.Reconciler).Reconcile not found", pkgERS)
		return
	}
	condUpdate := pkgERSCond + ".UpdateExtendedDaemonSetReplicaSetStatusCondition"
	type roleCall struct {
		call  *ssa.Call
		reset map[string]bool
	}
	var roles []roleCall
	var apply *ssa.Function
	for _, fn := range sortedFuncs(r.Prog.reachableFuncs(rec)) {
		if fn.Pkg == nil || fn.Pkg.Pkg.Path() != pkgERS {
			continue
		}
		for _, ci := range callsIn(fn) {
			c, ok := ci.(*ssa.Call)
			if !ok {
				continue
			}
			cal := staticCallee(&c.Call)
			if cal == nil || cal.Pkg == nil || cal.Pkg.Pkg.Path() != pkgStrategy || cal.Signature.Results().Len() == 0 {
				continue
			}
			if !isPtrToNamed(cal.Signature.Results().At(0).Type(), pkgStrategy, "Result") {
				continue
			}
			if apply == nil {
				apply = fn
			}
			rc := roleCall{call: c, reset: map[string]bool{}}
			for _, cj := range callsIn(fn) {
				u, ok := cj.(*ssa.Call)
				if !ok || calleeName(&u.Call) != condUpdate || len(u.Call.Args) < 4 {
					continue
				}
				t, okT := constString(u.Call.Args[2])
				st, okS := constString(u.Call.Args[3])
				if !okT || !okS || st != "False" {
					continue
				}
				if u.Block() == c.Block() && instrIndex(u) < instrIndex(c) || u.Block() != c.Block() && u.Block().Dominates(c.Block()) {
					rc.reset[t] = true
				}
			}
			roles = append(roles, rc)
		}
	}
	if apply == nil {
		r.Fatal("no function of %s reachable from its Reconcile calls a planner of the strategy package", pkgERS)
		return
	}
	n := 0
	for _, rc := range roles {
		if len(rc.reset) == 0 {
			continue
		}
		strat := staticCallee(&rc.call.Call)
		reach := r.Prog.reachableFuncs(strat)
		writes := map[*ssa.Function]bool{}
		for _, e := range effectsOf(reach) {
			if isWriteVerb(e.Verb) {
				writes[e.Fn] = true
			}
		}
		// functions from which a write is reachable
		canWrite := func(fn *ssa.Function) bool {
			for f := range r.Prog.reachableFuncs(fn) {
				if writes[f] {
					return true
				}
			}
			return false
		}
		for _, fn := range sortedFuncs(reach) {
			var f2 *FuncFacts
			for _, ci := range callsIn(fn) {
				isW := false
				if e := clientEffect(fn, ci); e != nil && isWriteVerb(e.Verb) {
					isW = true
				} else if cal := staticCallee(ci.Common()); cal != nil && r.Prog.IsRuleSite(cal) && canWrite(cal) {
					isW = true
				}
				if !isW {
					continue
				}
				if f2 == nil {
					f2 = computeFacts(fn)
				}
				for _, f := range f2.At(ci.Block()) {
					if !f.Pol {
						continue
					}
					c, ok := f.V.(*ssa.Call)
					if !ok || calleeName(&c.Call) != pkgERSCond+".IsConditionTrue" || len(c.Call.Args) != 2 {
						continue
					}
					t, okT := constString(c.Call.Args[1])
					if !okT || !rc.reset[t] {
						continue
					}
					if !hasPathSuffix(c.Call.Args[0], "Replicaset", "Status") {
						continue
					}
					n++
					r.Check("C11.R7", "write guarded by self-cleared condition "+t, r.Prog.Pos(ci.Pos()), shortFunc(fn),
						"an API write is not guarded by a condition of the reconciled replica set that this role resets in the same invocation", false,
						fmt.Sprintf("guard IsConditionTrue(Replicaset.Status, %q) — the same reconcile writes %s=False before calling %s, so a failed attempt is never retried", t, t, shortFunc(strat)))
				}
			}
		}
	}
	o := r.Check("C11.R7", "self-clearing guards", r.Prog.Pos(apply.Pos()), shortFunc(apply),
		"no write of any role is guarded by a condition that role resets", true, fmt.Sprintf("%d role dispatches examined, %d offending guards", len(roles), n))
	o.Trivial = true
}

// c11RecordedInStatus: under the fact ev != nil some store writes a value depending on ev into a
// field named Error (the settings reconciler reports a failed node list through its own status).
func c11RecordedInStatus(fn *ssa.Function, ff *FuncFacts, ev ssa.Value) bool {
	for _, b := range fn.Blocks {
		for _, in := range b.Instrs {
			st, ok := in.(*ssa.Store)
			if !ok {
				continue
			}
			fa, ok := st.Addr.(*ssa.FieldAddr)
			if !ok || fieldName(fa) != "Error" {
				continue
			}
			if !dependsOnV(st.Val, func(v ssa.Value) bool { return v == ev }) {
				continue
			}
			if ff.Holds(b, false, func(v ssa.Value, _ string) bool {
				return isNilCompareOf(v, func(x ssa.Value) bool { return x == ev })
			}) {
				return true
			}
		}
	}
	// the same through a small helper: under ev != nil a repository function is handed a value
	// built from the error and stores that parameter into an `Error` field
	for _, b := range fn.Blocks {
		if !ff.Holds(b, false, func(v ssa.Value, _ string) bool {
			return isNilCompareOf(v, func(x ssa.Value) bool { return x == ev })
		}) {
			continue
		}
		for _, in := range b.Instrs {
			ci, ok := in.(ssa.CallInstruction)
			if !ok {
				continue
			}
			cal := staticCallee(ci.Common())
			if cal == nil || len(cal.Blocks) == 0 || cal.Pkg == nil || fn.Pkg == nil || cal.Pkg != fn.Pkg {
				continue
			}
			for i, a := range ci.Common().Args {
				if i >= len(cal.Params) || !dependsOnV(a, func(v ssa.Value) bool { return v == ev }) {
					continue
				}
				prm := cal.Params[i]
				for _, cb := range cal.Blocks {
					for _, cin := range cb.Instrs {
						st, ok := cin.(*ssa.Store)
						if !ok {
							continue
						}
						if fa, ok := st.Addr.(*ssa.FieldAddr); ok && fieldName(fa) == "Error" &&
							dependsOnV(st.Val, func(v ssa.Value) bool { return v == ssa.Value(prm) }) {
							return true
						}
					}
				}
			}
		}
	}
	return false
}
