package main

// C12.R7 — the labels that link a replica set / pod to its owner cannot be overridden by user
// data: on a map that receives the reserved ExtendedDaemonSet-name or replica-set-name label, no
// update with a non-constant key (a copy of user labels) and no whole-map replacement can execute
// after the reserved store. Otherwise an object carrying the reserved key with another owner's
// name gets children that belong to the other owner's selectors.

import (
	"golang.org/x/tools/go/ssa"
)

func c12ReservedLabelPrecedence(r *Run) {
	r.RuleDoc("C12.R7", "the owner-linking labels are written last: no dynamic-key map update or map replacement can follow the reserved label store on the same label map")
	r.Floor("C12.R7", 3)
	edsKey, _ := r.Prog.constStr(pkgAPI, "ExtendedDaemonSetNameLabelKey")
	ersKey, _ := r.Prog.constStr(pkgAPI, "ExtendedDaemonSetReplicaSetNameLabelKey")
	entries := reconcileEntries(r)
	var roots []*ssa.Function
	for _, e := range entries {
		roots = append(roots, e)
	}
	reach := r.Prog.reachableFuncs(roots...)
	for _, fn := range sortedFuncs(reach) {
		k := newKeyer(fn)
		var updates []*ssa.MapUpdate
		for _, b := range fn.Blocks {
			for _, in := range b.Instrs {
				if mu, ok := in.(*ssa.MapUpdate); ok {
					updates = append(updates, mu)
				}
			}
		}
		for _, mu := range updates {
			ks, isConst := constString(mu.Key)
			if !isConst || (ks != edsKey && ks != ersKey) {
				continue
			}
			// the map literal of a label *selector* (labels.Set / MatchingLabels passed to a List) is
			// not an object's label map: only maps that end up in an object's Labels matter. A
			// selector literal never receives dynamic-key updates anyway, so it is discharged below.
			mk := k.key(mu.Map)
			ok := true
			detail := ""
			for _, other := range updates {
				if other == mu || k.key(other.Map) != mk {
					continue
				}
				if _, c := constString(other.Key); c {
					continue
				}
				if mayFollow(mu, other) {
					ok = false
					detail = "a map update with a non-constant key at " + r.Prog.Pos(other.Pos()) + " can execute after the reserved label was written (user labels would win)"
				}
			}
			o := r.Check("C12.R7", "reserved label "+ks+" written last", r.Prog.Pos(mu.Pos()), shortFunc(fn),
				"no dynamic-key update of the same label map can follow the store of the owner-linking label", ok, detail)
			_ = o
		}
	}
}
