package main

// Obligations, reports, evidence files and known findings.

import (
	"encoding/json"
	"fmt"
	"os"
	"path/filepath"
	"sort"
	"strings"
	"time"
)

// Obligation is one instance of a rule at one site.
type Obligation struct {
	Rule    string `json:"rule"`              // e.g. C05.R1
	Key     string `json:"key"`               // rule|function|construct — never a line number
	Pos     string `json:"pos"`               // file:line (diagnostic only)
	Func    string `json:"func"`              // function the site is in
	Need    string `json:"need"`              // what the rule requires at this site
	OK      bool   `json:"ok"`                // discharged
	Detail  string `json:"detail,omitempty"`  // facts found / what is missing
	Trivial bool   `json:"trivial,omitempty"` // trivially true instance (not counted as non-trivial)
	Known   bool   `json:"known,omitempty"`   // listed in known_findings.json
}

// KnownFinding is an entry of /verif/known_findings.json.
type KnownFinding struct {
	Property string `json:"property"`
	Rule     string `json:"rule"`
	Key      string `json:"key"`
	Status   string `json:"status"` // "known" or "fixed"
	Commit   string `json:"commit,omitempty"`
	What     string `json:"what"`
}

// Run is the context of one property check.
type Run struct {
	Property string
	Tier     string
	Prog     *Prog
	Root     string // /verif
	Obs      []*Obligation
	floors   map[string]int
	rules    map[string]string // rule id -> one-line description
	notCov   []string
	paths    int
	start    time.Time
	only     string
	onlyKeys map[string]bool // replay: exactly these obligation keys
	extra    map[string]interface{}
	fatal    []string
	dry      bool // no evidence / replay files, terse output
}

func (r *Run) RuleDoc(rule, doc string) {
	if r.rules == nil {
		r.rules = map[string]string{}
	}
	r.rules[rule] = doc
}

// Floor registers the minimum number of instances rule must have (vacuity guard).
func (r *Run) Floor(rule string, n int) {
	if r.floors == nil {
		r.floors = map[string]int{}
	}
	r.floors[rule] = n
}

func (r *Run) NotCovered(s string) { r.notCov = append(r.notCov, s) }

// Check records an obligation.
func (r *Run) Check(rule, construct, pos, fn, need string, ok bool, detail string) *Obligation {
	o := &Obligation{Rule: rule, Key: rule + "|" + fn + "|" + construct, Pos: pos, Func: fn, Need: need, OK: ok, Detail: detail}
	r.Obs = append(r.Obs, o)
	return o
}

// Undecided records an obligation the rule could not classify (fail closed).
func (r *Run) Undecided(rule, construct, pos, fn, why string) *Obligation {
	return r.Check(rule, construct, pos, fn, "site must be classifiable by the rule", false, "undecided: "+why)
}

// Fatal records a whole-run failure (missing anchor etc.).
func (r *Run) Fatal(format string, a ...interface{}) {
	r.fatal = append(r.fatal, fmt.Sprintf(format, a...))
}

func loadKnown(root string) ([]KnownFinding, error) {
	b, err := os.ReadFile(filepath.Join(root, "known_findings.json"))
	if err != nil {
		if os.IsNotExist(err) {
			return nil, nil
		}
		return nil, err
	}
	var out []KnownFinding
	if err := json.Unmarshal(b, &out); err != nil {
		return nil, fmt.Errorf("known_findings.json: %w", err)
	}
	return out, nil
}

// Finish applies floors and known findings, prints the report, writes the evidence and
// returns the process exit code.
func (r *Run) Finish(explanation string) int {
	// Floors.
	count := map[string]int{}
	for _, o := range r.Obs {
		count[o.Rule]++
	}
	var rules []string
	for rule := range r.floors {
		rules = append(rules, rule)
	}
	sort.Strings(rules)
	for _, rule := range rules {
		if count[rule] < r.floors[rule] {
			r.Check(rule, "instance-floor", "-", "-", fmt.Sprintf("at least %d instances of the rule", r.floors[rule]), false,
				fmt.Sprintf("only %d instance(s) found: the rule would pass vacuously (anchor moved or construct no longer recognised)", count[rule]))
		}
	}
	for i, f := range r.fatal {
		r.Check(r.Property+".LOAD", fmt.Sprintf("fatal-%d", i), "-", "-", "analysis prerequisites", false, f)
	}
	// De-duplicate keys (same construct reported twice keeps the first, failing one wins).
	seen := map[string]*Obligation{}
	var obs []*Obligation
	for _, o := range r.Obs {
		if p, ok := seen[o.Key]; ok {
			// disambiguate repeated constructs deterministically
			n := 2
			for {
				k := fmt.Sprintf("%s#%d", o.Key, n)
				if _, ok := seen[k]; !ok {
					o.Key = k
					break
				}
				n++
			}
			_ = p
		}
		seen[o.Key] = o
		obs = append(obs, o)
	}
	if r.only != "" || len(r.onlyKeys) > 0 {
		var f []*Obligation
		for _, o := range obs {
			if r.only != "" && (o.Key == r.only || strings.HasPrefix(o.Key, r.only)) || r.onlyKeys[o.Key] {
				f = append(f, o)
			}
		}
		obs = f
	}
	sort.SliceStable(obs, func(i, j int) bool { return obs[i].Key < obs[j].Key })

	known, kerr := loadKnown(r.Root)
	if kerr != nil {
		fmt.Printf("%s.LOAD known findings unreadable: %v\n", r.Property, kerr)
	}
	knownByKey := map[string]KnownFinding{}
	for _, k := range known {
		if k.Property == r.Property && k.Status == "known" {
			knownByKey[k.Key] = k
		}
	}

	var viol, knownHits []*Obligation
	discharged, nontrivial := 0, 0
	distinct := map[string]bool{}
	for _, o := range obs {
		if !o.Trivial && !distinct[o.Key] {
			distinct[o.Key] = true
			nontrivial++
		}
		if o.OK {
			discharged++
			continue
		}
		if _, ok := knownByKey[o.Key]; ok {
			o.Known = true
			knownHits = append(knownHits, o)
			continue
		}
		viol = append(viol, o)
	}
	if kerr != nil {
		viol = append(viol, &Obligation{Rule: r.Property + ".LOAD", Key: "known-findings", Need: "readable known_findings.json", Detail: kerr.Error()})
	}

	// Report.
	perRule := map[string][2]int{}
	for _, o := range obs {
		c := perRule[o.Rule]
		c[0]++
		if o.OK {
			c[1]++
		}
		perRule[o.Rule] = c
	}
	var rnames []string
	for k := range perRule {
		rnames = append(rnames, k)
	}
	sort.Strings(rnames)
	if !r.dry {
		fmt.Printf("edscheck property=%s tier=%s repo=%s packages=%d functions=%d repo_functions=%d\n",
			r.Property, r.Tier, r.Prog.Dir, len(r.Prog.All), r.Prog.nFuncs, r.Prog.nRepoFns)
		for _, k := range rnames {
			fmt.Printf("  %-10s obligations=%-3d discharged=%-3d %s\n", k, perRule[k][0], perRule[k][1], r.rules[k])
		}
	}
	for _, o := range knownHits {
		fmt.Printf("KNOWN-FINDING: property=%s %s %s %s: %s\n", r.Property, o.Rule, o.Pos, o.Func, knownByKey[o.Key].What)
	}
	for _, o := range viol {
		fmt.Printf("%s %s %s: need %s — %s [key %s]\n", o.Rule, o.Pos, o.Func, o.Need, o.Detail, o.Key)
	}

	if r.dry {
		if len(viol) > 0 {
			return 1
		}
		return 0
	}
	// Evidence.
	evDir := filepath.Join(r.Root, "evidence")
	_ = os.MkdirAll(evDir, 0o755)
	samples := []interface{}{}
	for i, o := range obs {
		if i < 400 {
			samples = append(samples, o)
		}
	}
	var ruleList []string
	for _, k := range rnames {
		ruleList = append(ruleList, k+": "+r.rules[k])
	}
	fixedNotes := []string{}
	for _, k := range known {
		if k.Property == r.Property && k.Status == "fixed" {
			fixedNotes = append(fixedNotes, fmt.Sprintf("fixed: %s %s %s", k.Rule, k.Commit, k.What))
		}
	}
	cov := map[string]interface{}{
		"explanation":         explanation + " NOT decided: " + strings.Join(r.notCov, "; "),
		"obligations":         len(obs),
		"discharged":          discharged,
		"evaluations":         len(obs),
		"distinct_nontrivial": nontrivial,
		"rule":                "one obligation per (rule, function, construct) found in the type-checked SSA program of /repo's working tree; non-trivial = the site required a path/dataflow/table argument rather than being true by absence; distinct by obligation key",
		"rules":               ruleList,
		"samples":             samples,
		"checker_cmd":         strings.Join(os.Args, " "),
		"trusted_base":        []string{"go/types and go/ssa of golang.org/x/tools v0.29.0", "the rule tables in /verif/checker", "controller-runtime client verbs do what they say"},
		"exhaustive":          true,
		"packages":            len(r.Prog.All),
		"repo_packages":       len(r.Prog.Repo),
		"functions":           r.Prog.nFuncs,
		"repo_functions":      r.Prog.nRepoFns,
		"paths_enumerated":    r.paths,
		"known_findings":      len(knownHits),
		"fixed_findings":      fixedNotes,
		"build_tags":          r.Prog.tags,
	}
	for k, v := range r.extra {
		cov[k] = v
	}
	seed := 0
	fmt.Sscanf(os.Getenv("VERIF_SEED"), "%d", &seed)
	ev := map[string]interface{}{
		"property_id": r.Property,
		"tier":        r.Tier,
		"seed":        seed,
		"level":       "other",
		"coverage":    cov,
		"assumptions": []string{
			"reflection and unsafe are not used to reach the tracked data",
			"the controller-runtime client performs exactly the verb that is called; objects returned by Get/List are not aliased by the client",
			"flowcontrol.Backoff and the Prometheus vectors are internally synchronised",
			"heap aliasing beyond function-local allocations is handled only by the escape rule (undecided => reported)",
			"static analysis only: no repository code is executed; behaviour over histories/schedules is not decided (see explanation)",
		},
		"wall_s":     time.Since(r.start).Seconds(),
		"violations": len(viol),
	}
	b, _ := json.MarshalIndent(ev, "", " ")
	evPath := filepath.Join(evDir, r.Property+".json")
	if r.only == "" && len(r.onlyKeys) == 0 {
		if err := os.WriteFile(evPath, b, 0o644); err != nil {
			fmt.Printf("cannot write evidence: %v\n", err)
			return 1
		}
	}
	if len(viol) > 0 {
		replay := filepath.Join(evDir, r.Property+".violations.json")
		vb, _ := json.MarshalIndent(viol, "", " ")
		_ = os.WriteFile(replay, vb, 0o644)
		fmt.Printf("VIOLATION property=%s replay=%s\n", r.Property, replay)
		return 1
	}
	fmt.Printf("OK property=%s obligations=%d discharged=%d known_findings=%d wall=%.1fs\n", r.Property, len(obs), discharged, len(knownHits), time.Since(r.start).Seconds())
	return 0
}

// ImportFrom runs another property's rules on the same program in a scratch Run and imports the
// obligations of the selected rules under this property's rule ids (rename: other rule id -> own
// rule id). Used where one structural clause is a necessary condition of two properties.
func (r *Run) ImportFrom(other func(*Run), rename map[string]string, doc map[string]string) {
	r.ImportFromIf(other, rename, doc, nil)
}

// ImportFromIf is ImportFrom restricted to the obligations keep accepts (the part of the other
// property's rule that is a necessary condition of this property too).
func (r *Run) ImportFromIf(other func(*Run), rename map[string]string, doc map[string]string, keep func(*Obligation) bool) {
	sub := &Run{Property: r.Property, Tier: r.Tier, Prog: r.Prog, Root: r.Root, start: r.start, extra: map[string]interface{}{}, dry: true}
	other(sub)
	for _, o := range sub.Obs {
		nr, ok := rename[o.Rule]
		if !ok {
			continue
		}
		if keep != nil && !keep(o) {
			continue
		}
		c := *o
		c.Key = nr + strings.TrimPrefix(o.Key, o.Rule)
		c.Rule = nr
		r.Obs = append(r.Obs, &c)
	}
	for _, f := range sub.fatal {
		r.Fatal("%s", f)
	}
	for k, v := range doc {
		r.RuleDoc(k, v)
	}
	r.paths += sub.paths
}
