package main

// Interprocedural helpers: rules stay valid when a block is extracted into a helper function, a
// closure becomes a named function, or a value is passed through a parameter.

import (
	"go/token"
	"strings"

	"golang.org/x/tools/go/ssa"
)

// callSitesAll lists every static call site of fn in repository code (all rule-site functions).
func (p *Prog) callSitesAll(fn *ssa.Function) []ssa.CallInstruction {
	if p.callers == nil {
		p.callers = map[*ssa.Function][]ssa.CallInstruction{}
		for _, f := range p.RepoFuncs() {
			for _, c := range callsIn(f) {
				if cal := staticCallee(c.Common()); cal != nil {
					p.callers[cal] = append(p.callers[cal], c)
				}
			}
		}
	}
	return p.callers[fn]
}

// closureSites lists the MakeClosure instructions creating fn.
func (p *Prog) closureSites(fn *ssa.Function) []*ssa.MakeClosure {
	if p.closures == nil {
		p.closures = map[*ssa.Function][]*ssa.MakeClosure{}
		for _, f := range p.RepoFuncs() {
			for _, b := range f.Blocks {
				for _, in := range b.Instrs {
					if mc, ok := in.(*ssa.MakeClosure); ok {
						if cf, ok := mc.Fn.(*ssa.Function); ok {
							p.closures[cf] = append(p.closures[cf], mc)
						}
					}
				}
			}
		}
	}
	return p.closures[fn]
}

// stepOut returns the values a parameter / free variable / repository call result stands for one
// level away (arguments at every call site, closure bindings, returned values), or nil when v is
// none of those. For a receiver-less call through a closure the arguments of the call to the
// closure value are not tracked (nil).
func (p *Prog) stepOut(v ssa.Value) []ssa.Value {
	switch x := v.(type) {
	case *ssa.Parameter:
		fn := x.Parent()
		idx := paramIndex(x)
		var out []ssa.Value
		for _, c := range p.callSitesAll(fn) {
			args := c.Common().Args
			if idx < len(args) {
				out = append(out, args[idx])
			}
		}
		return out
	case *ssa.FreeVar:
		fn := x.Parent()
		idx := -1
		for i, fv := range fn.FreeVars {
			if fv == x {
				idx = i
			}
		}
		var out []ssa.Value
		for _, mc := range p.closureSites(fn) {
			if idx >= 0 && idx < len(mc.Bindings) {
				out = append(out, mc.Bindings[idx])
			}
		}
		return out
	case *ssa.Call:
		if cal := staticCallee(&x.Call); cal != nil && p.IsRuleSite(cal) && cal.Signature.Results().Len() == 1 {
			var out []ssa.Value
			for _, b := range cal.Blocks {
				if ret := returnOf(b); ret != nil && len(ret.Results) == 1 {
					out = append(out, ret.Results[0])
				}
			}
			return out
		}
	case *ssa.Extract:
		if c, ok := x.Tuple.(*ssa.Call); ok {
			if cal := staticCallee(&c.Call); cal != nil && p.IsRuleSite(cal) {
				var out []ssa.Value
				for _, b := range cal.Blocks {
					if ret := returnOf(b); ret != nil && len(ret.Results) > x.Index {
						out = append(out, ret.Results[x.Index])
					}
				}
				return out
			}
		}
	}
	return nil
}

// dependsOnIP is dependsOn (data dependence through any operand, local cells and variadic
// arrays) that continues across function boundaries through parameters, free variables and the
// results of repository calls (bounded depth).
func (p *Prog) dependsOnIP(v ssa.Value, match func(ssa.Value) bool) bool {
	seen := map[ssa.Value]bool{}
	var rec func(v ssa.Value, d int) bool
	rec = func(v ssa.Value, d int) bool {
		if v == nil || seen[v] || d > 60 {
			return false
		}
		seen[v] = true
		if match(v) {
			return true
		}
		for _, o := range p.stepOut(v) {
			if rec(o, d+1) {
				return true
			}
		}
		switch x := v.(type) {
		case *ssa.UnOp:
			if x.Op == token.MUL {
				if a, ok := x.X.(*ssa.Alloc); ok {
					for _, r := range refs(a) {
						if st, ok := r.(*ssa.Store); ok && st.Addr == ssa.Value(a) && rec(st.Val, d+1) {
							return true
						}
					}
				}
			}
		case *ssa.Alloc:
			// a captured variable cell or a variadic backing array: what is stored into it
			for _, r := range refs(x) {
				switch y := r.(type) {
				case *ssa.Store:
					if y.Addr == ssa.Value(x) && rec(y.Val, d+1) {
						return true
					}
				case *ssa.IndexAddr:
					for _, r2 := range refs(y) {
						if st, ok := r2.(*ssa.Store); ok && st.Addr == ssa.Value(y) && rec(st.Val, d+1) {
							return true
						}
					}
				}
			}
		case *ssa.Slice:
			if rec(x.X, d+1) {
				return true
			}
		}
		in, ok := v.(ssa.Instruction)
		if !ok {
			return false
		}
		for _, op := range in.Operands(nil) {
			if *op != nil && rec(*op, d+1) {
				return true
			}
		}
		return false
	}
	return rec(v, 0)
}

// assignedOnlyUnderIP is assignedOnlyUnder that looks into repository callees: when the value is a
// result of a helper, every non-nil value the helper can return at that position must have been
// assigned under the fact inside the helper.
func (p *Prog) assignedOnlyUnderIP(fn *ssa.Function, v ssa.Value, match func(c ssa.Value, key string) bool, depth int) bool {
	if depth > 3 {
		return false
	}
	ff := p.factsOf(fn)
	if assignedOnlyUnder(ff, v, match) {
		return true
	}
	// all leaves that are helper results
	ok := true
	n := 0
	seen := map[ssa.Value]bool{}
	var rec func(v ssa.Value)
	rec = func(v ssa.Value) {
		if seen[v] || !ok {
			return
		}
		seen[v] = true
		if isNilConst(v) {
			return
		}
		if phi, isPhi := v.(*ssa.Phi); isPhi {
			for _, e := range phi.Edges {
				rec(e)
			}
			return
		}
		var cal *ssa.Function
		idx := 0
		switch x := v.(type) {
		case *ssa.Extract:
			if c, isC := x.Tuple.(*ssa.Call); isC {
				cal = staticCallee(&c.Call)
				idx = x.Index
			}
		case *ssa.Call:
			cal = staticCallee(&x.Call)
		}
		if cal == nil || !p.IsRuleSite(cal) {
			// not a helper result: must satisfy the intraprocedural test on its own
			if !assignedOnlyUnder(ff, v, match) {
				ok = false
			}
			return
		}
		for _, b := range cal.Blocks {
			ret := returnOf(b)
			if ret == nil || len(ret.Results) <= idx {
				continue
			}
			if isNilConst(ret.Results[idx]) {
				continue
			}
			n++
			if !p.assignedOnlyUnderIP(cal, ret.Results[idx], match, depth+1) {
				ok = false
			}
		}
	}
	rec(v)
	return ok && n > 0
}

// factsOf caches must-facts per function.
func (p *Prog) factsOf(fn *ssa.Function) *FuncFacts {
	if p.facts == nil {
		p.facts = map[*ssa.Function]*FuncFacts{}
	}
	if ff, ok := p.facts[fn]; ok {
		return ff
	}
	ff := computeFacts(fn)
	p.facts[fn] = ff
	return ff
}

// calleesWithin lists the repository functions statically reachable from fn within depth calls
// (fn itself included).
func (p *Prog) calleesWithin(fn *ssa.Function, depth int) []*ssa.Function {
	seen := map[*ssa.Function]bool{}
	var out []*ssa.Function
	var rec func(f *ssa.Function, d int)
	rec = func(f *ssa.Function, d int) {
		if f == nil || seen[f] || !p.IsRuleSite(f) || len(f.Blocks) == 0 {
			return
		}
		seen[f] = true
		out = append(out, f)
		if d == 0 {
			return
		}
		for _, c := range callsIn(f) {
			rec(staticCallee(c.Common()), d-1)
			for _, a := range c.Common().Args {
				if mc, ok := a.(*ssa.MakeClosure); ok {
					if cf, ok := mc.Fn.(*ssa.Function); ok {
						rec(cf, d-1)
					}
				}
			}
		}
	}
	rec(fn, depth)
	return out
}

// trueAlternatives returns, for a boolean value v known to be true, the alternative sets of
// facts one of which must hold: flags built from constants (where they are set), short-circuit
// phis (edge facts plus the last operand), calls to repository predicates (path facts of each
// path returning true, recursively for computed results) and slices.ContainsFunc /
// slices.IndexFunc with a closure (the closure's true alternatives). ok=false when v cannot be
// analysed (then it is just the atomic fact v itself).
func (p *Prog) trueAlternatives(fn *ssa.Function, v ssa.Value, use *ssa.BasicBlock, depth int) (alts []factSet, ok bool) {
	atom := func() ([]factSet, bool) {
		k := p.factsOf(fn).K
		fs := factSet{}
		for _, f := range k.normCond(v, true) {
			fs[fkey(f)] = f
		}
		return []factSet{fs}, false
	}
	if depth > 4 {
		return atom()
	}
	ff := p.factsOf(fn)
	switch x := v.(type) {
	case *ssa.Phi:
		// a flag built from boolean constants only (possibly carried around an inner loop)
		if sets, okF := ff.FlagTrueFacts(v, use); okF {
			return sets, true
		}
		var out []factSet
		headers := map[*ssa.BasicBlock]bool{}
		if use != nil {
			headers = enclosingLoopHeaders(fn, use)
		}
		if headers[x.Block()] {
			return atom() // loop-carried: may stem from an earlier iteration
		}
		for i, e := range x.Edges {
			if b, isC := constBool(e); isC {
				if b {
					out = append(out, ff.FactsAtEdge(x.Block().Preds[i], x.Block()))
				}
				continue
			}
			sub, _ := p.trueAlternatives(fn, e, use, depth+1)
			edge := ff.FactsAtEdge(x.Block().Preds[i], x.Block())
			for _, s := range sub {
				m := factSet{}
				for kk, f := range edge {
					m[kk] = f
				}
				for kk, f := range s {
					m[kk] = f
				}
				out = append(out, m)
			}
		}
		return out, true
	case *ssa.Call:
		name := calleeName(&x.Call)
		if strings.HasPrefix(name, "slices.ContainsFunc") && len(x.Call.Args) == 2 {
			if mc, isMC := x.Call.Args[1].(*ssa.MakeClosure); isMC {
				if cf, isF := mc.Fn.(*ssa.Function); isF {
					return p.funcTrueAlternatives(cf, depth+1), true
				}
			}
			if cf, isF := x.Call.Args[1].(*ssa.Function); isF {
				return p.funcTrueAlternatives(cf, depth+1), true
			}
		}
		if cal := staticCallee(&x.Call); cal != nil && p.IsRuleSite(cal) && cal.Signature.Results().Len() == 1 && cal.Signature.Results().At(0).Type().String() == "bool" {
			return p.funcTrueAlternatives(cal, depth+1), true
		}
	case *ssa.BinOp:
		// slices.IndexFunc(xs, f) >= 0  /  != -1
		var call *ssa.Call
		if c, isC := x.X.(*ssa.Call); isC {
			call = c
		}
		if call != nil && strings.HasPrefix(calleeName(&call.Call), "slices.IndexFunc") && len(call.Call.Args) == 2 {
			z, isZ := constInt(x.Y)
			if isZ && (x.Op == token.GEQ && z == 0 || x.Op == token.NEQ && z == -1 || x.Op == token.GTR && z == -1) {
				if mc, isMC := call.Call.Args[1].(*ssa.MakeClosure); isMC {
					if cf, isF := mc.Fn.(*ssa.Function); isF {
						return p.funcTrueAlternatives(cf, depth+1), true
					}
				}
			}
		}
	}
	return atom()
}

// funcTrueAlternatives: the fact sets under which a boolean repository function returns true.
func (p *Prog) funcTrueAlternatives(fn *ssa.Function, depth int) []factSet {
	paths, _, ok := funcPaths(fn, 2000)
	if !ok {
		return []factSet{{}}
	}
	var out []factSet
	for _, pa := range paths {
		ret := returnOf(pa.Blocks[len(pa.Blocks)-1])
		if ret == nil || len(ret.Results) == 0 {
			continue
		}
		res := pa.Resolve(ret.Results[0])
		if b, isC := constBool(res); isC {
			if b {
				out = append(out, pa.Facts)
			}
			continue
		}
		sub, _ := p.trueAlternatives(fn, res, nil, depth+1)
		for _, s := range sub {
			m := factSet{}
			for kk, f := range pa.Facts {
				m[kk] = f
			}
			for kk, f := range s {
				m[kk] = f
			}
			out = append(out, m)
		}
	}
	return out
}

// fieldCellStores: for a load of a field cell of a function-local struct (alloc.f, alloc.g.f, …)
// returns every value stored into that same cell in the function (nil if the load is not of that
// shape).
func fieldCellStores(load *ssa.UnOp) []ssa.Value {
	if load.Op != token.MUL {
		return nil
	}
	fa, ok := load.X.(*ssa.FieldAddr)
	if !ok {
		return nil
	}
	ak := addrKey(fa)
	if ak == "" {
		return nil
	}
	var out []ssa.Value
	for _, b := range load.Parent().Blocks {
		for _, in := range b.Instrs {
			if st, ok := in.(*ssa.Store); ok && addrKey(st.Addr) == ak {
				out = append(out, st.Val)
			}
		}
	}
	return out
}

// structFieldSources: the values a field of a struct produced by a repository call can hold:
// v is `call(...).f` (struct returned by value, possibly through an Extract) or a load of
// `&ptr.f` where ptr is the pointer result of a repository call. The callee's returned struct must
// be a local allocation; the result is every value the callee stores into that field.
func (p *Prog) structFieldSources(v ssa.Value) []ssa.Value {
	var base ssa.Value
	field := ""
	switch x := v.(type) {
	case *ssa.Field:
		base, field = x.X, fieldName(x)
	case *ssa.UnOp:
		if x.Op != token.MUL {
			return nil
		}
		fa, ok := x.X.(*ssa.FieldAddr)
		if !ok {
			return nil
		}
		base, field = fa.X, fieldName(fa)
	default:
		return nil
	}
	// base: a call result (or extract of one), possibly through a local variable cell
	var rets []ssa.Value
	switch b := base.(type) {
	case *ssa.Call, *ssa.Extract:
		rets = p.stepOut(b)
	case *ssa.UnOp:
		if b.Op == token.MUL {
			if a, ok := b.X.(*ssa.Alloc); ok {
				for _, r := range refs(a) {
					if st, ok := r.(*ssa.Store); ok && st.Addr == ssa.Value(a) {
						rets = append(rets, p.stepOut(st.Val)...)
					}
				}
			}
		}
	case *ssa.Alloc:
		// a local struct variable assigned as a whole from a helper's result: pods := classify(...)
		for _, r := range refs(b) {
			if st, ok := r.(*ssa.Store); ok && st.Addr == ssa.Value(b) {
				switch st.Val.(type) {
				case *ssa.Call, *ssa.Extract:
					rets = append(rets, p.stepOut(st.Val)...)
				}
			}
		}
	case *ssa.Parameter:
		// a struct (or pointer to one) received as parameter: the arguments at the call sites
		for _, a := range p.stepOut(b) {
			switch a.(type) {
			case *ssa.Call, *ssa.Extract:
				rets = append(rets, p.stepOut(a)...)
			}
		}
	}
	var out []ssa.Value
	for _, r := range rets {
		var alloc *ssa.Alloc
		switch y := r.(type) {
		case *ssa.Alloc:
			alloc = y
		case *ssa.UnOp:
			if y.Op == token.MUL {
				alloc, _ = y.X.(*ssa.Alloc)
			}
		}
		if alloc == nil {
			continue
		}
		for _, rr := range refs(alloc) {
			if fa, ok := rr.(*ssa.FieldAddr); ok && fieldName(fa) == field {
				for _, r2 := range refs(fa) {
					if st, ok := r2.(*ssa.Store); ok && st.Addr == ssa.Value(fa) {
						out = append(out, st.Val)
					}
				}
			}
		}
	}
	return out
}

// appendSitesIP collects the builtin append calls in the backward closure of a slice value,
// following local variable cells, field cells of local structs, struct fields of values returned
// by repository helpers, helper results and parameters (so a candidate list built in a helper
// and handed back in a struct is found). The calls may belong to other functions.
func (p *Prog) appendSitesIP(v ssa.Value) []*ssa.Call {
	var out []*ssa.Call
	seen := map[ssa.Value]bool{}
	var rec func(v ssa.Value, d int)
	rec = func(v ssa.Value, d int) {
		if v == nil || seen[v] || d > 40 {
			return
		}
		seen[v] = true
		switch x := v.(type) {
		case *ssa.Phi:
			for _, e := range x.Edges {
				rec(e, d+1)
			}
			return
		case *ssa.Call:
			if b, ok := x.Call.Value.(*ssa.Builtin); ok && b.Name() == "append" {
				out = append(out, x)
				rec(x.Call.Args[0], d+1)
				return
			}
		case *ssa.Slice:
			rec(x.X, d+1)
			return
		case *ssa.UnOp:
			if x.Op == token.MUL {
				if a, ok := x.X.(*ssa.Alloc); ok {
					for _, rr := range refs(a) {
						if st, ok := rr.(*ssa.Store); ok && st.Addr == ssa.Value(a) {
							rec(st.Val, d+1)
						}
					}
					return
				}
				if vs := fieldCellStores(x); vs != nil {
					for _, s := range vs {
						rec(s, d+1)
					}
					return
				}
			}
		}
		if vs := p.structFieldSources(v); len(vs) > 0 {
			for _, s := range vs {
				rec(s, d+1)
			}
			return
		}
		for _, s := range p.stepOut(v) {
			rec(s, d+1)
		}
	}
	rec(v, 0)
	return out
}

// podComparators: the up-to-date comparison of a pod with the replica set, found by what it does
// rather than by its name — the top-most functions of the strategy package that return a bool, take
// a *corev1.Pod and (transitively, inside the package) look the template-hash annotation key up in a
// map. A rename, or turning the function into a method of Parameters, keeps it found.
func (p *Prog) podComparators() map[*ssa.Function]bool {
	if p.comparators != nil {
		return p.comparators
	}
	p.comparators = map[*ssa.Function]bool{}
	key, ok := p.constStr(pkgAPI, "MD5ExtendedDaemonSetAnnotationKey")
	if !ok {
		return p.comparators
	}
	readsKey := func(fn *ssa.Function) bool {
		for _, g := range p.calleesWithin(fn, 3) {
			if g.Pkg == nil || g.Pkg.Pkg.Path() != pkgStrategy {
				continue
			}
			for _, b := range g.Blocks {
				for _, in := range b.Instrs {
					if l, ok := in.(*ssa.Lookup); ok {
						if s, okc := constString(unwrap(l.Index)); okc && s == key {
							return true
						}
					}
				}
			}
		}
		return false
	}
	var cands []*ssa.Function
	for _, fn := range p.RepoFuncs() {
		if fn.Pkg == nil || fn.Pkg.Pkg.Path() != pkgStrategy || fn.Parent() != nil {
			continue
		}
		res := fn.Signature.Results()
		if res.Len() != 1 || !isBoolType(res.At(0).Type()) {
			continue
		}
		hasPod := false
		for _, pr := range fn.Params {
			if isPtrToNamed(pr.Type(), pkgCoreV1, "Pod") {
				hasPod = true
			}
		}
		if hasPod && readsKey(fn) {
			cands = append(cands, fn)
		}
	}
	for _, c := range cands {
		top := true
		for _, d := range cands {
			if d == c {
				continue
			}
			for _, g := range p.calleesWithin(d, 3) {
				if g == c {
					top = false
				}
			}
		}
		if top {
			p.comparators[c] = true
		}
	}
	return p.comparators
}
