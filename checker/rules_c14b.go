package main

// C14.R4 — the canary recorded in the status is (re)decided on every reconcile: in the function
// that stores status.activeReplicaSet, every path from entry to the status write passes through
// either the status function that decides Status.Canary (C14.R3 table) or a direct store to
// Status.Canary. Otherwise a stale status.canary (and its node list) survives, e.g. after the
// canary strategy was removed from the spec: the nodes stay hidden from the active replica set's
// rolling update and the CLI keeps seeing an "active canary".

import (
	"golang.org/x/tools/go/ssa"
)

func storesStatusCanary(fn *ssa.Function) bool {
	for _, b := range fn.Blocks {
		for _, in := range b.Instrs {
			if st, ok := in.(*ssa.Store); ok {
				if fa, ok := st.Addr.(*ssa.FieldAddr); ok && fieldName(fa) == "Canary" &&
					(isPtrToNamed(fa.X.Type(), pkgAPI, "ExtendedDaemonSetStatus")) {
					return true
				}
			}
		}
	}
	return false
}

func c14CanaryAlwaysDecided(r *Run, rule string) {
	_, reach := edsReconcile(r)
	if reach == nil {
		return
	}
	n := 0
	// anchor: the innermost function from which both the store to status.activeReplicaSet (in the
	// function itself or a helper it calls — the field is matched by its type, so a helper taking
	// the *Status works too) and the status write are reached
	storesActive := func(fn *ssa.Function) bool {
		for _, g := range r.Prog.calleesWithin(fn, 2) {
			if len(storesToFieldOf(g, pkgAPI, "ExtendedDaemonSetStatus", "ActiveReplicaSet")) > 0 {
				return true
			}
		}
		return false
	}
	hasTarget := func(fn *ssa.Function) bool {
		for _, ci := range callsIn(fn) {
			if e := clientEffect(fn, ci); e != nil && e.Status && e.Verb == "Update" {
				return true
			}
			if cal := staticCallee(ci.Common()); cal != nil && r.Prog.IsRuleSite(cal) {
				for _, e2 := range effectsOf(r.Prog.reachableFuncs(cal)) {
					if e2.Status && e2.Verb == "Update" && shortKind(e2.Kind) == "ExtendedDaemonSet" {
						return true
					}
				}
			}
		}
		return false
	}
	qualifies := map[*ssa.Function]bool{}
	for _, fn := range sortedFuncs(reach) {
		if r.Prog.IsRuleSite(fn) && storesActive(fn) && hasTarget(fn) {
			qualifies[fn] = true
		}
	}
	for _, fn := range sortedFuncs(reach) {
		if !qualifies[fn] {
			continue
		}
		inner := false
		for _, g := range r.Prog.calleesWithin(fn, 3) {
			if g != fn && qualifies[g] {
				inner = true
			}
		}
		if inner {
			continue
		}
		// deciding blocks
		deciding := map[*ssa.BasicBlock]bool{}
		for _, b := range fn.Blocks {
			for _, in := range b.Instrs {
				switch x := in.(type) {
				case *ssa.Store:
					if fa, ok := x.Addr.(*ssa.FieldAddr); ok && fieldName(fa) == "Canary" && isPtrToNamed(fa.X.Type(), pkgAPI, "ExtendedDaemonSetStatus") {
						deciding[b] = true
					}
				case ssa.CallInstruction:
					if cal := staticCallee(x.Common()); cal != nil && r.Prog.IsRuleSite(cal) && storesStatusCanary(cal) {
						// the callee must decide on all of its paths: every return dominated by / passing a store
						if c14AllPathsStoreCanary(cal) {
							deciding[b] = true
						}
					}
				}
			}
		}
		// targets: status writes, in this function or in a helper it calls (the write extracted into
		// a function): the call site is then the target
		for _, ci := range callsIn(fn) {
			e := clientEffect(fn, ci)
			isTarget := e != nil && e.Status && e.Verb == "Update"
			if !isTarget {
				if cal := staticCallee(ci.Common()); cal != nil && r.Prog.IsRuleSite(cal) {
					for _, e2 := range effectsOf(r.Prog.reachableFuncs(cal)) {
						if e2.Status && e2.Verb == "Update" && shortKind(e2.Kind) == "ExtendedDaemonSet" {
							isTarget = true
						}
					}
				}
			}
			if !isTarget {
				continue
			}
			n++
			reachable := false
			seen := map[*ssa.BasicBlock]bool{}
			var dfs func(b *ssa.BasicBlock)
			dfs = func(b *ssa.BasicBlock) {
				if seen[b] || deciding[b] {
					return
				}
				seen[b] = true
				if b == ci.Block() {
					reachable = true
					return
				}
				for _, s := range b.Succs {
					dfs(s)
				}
			}
			dfs(fn.Blocks[0])
			r.Check(rule, "status.canary decided before the status write", r.Prog.Pos(ci.Pos()), shortFunc(fn),
				"every path to the status write passes the canary status decision (status function) or a direct store to Status.Canary", !reachable,
				"a path reaches the status write without deciding Status.Canary (e.g. when the spec has no canary strategy): a stale canary and its node list would survive")
		}
	}
	if n == 0 {
		r.Check(rule, "status.canary decided before the status write", "-", "-", "a status write in the function storing status.activeReplicaSet", false, "none found")
	}
}

// c14AllPathsStoreCanary: no path from entry to a return of fn avoids every store to Status.Canary.
func c14AllPathsStoreCanary(fn *ssa.Function) bool {
	storing := map[*ssa.BasicBlock]bool{}
	for _, b := range fn.Blocks {
		for _, in := range b.Instrs {
			if st, ok := in.(*ssa.Store); ok {
				if fa, ok := st.Addr.(*ssa.FieldAddr); ok && fieldName(fa) == "Canary" && isPtrToNamed(fa.X.Type(), pkgAPI, "ExtendedDaemonSetStatus") {
					storing[b] = true
				}
			}
			// `if status.Canary == nil { status.Canary = &…{} }` keeps a non-nil canary: the block that
			// tests it decides too (the canary stays recorded on purpose)
			if iff, ok := in.(*ssa.If); ok {
				if isNilCompareOf(iff.Cond, loadOfPath(nil, "Canary")) {
					storing[b] = true
				}
			}
		}
	}
	seen := map[*ssa.BasicBlock]bool{}
	bad := false
	var dfs func(b *ssa.BasicBlock)
	dfs = func(b *ssa.BasicBlock) {
		if seen[b] || storing[b] {
			return
		}
		seen[b] = true
		if isReturnBlock(b) {
			bad = true
			return
		}
		for _, s := range b.Succs {
			dfs(s)
		}
	}
	if len(fn.Blocks) > 0 {
		dfs(fn.Blocks[0])
	}
	return !bad
}
