package main

// Helpers over go/ssa: callee resolution, canonical value keys, access paths.

import (
	"fmt"
	"go/constant"
	"go/token"
	"go/types"
	"sort"
	"strings"

	"golang.org/x/tools/go/callgraph/cha"
	"golang.org/x/tools/go/callgraph/vta"
	"golang.org/x/tools/go/ssa"
	"golang.org/x/tools/go/ssa/ssautil"
)

// staticCallee returns the statically known callee of a call (function, method or closure).
func staticCallee(c *ssa.CallCommon) *ssa.Function {
	if c.IsInvoke() {
		return nil
	}
	switch v := c.Value.(type) {
	case *ssa.Function:
		return v
	case *ssa.MakeClosure:
		if fn, ok := v.Fn.(*ssa.Function); ok {
			return fn
		}
	}
	return nil
}

// calleeName is a stable name for a call's target: "pkgpath.Func", "(pkgpath.T).Method",
// "iface:pkgpath.I.Method" for interface invocations, "builtin:append", "dynamic".
func calleeName(c *ssa.CallCommon) string {
	if c.IsInvoke() {
		m := c.Method
		recv := ""
		if sig, ok := m.Type().(*types.Signature); ok && sig.Recv() != nil {
			recv = typeName(sig.Recv().Type())
		}
		return "iface:" + recv + "." + m.Name()
	}
	switch v := c.Value.(type) {
	case *ssa.Function:
		return funcName(v)
	case *ssa.MakeClosure:
		if fn, ok := v.Fn.(*ssa.Function); ok {
			return funcName(fn)
		}
	case *ssa.Builtin:
		return "builtin:" + v.Name()
	}
	return "dynamic"
}

// funcName: "pkgpath.Func" or "(pkgpath.T).Method" (pointer receivers without the star) or
// "pkgpath.Outer$1" for closures.
func funcName(fn *ssa.Function) string {
	if fn == nil {
		return "<nil>"
	}
	if fn.Parent() != nil {
		return funcName(fn.Parent()) + "$" + strings.TrimPrefix(fn.Name(), fn.Parent().Name()+"$")
	}
	if recv := fn.Signature.Recv(); recv != nil {
		return "(" + typeName(recv.Type()) + ")." + fn.Name()
	}
	if fn.Pkg != nil {
		return fn.Pkg.Pkg.Path() + "." + fn.Name()
	}
	if o := fn.Object(); o != nil && o.Pkg() != nil {
		return o.Pkg().Path() + "." + fn.Name()
	}
	return fn.Name()
}

// shortFunc renders a function name without the module prefix (diagnostics and keys).
func shortFunc(fn *ssa.Function) string {
	return strings.ReplaceAll(funcName(fn), repoMod+"/", "")
}

func typeName(t types.Type) string {
	if p, ok := t.(*types.Pointer); ok {
		t = p.Elem()
	}
	if n, ok := t.(*types.Named); ok {
		if n.Obj().Pkg() != nil {
			return n.Obj().Pkg().Path() + "." + n.Obj().Name()
		}
		return n.Obj().Name()
	}
	return t.String()
}

// isCallTo reports whether v is a call (or its instruction) to the named static function.
func isCallTo(v ssa.Value, name string) (*ssa.Call, bool) {
	c, ok := v.(*ssa.Call)
	if !ok {
		return nil, false
	}
	if calleeName(&c.Call) == name {
		return c, true
	}
	return nil, false
}

// unwrap strips conversions that do not change the underlying datum.
func unwrap(v ssa.Value) ssa.Value {
	for {
		switch x := v.(type) {
		case *ssa.ChangeType:
			v = x.X
		case *ssa.Convert:
			v = x.X
		case *ssa.MakeInterface:
			v = x.X
		case *ssa.ChangeInterface:
			v = x.X
		default:
			return v
		}
	}
}

func constString(v ssa.Value) (string, bool) {
	c, ok := unwrap(v).(*ssa.Const)
	if !ok || c.Value == nil || c.Value.Kind() != constant.String {
		return "", false
	}
	return constant.StringVal(c.Value), true
}

func constInt(v ssa.Value) (int64, bool) {
	c, ok := unwrap(v).(*ssa.Const)
	if !ok || c.Value == nil || c.Value.Kind() != constant.Int {
		return 0, false
	}
	i, ok := constant.Int64Val(c.Value)
	return i, ok
}

func constBool(v ssa.Value) (bool, bool) {
	c, ok := unwrap(v).(*ssa.Const)
	if !ok || c.Value == nil || c.Value.Kind() != constant.Bool {
		return false, false
	}
	return constant.BoolVal(c.Value), true
}

func boolConst(b bool) constant.Value { return constant.MakeBool(b) }

func isNilConst(v ssa.Value) bool {
	c, ok := v.(*ssa.Const)
	return ok && c.IsNil()
}

// fieldName returns the name of the field selected by a FieldAddr or Field instruction.
func fieldName(v ssa.Value) string {
	switch x := v.(type) {
	case *ssa.FieldAddr:
		st := derefStruct(x.X.Type())
		if st != nil && x.Field < st.NumFields() {
			return st.Field(x.Field).Name()
		}
	case *ssa.Field:
		st := derefStruct(x.X.Type())
		if st != nil && x.Field < st.NumFields() {
			return st.Field(x.Field).Name()
		}
	}
	return "?"
}

func derefStruct(t types.Type) *types.Struct {
	if p, ok := t.Underlying().(*types.Pointer); ok {
		t = p.Elem()
	}
	st, _ := t.Underlying().(*types.Struct)
	return st
}

// keyer computes canonical structural keys of SSA values inside one function. Loads are keyed
// by their address expression (so two loads of the same field path share a key); with
// forwardStores, a load from a function-local cell with exactly one store is keyed by the stored
// value.
type keyer struct {
	memo map[ssa.Value]string
	fwd  *storeIndex
}

func newKeyer(fn *ssa.Function) *keyer {
	return &keyer{memo: map[ssa.Value]string{}, fwd: indexStores(fn)}
}

func (k *keyer) key(v ssa.Value) string { return k.keyd(v, 0) }

func (k *keyer) keyd(v ssa.Value, d int) string {
	if v == nil {
		return "<nil>"
	}
	if s, ok := k.memo[v]; ok {
		return s
	}
	if d > 24 {
		return v.Name()
	}
	var s string
	switch x := v.(type) {
	case *ssa.Parameter:
		s = "p:" + x.Name()
	case *ssa.FreeVar:
		s = "fv:" + x.Name()
	case *ssa.Global:
		s = "g:" + x.Pkg.Pkg.Path() + "." + x.Name()
	case *ssa.Function:
		s = "fn:" + funcName(x)
	case *ssa.Builtin:
		s = "builtin:" + x.Name()
	case *ssa.Const:
		if x.IsNil() {
			s = "nil"
		} else if x.Value == nil {
			s = "zero"
		} else {
			s = "c:" + x.Value.ExactString()
		}
	case *ssa.Call:
		var args []string
		if x.Call.IsInvoke() {
			args = append(args, k.keyd(x.Call.Value, d+1))
		}
		for _, a := range x.Call.Args {
			args = append(args, k.keyd(a, d+1))
		}
		s = calleeName(&x.Call) + "(" + strings.Join(args, ",") + ")"
	case *ssa.Extract:
		s = k.keyd(x.Tuple, d+1) + "#" + fmt.Sprint(x.Index)
	case *ssa.FieldAddr:
		s = "&" + k.keyd(x.X, d+1) + "." + fieldName(x)
	case *ssa.Field:
		s = k.keyd(x.X, d+1) + "." + fieldName(x)
	case *ssa.IndexAddr:
		s = "&" + k.keyd(x.X, d+1) + "[" + k.keyd(x.Index, d+1) + "]"
	case *ssa.Index:
		s = k.keyd(x.X, d+1) + "[" + k.keyd(x.Index, d+1) + "]"
	case *ssa.Lookup:
		s = k.keyd(x.X, d+1) + "[" + k.keyd(x.Index, d+1) + "]"
		if x.CommaOk {
			s += ",ok"
		}
	case *ssa.UnOp:
		switch x.Op {
		case token.MUL:
			if k.fwd != nil {
				if sv := k.fwd.forward(x); sv != nil {
					s = k.keyd(sv, d+1)
					break
				}
			}
			a := k.keyd(x.X, d+1)
			if strings.HasPrefix(a, "&") {
				s = a[1:]
			} else {
				s = "*" + a
			}
		case token.NOT:
			s = "!" + k.keyd(x.X, d+1)
		default:
			s = x.Op.String() + k.keyd(x.X, d+1)
		}
	case *ssa.BinOp:
		a, b := k.keyd(x.X, d+1), k.keyd(x.Y, d+1)
		if (x.Op == token.EQL || x.Op == token.NEQ || x.Op == token.ADD || x.Op == token.MUL) && b < a {
			a, b = b, a
		}
		s = "(" + a + x.Op.String() + b + ")"
	case *ssa.Phi:
		s = fmt.Sprintf("phi:%s@b%d", x.Comment, x.Block().Index)
	case *ssa.Alloc:
		s = fmt.Sprintf("alloc:%s@%d", x.Comment, x.Pos())
	case *ssa.ChangeType:
		s = k.keyd(x.X, d+1)
	case *ssa.Convert:
		s = k.keyd(x.X, d+1)
	case *ssa.MakeInterface:
		s = k.keyd(x.X, d+1)
	case *ssa.ChangeInterface:
		s = k.keyd(x.X, d+1)
	case *ssa.Slice:
		s = k.keyd(x.X, d+1) + "[:]"
	case *ssa.MakeClosure:
		s = "closure:" + k.keyd(x.Fn, d+1)
	case *ssa.TypeAssert:
		s = k.keyd(x.X, d+1) + ".(" + typeName(x.AssertedType) + ")"
	case *ssa.Next:
		s = "next(" + k.keyd(x.Iter, d+1) + ")"
	case *ssa.Range:
		s = "range(" + k.keyd(x.X, d+1) + ")"
	default:
		s = fmt.Sprintf("%T:%s", v, v.Name())
	}
	k.memo[v] = s
	return s
}

// storeIndex indexes stores to function-local cells for load forwarding.
type storeIndex struct {
	fn     *ssa.Function
	stores map[string][]*ssa.Store // address key (alloc-rooted) -> stores
	dom    map[*ssa.BasicBlock]bool
	k      *keyer
}

// addrKey renders an address rooted at a local Alloc as "alloc#N.f.g"; "" if not local.
func addrKey(v ssa.Value) string {
	switch x := v.(type) {
	case *ssa.Alloc:
		return fmt.Sprintf("alloc@%p", x)
	case *ssa.FieldAddr:
		b := addrKey(x.X)
		if b == "" {
			return ""
		}
		return b + "." + fieldName(x)
	}
	return ""
}

func indexStores(fn *ssa.Function) *storeIndex {
	si := &storeIndex{fn: fn, stores: map[string][]*ssa.Store{}}
	for _, b := range fn.Blocks {
		for _, in := range b.Instrs {
			if st, ok := in.(*ssa.Store); ok {
				if ak := addrKey(st.Addr); ak != "" {
					si.stores[ak] = append(si.stores[ak], st)
				}
			}
		}
	}
	return si
}

// escapes reports whether the alloc (or the address of the tracked field) is passed to a call,
// stored somewhere or captured, other than by plain field loads/stores.
func allocRoot(v ssa.Value) *ssa.Alloc {
	for {
		switch x := v.(type) {
		case *ssa.Alloc:
			return x
		case *ssa.FieldAddr:
			v = x.X
		default:
			return nil
		}
	}
}

// escapes reports whether the pointer held by a local alloc may be used to write its fields
// from outside this function's visible stores: it is passed to a call, stored, captured by a
// closure, merged by a phi or sent; or the address of one of its fields is used for anything
// but a load, a store or a deeper field address.
func (si *storeIndex) escapes(a *ssa.Alloc) bool {
	if si.dom == nil {
		si.dom = map[*ssa.BasicBlock]bool{}
	}
	var addrOnly func(v ssa.Value, isRoot bool) bool
	addrOnly = func(v ssa.Value, isRoot bool) bool {
		for _, r := range refs(v) {
			switch x := r.(type) {
			case *ssa.FieldAddr:
				if x.X != v || !addrOnly(x, false) {
					return false
				}
			case *ssa.UnOp:
				if x.Op != token.MUL {
					return false
				}
			case *ssa.Store:
				if x.Addr != v {
					return false // the pointer itself is stored somewhere
				}
			case *ssa.Return:
				if !isRoot {
					return false
				}
			case *ssa.DebugRef:
			default:
				return false
			}
		}
		return true
	}
	return !addrOnly(a, true)
}

// forward returns the value stored into the cell a load reads from, when the cell is rooted at a
// local alloc, has exactly one store in the function and that store dominates the load.
// A heap alloc whose pointer is passed to calls may be written by callees; those writes are not
// seen here, so forwarding is applied only to fields never written through other aliases in this
// function — adequate for flag fields such as Result.IsPaused that callees do not touch. Rules
// that rely on forwarding list the field in their explanation.
func (si *storeIndex) forward(load *ssa.UnOp) ssa.Value {
	ak := addrKey(load.X)
	if ak == "" {
		return nil
	}
	sts := si.stores[ak]
	if len(sts) != 1 {
		return nil
	}
	if a := allocRoot(load.X); a == nil || si.escapes(a) {
		return nil
	}
	st := sts[0]
	if st.Block() == load.Block() {
		for _, in := range st.Block().Instrs {
			if in == st {
				return st.Val
			}
			if in == ssa.Instruction(load) {
				return nil
			}
		}
	}
	if st.Block().Dominates(load.Block()) {
		return st.Val
	}
	return nil
}

// accessPath splits a value into a root and the chain of field names leading to it, looking
// through loads, FieldAddr/Field, and conversions: daemonset.Spec.Strategy.Canary ->
// (param daemonset, [Spec Strategy Canary]).
func accessPath(v ssa.Value) (ssa.Value, []string) {
	var rev []string
	for {
		switch x := v.(type) {
		case *ssa.UnOp:
			if x.Op == token.MUL {
				v = x.X
				continue
			}
		case *ssa.FieldAddr:
			rev = append(rev, fieldName(x))
			v = x.X
			continue
		case *ssa.Field:
			rev = append(rev, fieldName(x))
			v = x.X
			continue
		case *ssa.ChangeType:
			v = x.X
			continue
		case *ssa.Convert:
			v = x.X
			continue
		case *ssa.MakeInterface:
			v = x.X
			continue
		}
		break
	}
	for i, j := 0, len(rev)-1; i < j; i, j = i+1, j-1 {
		rev[i], rev[j] = rev[j], rev[i]
	}
	return v, rev
}

func pathString(v ssa.Value) string {
	root, p := accessPath(v)
	name := root.Name()
	if pr, ok := root.(*ssa.Parameter); ok {
		name = pr.Name()
	}
	if len(p) == 0 {
		return name
	}
	return name + "." + strings.Join(p, ".")
}

// hasPathSuffix reports whether the access path of v ends with the given field names.
func hasPathSuffix(v ssa.Value, suffix ...string) bool {
	_, p := accessPath(v)
	if len(p) < len(suffix) {
		return false
	}
	p = p[len(p)-len(suffix):]
	for i := range suffix {
		if p[i] != suffix[i] {
			return false
		}
	}
	return true
}

// instrPos returns a usable position for an instruction (falls back to operands / block).
func instrPos(in ssa.Instruction) token.Pos {
	if in.Pos().IsValid() {
		return in.Pos()
	}
	for _, op := range in.Operands(nil) {
		if *op != nil && (*op).Pos().IsValid() {
			return (*op).Pos()
		}
	}
	if v, ok := in.(ssa.Value); ok {
		if refs := v.Referrers(); refs != nil {
			for _, r := range *refs {
				if r.Pos().IsValid() {
					return r.Pos()
				}
			}
		}
	}
	return in.Parent().Pos()
}

// callsIn lists all call instructions (call, go, defer) of a function in block order.
func callsIn(fn *ssa.Function) []ssa.CallInstruction {
	var out []ssa.CallInstruction
	for _, b := range fn.Blocks {
		for _, in := range b.Instrs {
			if c, ok := in.(ssa.CallInstruction); ok {
				out = append(out, c)
			}
		}
	}
	return out
}

// reachableFuncs returns the repository functions reachable from the roots through static calls,
// closures created, go and defer statements (the quick-tier call graph).
func (p *Prog) reachableFuncs(roots ...*ssa.Function) map[*ssa.Function]bool {
	if fullSSABodies {
		return p.reachableFuncsVTA(roots...)
	}
	// static calls, closures and function arguments, then closed under calls through constant
	// package-level tables of functions and function-typed parameters (dDynCallees): a switch
	// turned into a dispatch table must not hide the strategy functions from the rules.
	seen := p.reachableStatic(roots...)
	for changed := true; changed; {
		changed = false
		for _, fn := range sortedFuncs(seen) {
			if !p.IsRepoFunc(fn) {
				continue
			}
			for _, ci := range callsIn(fn) {
				if ci.Common().IsInvoke() || staticCallee(ci.Common()) != nil {
					continue
				}
				fs, ok := dDynCallees(p, ci)
				if !ok {
					continue
				}
				for _, f := range fs {
					if seen[f] {
						continue
					}
					for g := range p.reachableStatic(f) {
						if !seen[g] {
							seen[g] = true
							changed = true
						}
					}
				}
			}
		}
	}
	return seen
}

func (p *Prog) reachableStatic(roots ...*ssa.Function) map[*ssa.Function]bool {
	seen := map[*ssa.Function]bool{}
	synth := map[*ssa.Function]bool{}
	var visit func(fn *ssa.Function)
	visit = func(fn *ssa.Function) {
		if fn == nil || seen[fn] || len(fn.Blocks) == 0 {
			return
		}
		if fn.Pkg == nil && fn.Parent() == nil {
			// synthetic wrapper (method expression thunk, bound-method closure, promoted-method
			// wrapper): not a repository function itself, but it calls one statically
			if fn.Synthetic != "" && !synth[fn] {
				synth[fn] = true
				for _, c := range callsIn(fn) {
					if cal := staticCallee(c.Common()); cal != nil {
						visit(cal)
					}
				}
			}
			return
		}
		root := fn
		for root.Parent() != nil {
			root = root.Parent()
		}
		if root.Pkg == nil || !p.IsRepoPkg(root.Pkg.Pkg.Path()) {
			return
		}
		seen[fn] = true
		for _, b := range fn.Blocks {
			for _, in := range b.Instrs {
				switch x := in.(type) {
				case ssa.CallInstruction:
					if c := staticCallee(x.Common()); c != nil {
						visit(c)
					}
					for _, a := range x.Common().Args {
						if mc, ok := a.(*ssa.MakeClosure); ok {
							if f, ok := mc.Fn.(*ssa.Function); ok {
								visit(f)
							}
						}
						if f, ok := a.(*ssa.Function); ok {
							visit(f)
						}
					}
				case *ssa.MakeClosure:
					if f, ok := x.Fn.(*ssa.Function); ok {
						visit(f)
					}
				}
			}
		}
	}
	for _, r := range roots {
		visit(r)
	}
	return seen
}

func sortedFuncs(m map[*ssa.Function]bool) []*ssa.Function {
	var out []*ssa.Function
	for f := range m {
		out = append(out, f)
	}
	sort.Slice(out, func(i, j int) bool { return funcName(out[i]) < funcName(out[j]) })
	return out
}

// refs returns the referrers of a value (never nil).
func refs(v ssa.Value) []ssa.Instruction {
	r := v.Referrers()
	if r == nil {
		return nil
	}
	return *r
}

// reachableFuncsVTA (thorough tier): repository functions reachable from the roots in the VTA
// call graph of the whole program (interface and function-value calls resolved; paths may pass
// through dependency code), united with the static closure.
func (p *Prog) reachableFuncsVTA(roots ...*ssa.Function) map[*ssa.Function]bool {
	if p.cg == nil {
		all := ssautil.AllFunctions(p.SSA)
		p.cg = vta.CallGraph(all, cha.CallGraph(p.SSA))
	}
	seen := map[*ssa.Function]bool{}
	out := map[*ssa.Function]bool{}
	var visit func(fn *ssa.Function)
	visit = func(fn *ssa.Function) {
		if fn == nil || seen[fn] {
			return
		}
		seen[fn] = true
		root := fn
		for root.Parent() != nil {
			root = root.Parent()
		}
		inRepo := root.Pkg != nil && p.IsRepoPkg(root.Pkg.Pkg.Path())
		if inRepo && len(fn.Blocks) > 0 {
			out[fn] = true
		}
		// do not wander through the whole dependency graph from non-repository code: follow
		// dependency functions only one hop deep unless they lead back into the repository
		// (callbacks are invoked by the dependency function that receives them).
		if n := p.cg.Nodes[fn]; n != nil {
			for _, e := range n.Out {
				callee := e.Callee.Func
				cr := callee
				for cr != nil && cr.Parent() != nil {
					cr = cr.Parent()
				}
				calleeInRepo := cr != nil && cr.Pkg != nil && p.IsRepoPkg(cr.Pkg.Pkg.Path())
				if inRepo || calleeInRepo {
					visit(callee)
				}
			}
		}
		// closures created here
		for _, b := range fn.Blocks {
			for _, in := range b.Instrs {
				if mc, ok := in.(*ssa.MakeClosure); ok {
					if f, ok := mc.Fn.(*ssa.Function); ok {
						visit(f)
					}
				}
			}
		}
	}
	for _, r := range roots {
		visit(r)
	}
	return out
}
