package main

// Loader: type-checks /repo's current working tree (both workspace modules) with
// go/packages and builds go/ssa for the whole program. Fails closed: any load or
// type error, a missing expected package or zero packages aborts the run.

import (
	"fmt"
	"go/token"
	"go/types"
	"os"
	"sort"
	"strings"
	"time"

	"golang.org/x/tools/go/callgraph"
	"golang.org/x/tools/go/packages"
	"golang.org/x/tools/go/ssa"
	"golang.org/x/tools/go/ssa/ssautil"
)

const repoMod = "github.com/DataDog/extendeddaemonset"

// Package path shorthands used by the rules.
const (
	pkgAPI        = repoMod + "/api/v1alpha1"
	pkgEDS        = repoMod + "/controllers/extendeddaemonset"
	pkgEDSCond    = repoMod + "/controllers/extendeddaemonset/conditions"
	pkgERS        = repoMod + "/controllers/extendeddaemonsetreplicaset"
	pkgERSCond    = repoMod + "/controllers/extendeddaemonsetreplicaset/conditions"
	pkgSched      = repoMod + "/controllers/extendeddaemonsetreplicaset/scheduler"
	pkgStrategy   = repoMod + "/controllers/extendeddaemonsetreplicaset/strategy"
	pkgLimits     = repoMod + "/controllers/extendeddaemonsetreplicaset/strategy/limits"
	pkgSetting    = repoMod + "/controllers/extendeddaemonsetsetting"
	pkgPodTpl     = repoMod + "/controllers/podtemplate"
	pkgUtils      = repoMod + "/pkg/controller/utils"
	pkgAffinity   = repoMod + "/pkg/controller/utils/affinity"
	pkgComparison = repoMod + "/pkg/controller/utils/comparison"
	pkgPodUtils   = repoMod + "/pkg/controller/utils/pod"
	pkgMetrics    = repoMod + "/pkg/controller/metrics"
	pkgPlugCanary = repoMod + "/pkg/plugin/canary"
	pkgPlugPause  = repoMod + "/pkg/plugin/pause"
	pkgPlugFreeze = repoMod + "/pkg/plugin/freeze"
	pkgClient     = "sigs.k8s.io/controller-runtime/pkg/client"
	pkgIntstr     = "k8s.io/apimachinery/pkg/util/intstr"
	pkgCoreV1     = "k8s.io/api/core/v1"
	pkgMetaV1     = "k8s.io/apimachinery/pkg/apis/meta/v1"
)

// ssaBodyDeps: dependency packages whose function bodies are built (callee summaries).
var ssaBodyDeps = map[string]bool{pkgIntstr: true, "k8s.io/client-go/util/flowcontrol": true}

// fullSSABodies (thorough tier): build function bodies of every package so that the VTA call
// graph can follow calls that leave the repository and come back (sort.Sort → Less, handler
// registries, …).
var fullSSABodies bool

// expectedPkgs must all be present in the loaded program (anchor packages).
var expectedPkgs = []string{
	pkgAPI, pkgEDS, pkgEDSCond, pkgERS, pkgERSCond, pkgSched, pkgStrategy, pkgLimits,
	pkgSetting, pkgPodTpl, pkgUtils, pkgAffinity, pkgComparison, pkgPodUtils, pkgMetrics,
	pkgPlugCanary, pkgPlugPause, pkgPlugFreeze,
}

// Prog is the loaded, type-checked and SSA-built program.
type Prog struct {
	Dir         string
	Fset        *token.FileSet
	All         map[string]*packages.Package // by package path
	Repo        []*packages.Package          // packages of the repository (sorted)
	SSA         *ssa.Program
	nFuncs      int
	nRepoFns    int
	tags        string
	cg          *callgraph.Graph
	callers     map[*ssa.Function][]ssa.CallInstruction
	closures    map[*ssa.Function][]*ssa.MakeClosure
	comparators map[*ssa.Function]bool
	facts       map[*ssa.Function]*FuncFacts
	repoFns     []*ssa.Function
}

func loadEnv() []string {
	var env []string
	for _, kv := range os.Environ() {
		k := kv
		if i := strings.IndexByte(kv, '='); i >= 0 {
			k = kv[:i]
		}
		switch k {
		case "GOFLAGS", "GOWORK", "GOPROXY", "GOSUMDB", "GOTOOLCHAIN":
			continue
		}
		env = append(env, kv)
	}
	// The repository is a go.work workspace: -mod=mod is rejected there, so GOFLAGS is cleared
	// and GOWORK left unset so that /repo/go.work is found.
	env = append(env, "GOFLAGS=", "GOPROXY=off", "GOSUMDB=off", "GOTOOLCHAIN=local")
	return env
}

// Load loads the repository at dir. tags is an optional comma separated build tag list;
// extraEnv (e.g. GOOS=darwin) is appended to the go list environment.
func Load(dir, tags string, extraEnv ...string) (*Prog, error) {
	t0 := time.Now()
	cfg := &packages.Config{
		Mode:  packages.LoadAllSyntax,
		Dir:   dir,
		Tests: false,
		Env:   append(loadEnv(), extraEnv...),
	}
	if tags != "" {
		cfg.BuildFlags = []string{"-tags=" + tags}
	}
	initial, err := packages.Load(cfg, "./...", "./api/...")
	if err != nil {
		return nil, fmt.Errorf("go/packages: %w", err)
	}
	if len(initial) == 0 {
		return nil, fmt.Errorf("go/packages: zero packages loaded from %s", dir)
	}
	p := &Prog{Dir: dir, All: map[string]*packages.Package{}, tags: tags}
	var errs []string
	packages.Visit(initial, nil, func(pk *packages.Package) {
		p.All[pk.PkgPath] = pk
		for _, e := range pk.Errors {
			errs = append(errs, fmt.Sprintf("%s: %s", pk.PkgPath, e.Error()))
		}
		if pk.Fset != nil {
			p.Fset = pk.Fset
		}
	})
	if len(errs) > 0 {
		sort.Strings(errs)
		if len(errs) > 10 {
			errs = errs[:10]
		}
		return nil, fmt.Errorf("type/load errors:\n  %s", strings.Join(errs, "\n  "))
	}
	for _, want := range expectedPkgs {
		if p.All[want] == nil {
			return nil, fmt.Errorf("expected package %s is not part of the loaded program", want)
		}
	}
	for path, pk := range p.All {
		if path == repoMod || strings.HasPrefix(path, repoMod+"/") {
			p.Repo = append(p.Repo, pk)
		}
	}
	sort.Slice(p.Repo, func(i, j int) bool { return p.Repo[i].PkgPath < p.Repo[j].PkgPath })

	if os.Getenv("EDS_FULL_SSA") != "" {
		fullSSABodies = true
	}
	t1 := time.Now()
	prog, _ := ssautil.AllPackages(initial, ssa.BuilderMode(0))
	// Function bodies are built for the repository's packages and for the few dependency
	// packages whose functions the rules summarise; other dependencies keep their signatures only.
	for path, pk := range p.All {
		if fullSSABodies || p.IsRepoPkg(path) || ssaBodyDeps[path] {
			if sp := prog.Package(pk.Types); sp != nil {
				sp.Build()
			}
		}
	}
	p.SSA = prog
	for fn := range ssautil.AllFunctions(prog) {
		if len(fn.Blocks) > 0 {
			p.nFuncs++
			if fn.Pkg != nil && p.IsRepoPkg(fn.Pkg.Pkg.Path()) {
				p.nRepoFns++
			}
		}
	}
	if os.Getenv("EDS_TIMING") != "" {
		fmt.Fprintf(os.Stderr, "timing: load+typecheck %.1fs, ssa %.1fs\n", t1.Sub(t0).Seconds(), time.Since(t1).Seconds())
	}
	return p, nil
}

func (p *Prog) IsRepoPkg(path string) bool {
	return path == repoMod || strings.HasPrefix(path, repoMod+"/")
}

// IsRuleSite reports whether a function is repository code that rules may be instantiated on
// (generated deepcopy/openapi sources and test helpers are loaded but never rule sites).
func (p *Prog) IsRuleSite(fn *ssa.Function) bool {
	if fn == nil || fn.Pkg == nil || !p.IsRepoPkg(fn.Pkg.Pkg.Path()) {
		return false
	}
	pos := fn.Pos()
	if f := fn; !pos.IsValid() && f.Parent() != nil {
		pos = f.Parent().Pos()
	}
	if pos.IsValid() {
		name := p.Fset.Position(pos).Filename
		if strings.Contains(name, "zz_generated") {
			return false
		}
	}
	return true
}

// Pos renders a position relative to the repository root.
func (p *Prog) Pos(pos token.Pos) string {
	if !pos.IsValid() {
		return "-"
	}
	ps := p.Fset.Position(pos)
	name := ps.Filename
	if rel := strings.TrimPrefix(name, p.Dir+"/"); rel != name {
		name = rel
	}
	return fmt.Sprintf("%s:%d", name, ps.Line)
}

// SSAPkg returns the SSA package for a path (nil if absent).
func (p *Prog) SSAPkg(path string) *ssa.Package {
	pk := p.All[path]
	if pk == nil || pk.Types == nil {
		return nil
	}
	return p.SSA.Package(pk.Types)
}

// Func returns a package-level function (nil if it does not exist).
func (p *Prog) Func(pkg, name string) *ssa.Function {
	sp := p.SSAPkg(pkg)
	if sp == nil {
		return nil
	}
	return sp.Func(name)
}

// Method returns the method name of named type typ in pkg (pointer or value receiver).
func (p *Prog) Method(pkg, typ, name string) *ssa.Function {
	pk := p.All[pkg]
	if pk == nil || pk.Types == nil {
		return nil
	}
	obj := pk.Types.Scope().Lookup(typ)
	if obj == nil {
		return nil
	}
	named, ok := obj.Type().(*types.Named)
	if !ok {
		return nil
	}
	for _, t := range []types.Type{types.NewPointer(named), named} {
		ms := p.SSA.MethodSets.MethodSet(t)
		for i := 0; i < ms.Len(); i++ {
			if ms.At(i).Obj().Name() == name {
				return p.SSA.MethodValue(ms.At(i))
			}
		}
	}
	return nil
}

// Named returns a named type object of pkg.
func (p *Prog) Named(pkg, typ string) *types.Named {
	pk := p.All[pkg]
	if pk == nil || pk.Types == nil {
		return nil
	}
	obj := pk.Types.Scope().Lookup(typ)
	if obj == nil {
		return nil
	}
	n, _ := obj.Type().(*types.Named)
	return n
}

// ConstVal returns the string value of a package-level string constant ("" and false if absent).
func (p *Prog) ConstObj(pkg, name string) *types.Const {
	pk := p.All[pkg]
	if pk == nil || pk.Types == nil {
		return nil
	}
	c, _ := pk.Types.Scope().Lookup(name).(*types.Const)
	return c
}

// RepoFuncs returns all functions (including anonymous ones) with bodies defined in repository
// rule-site packages, sorted by position.
func (p *Prog) RepoFuncs() []*ssa.Function {
	if p.repoFns != nil {
		return p.repoFns
	}
	var out []*ssa.Function
	for fn := range ssautil.AllFunctions(p.SSA) {
		if len(fn.Blocks) == 0 || fn.Synthetic != "" {
			continue
		}
		if p.IsRuleSite(fn) {
			out = append(out, fn)
		}
	}
	sort.Slice(out, func(i, j int) bool {
		a, b := p.Fset.Position(out[i].Pos()), p.Fset.Position(out[j].Pos())
		if a.Filename != b.Filename {
			return a.Filename < b.Filename
		}
		if a.Line != b.Line {
			return a.Line < b.Line
		}
		return out[i].String() < out[j].String()
	})
	p.repoFns = out
	return out
}
