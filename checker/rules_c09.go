package main

// C09 — pod creation is rate limited by slow start and syncs are spaced.

import (
	"fmt"
	"go/token"
	"sort"
	"strings"

	"golang.org/x/tools/go/ssa"
)

func init() {
	register("C09", "Decides: (R1) the rolling-update planner stores Result.PodsToCreate only as candidates[:k] with k <= the creation result of the limits function, which is >= 0 and <= max(0, MaxPodCreation) on every return, and MaxPodCreation is filled from the ramp function; (R2) every return of the ramp function is <= max(0, *MaxParallelPodCreation) and <= a ramp term whose polynomial normal form over {increase, slots} is coefficient-wise <= increase + increase*slots, i.e. (1 + slots)*increase; (R3) operand roles of the ramp: increase = GetValueFromIntOrPercent(SlowStartAdditiveIncrease, number of targeted nodes, round up), slots = (now - start) / SlowStartIntervalDuration with now the sync's clock value and start the result of the start-time function, which returns either now or the LastTransitionTime of the replica set's Active condition and the latter only when that condition is True; (R4) deletions per sync <= max(0, MaxUnavailablePod) (same checks as C03.R1/R5); (R5) in the replica-set Reconcile every call that can write pods is reachable only through the spacing test (LastFullSync condition absent, or not LastUpdateTime(LastFullSync of the replica set just read) + owner.Spec.Strategy.ReconcileFrequency after the sync's clock value); (R6) from every such call, every path to a return passes the update of the LastFullSync condition (sync's clock value, status True, supportLastUpdate=true) and then the status write of the same status object; the condition updater stores that time as LastUpdateTime.", runC09)
}

const (
	fnERSCondGet    = pkgERSCond + ".GetExtendedDaemonSetReplicaSetStatusCondition"
	fnERSCondUpdate = pkgERSCond + ".UpdateExtendedDaemonSetReplicaSetStatusCondition"
)

// poly is a polynomial with integer coefficients over named leaves: monomial ("" = constant,
// otherwise sorted leaf names joined by "*") -> coefficient.
type poly map[string]int64

func polyMul(a, b poly) poly {
	out := poly{}
	for ma, ca := range a {
		for mb, cb := range b {
			var parts []string
			if ma != "" {
				parts = append(parts, strings.Split(ma, "*")...)
			}
			if mb != "" {
				parts = append(parts, strings.Split(mb, "*")...)
			}
			sort.Strings(parts)
			out[strings.Join(parts, "*")] += ca * cb
		}
	}
	return out
}

func (p poly) String() string {
	var ms []string
	for m, c := range p {
		if c != 0 {
			ms = append(ms, m)
		}
	}
	sort.Strings(ms)
	var out []string
	for _, m := range ms {
		if m == "" {
			out = append(out, fmt.Sprint(p[m]))
		} else if p[m] == 1 {
			out = append(out, m)
		} else {
			out = append(out, fmt.Sprintf("%d*%s", p[m], m))
		}
	}
	if len(out) == 0 {
		return "0"
	}
	return strings.Join(out, " + ")
}

// polyOf normalises an integer expression built from +, -, * over leaves and constants.
func polyOf(v ssa.Value, leaf func(ssa.Value) (string, bool), depth int) (poly, bool) {
	if depth > 24 {
		return nil, false
	}
	if n, ok := leaf(v); ok {
		return poly{n: 1}, true
	}
	v = stripIntConv(v)
	if n, ok := leaf(v); ok {
		return poly{n: 1}, true
	}
	if c, ok := constInt(v); ok {
		return poly{"": c}, true
	}
	bo, ok := v.(*ssa.BinOp)
	if !ok {
		return nil, false
	}
	a, ok1 := polyOf(bo.X, leaf, depth+1)
	b, ok2 := polyOf(bo.Y, leaf, depth+1)
	if !ok1 || !ok2 {
		return nil, false
	}
	switch bo.Op {
	case token.ADD, token.SUB:
		out := poly{}
		for m, c := range a {
			out[m] += c
		}
		for m, c := range b {
			if bo.Op == token.ADD {
				out[m] += c
			} else {
				out[m] -= c
			}
		}
		return out, true
	case token.MUL:
		return polyMul(a, b), true
	}
	return nil, false
}

// rampSite describes the ramp function and the roles of its operands.
type rampSite struct {
	fn       *ssa.Function
	call     *ssa.Call // call in the planner
	increase *ssa.Extract
	quo      *ssa.BinOp
}

// paramCopyRoot reports whether v is read from parameter p (directly or through p's local copy).
func readsParam(v ssa.Value, p *ssa.Parameter) bool {
	root, _ := accessPath(v)
	if root == ssa.Value(p) {
		return true
	}
	if a, ok := root.(*ssa.Alloc); ok {
		n := 0
		for _, rf := range refs(a) {
			if st, ok := rf.(*ssa.Store); ok && st.Addr == ssa.Value(a) {
				n++
				if st.Val != ssa.Value(p) {
					return false
				}
			}
		}
		return n == 1
	}
	return false
}

func c09Ramp(r *Run, site *cutSite) {
	fn := site.planner
	slots, why := slotValues(site.call)
	pos := r.Prog.Pos(site.call.Pos())
	if slots == nil {
		r.Undecided("C09.R1", "slot MaxPodCreation", pos, shortFunc(fn), why)
		relaxFloors(r, "C09.R2", "C09.R3")
		return
	}
	mc := slots["MaxPodCreation"]
	var rampCall *ssa.Call
	if mc != nil {
		if e, ok := stripIntConv(mc).(*ssa.Extract); ok && e.Index == 0 {
			if c, ok := e.Tuple.(*ssa.Call); ok {
				if cal := staticCallee(&c.Call); cal != nil && r.Prog.IsRuleSite(cal) {
					rampCall = c
				}
			}
		}
	}
	r.Check("C09.R1", "slot MaxPodCreation", pos, shortFunc(fn), "MaxPodCreation is the first result of the slow-start ramp function", rampCall != nil,
		func() string {
			if mc == nil {
				return "the field is left at zero"
			}
			return "filled from " + mc.String()
		}())
	if rampCall == nil {
		relaxFloors(r, "C09.R2", "C09.R3")
		return
	}
	g := staticCallee(&rampCall.Call)
	ff := computeFacts(g)
	bp := &bprover{ff: ff}

	// --- operand discovery inside the ramp function
	var spec *ssa.Parameter
	for _, p := range g.Params {
		if isPtrToNamed(p.Type(), pkgAPI, "ExtendedDaemonSetSpecStrategyRollingUpdate") {
			spec = p
		}
	}
	if spec == nil {
		r.Undecided("C09.R3", "ramp operands", r.Prog.Pos(g.Pos()), shortFunc(g), "the ramp function has no *ExtendedDaemonSetSpecStrategyRollingUpdate parameter")
		relaxFloors(r, "C09.R2", "C09.R3")
		return
	}
	isSpecField := func(v ssa.Value, fields ...string) bool {
		root, p := accessPath(v)
		if root != ssa.Value(spec) || len(p) != len(fields) {
			return false
		}
		for i := range p {
			if p[i] != fields[i] {
				return false
			}
		}
		return true
	}
	var increase *ssa.Extract
	var quo *ssa.BinOp
	for _, b := range g.Blocks {
		for _, in := range b.Instrs {
			switch x := in.(type) {
			case *ssa.Extract:
				if c, ok := isResultOf(x, fnGetValueFromIntOrPct, 0); ok && len(c.Call.Args) == 3 && isSpecField(c.Call.Args[0], "SlowStartAdditiveIncrease") {
					increase = x
				}
			case *ssa.BinOp:
				if x.Op == token.QUO && isSpecField(x.Y, "SlowStartIntervalDuration", "Duration") {
					quo = x
				}
			}
		}
	}
	isMaxParallel := func(v ssa.Value) bool {
		v = stripIntConv(v)
		return isIntegerType(v.Type()) && isSpecField(v, "MaxParallelPodCreation")
	}
	leaf := func(v ssa.Value) (string, bool) {
		if increase != nil && v == ssa.Value(increase) {
			return "increase", true
		}
		if quo != nil && stripIntConv(v) == ssa.Value(quo) {
			return "slots", true
		}
		return "", false
	}
	ref := poly{"increase": 1, "increase*slots": 1}

	// --- R2: every return
	for i, ret := range returnsOf(g) {
		v := ret.Results[0]
		rpos := r.Prog.Pos(instrPos(ret))
		fs := ff.At(ret.Block())
		capOK := bp.le(v, fs, isMaxParallel, true, 0)
		r.Check("C09.R2", fmt.Sprintf("result <= max(0, MaxParallelPodCreation) at return-%d", i+1), rpos, shortFunc(g),
			"the ramp result never exceeds *MaxParallelPodCreation", capOK, "proved from the clamp structure of "+v.Name())
		var seen []string
		rampOK := bp.le(v, fs, func(x ssa.Value) bool {
			p, ok := polyOf(x, leaf, 0)
			if !ok {
				return false
			}
			seen = append(seen, p.String())
			for m, c := range p {
				if c > ref[m] {
					return false
				}
			}
			return true
		}, true, 0)
		detail := "ramp term: " + strings.Join(uniq(seen), " | ")
		if increase == nil || quo == nil {
			detail = fmt.Sprintf("operands not found: increase=%v slots=%v", increase != nil, quo != nil)
		}
		o := r.Check("C09.R2", fmt.Sprintf("result <= (1+slots)*increase at return-%d", i+1), rpos, shortFunc(g),
			"the ramp result never exceeds increase + increase*slots (polynomial normal form, coefficient-wise)", rampOK, detail)
		if c, isC := constInt(v); isC && c <= 0 {
			o.Trivial = true
		}
	}

	// --- R3: operand roles
	gpos := r.Prog.Pos(g.Pos())
	// increase: resolved against the parameter that receives the planner's node count, rounding up
	nb := slots["NbNodes"]
	okInc := false
	detail := "no GetValueFromIntOrPercent(SlowStartAdditiveIncrease, …) call"
	if increase != nil {
		c := increase.Tuple.(*ssa.Call)
		tp, isP := stripIntConv(c.Call.Args[1]).(*ssa.Parameter)
		up, isB := constBool(c.Call.Args[2])
		switch {
		case !isP:
			detail = "percentage resolved against " + c.Call.Args[1].String() + ", not against a parameter of the ramp function"
		case nb == nil || site.ff.K.key(stripIntConv(rampCall.Call.Args[paramIndex(tp)])) != site.ff.K.key(stripIntConv(nb)):
			detail = "the planner passes " + rampCall.Call.Args[paramIndex(tp)].String() + " as the total, which is not the number of targeted nodes (the NbNodes value)"
		case !isB || !up:
			detail = "not rounded up"
		default:
			okInc = true
			detail = ""
		}
		gpos = r.Prog.Pos(c.Pos())
	}
	r.Check("C09.R3", "increase operand", gpos, shortFunc(g), "increase = GetValueFromIntOrPercent(SlowStartAdditiveIncrease, number of targeted nodes, round up)", okInc, detail)

	// slots: (now - start) / interval
	okQuo := false
	detail = "no division by SlowStartIntervalDuration.Duration"
	var startFn *ssa.Function
	var startCall *ssa.Call
	gpos = r.Prog.Pos(g.Pos())
	if quo != nil {
		gpos = r.Prog.Pos(quo.Pos())
		sub, isSub := isCallTo(quo.X, "(time.Time).Sub")
		if !isSub {
			detail = "the dividend is not a time difference: " + quo.X.String()
		} else {
			a, isA := sub.Call.Args[0].(*ssa.Parameter)
			b, isB := sub.Call.Args[1].(*ssa.Parameter)
			if !isA || !isB {
				detail = "the time difference is not taken between two parameters of the ramp function"
			} else {
				nowArg := rampCall.Call.Args[paramIndex(a)]
				startArg := rampCall.Call.Args[paramIndex(b)]
				var clock *ssa.Parameter
				for _, p := range fn.Params {
					if typeName(p.Type()) == pkgMetaV1+".Time" || typeName(p.Type()) == "time.Time" {
						clock = p
					}
				}
				sc, isCall := startArg.(*ssa.Call)
				switch {
				case clock == nil || !readsParam(nowArg, clock):
					detail = "the minuend is not the sync's clock value (the planner's time parameter)"
				case !isCall || staticCallee(&sc.Call) == nil || !r.Prog.IsRuleSite(staticCallee(&sc.Call)):
					detail = "the subtrahend is not the result of the start-time function: " + startArg.String()
				default:
					okQuo = true
					detail = ""
					startFn = staticCallee(&sc.Call)
					startCall = sc
				}
			}
		}
	}
	r.Check("C09.R3", "slots operand", gpos, shortFunc(g), "slots = (sync's clock value - ramp start) / SlowStartIntervalDuration", okQuo, detail)
	if startFn == nil {
		relaxFloors(r, "C09.R3")
		return
	}
	c09StartTime(r, site, startFn, startCall)
}

// c09StartTime checks the start-time function: it returns its clock parameter, or the
// LastTransitionTime of the Active condition of the status it is given, the latter only when the
// condition is True; and the planner passes the replica set's status and the sync's clock value.
func c09StartTime(r *Run, site *cutSite, fn *ssa.Function, call *ssa.Call) {
	var status, now *ssa.Parameter
	for _, p := range fn.Params {
		switch {
		case isPtrToNamed(p.Type(), pkgAPI, "ExtendedDaemonSetReplicaSetStatus"):
			status = p
		case typeName(p.Type()) == "time.Time" || typeName(p.Type()) == pkgMetaV1+".Time":
			now = p
		}
	}
	pos := r.Prog.Pos(fn.Pos())
	if status == nil || now == nil {
		r.Undecided("C09.R3", "ramp origin", pos, shortFunc(fn), "unexpected signature of the start-time function")
		return
	}
	// call-site roles
	var clock *ssa.Parameter
	for _, p := range site.planner.Params {
		if typeName(p.Type()) == pkgMetaV1+".Time" || typeName(p.Type()) == "time.Time" {
			clock = p
		}
	}
	sroot, spath := accessPath(call.Call.Args[paramIndex(status)])
	_, rootIsParam := sroot.(*ssa.Parameter)
	okArgs := rootIsParam && len(spath) >= 2 && spath[len(spath)-1] == "Status" && spath[len(spath)-2] == "Replicaset" &&
		clock != nil && readsParam(call.Call.Args[paramIndex(now)], clock)
	r.Check("C09.R3", "ramp origin arguments", r.Prog.Pos(call.Pos()), shortFunc(site.planner),
		"the start-time function receives the replica set's status and the sync's clock value", okArgs,
		"status from "+pathString(call.Call.Args[paramIndex(status)])+", clock from "+pathString(call.Call.Args[paramIndex(now)]))

	active, _ := r.Prog.constStr(pkgAPI, "ConditionTypeActive")
	isActiveCond := func(v ssa.Value) bool {
		c, ok := isCallTo(v, fnERSCondGet)
		if !ok || len(c.Call.Args) != 2 || unwrap(c.Call.Args[0]) != ssa.Value(status) {
			return false
		}
		s, isS := constString(c.Call.Args[1])
		return isS && s == active
	}
	paths, _, ok := funcPaths(fn, 5000)
	r.paths += len(paths)
	if !ok {
		r.Undecided("C09.R3", "ramp origin", pos, shortFunc(fn), "path cap exceeded")
		return
	}
	nTransition := 0
	for _, p := range paths {
		ret := returnOf(p.Blocks[len(p.Blocks)-1])
		res := p.Resolve(ret.Results[0])
		rpos := r.Prog.Pos(instrPos(ret))
		if readsParam(res, now) {
			if root, pp := accessPath(res); root == ssa.Value(now) || len(pp) <= 1 {
				o := r.Check("C09.R3", "ramp origin: now on path ["+shortFacts(p)+"]", rpos, shortFunc(fn), "returning the clock value (ramp at its first step) is always allowed", true, "")
				o.Trivial = true
				continue
			}
		}
		root, pp := accessPath(res)
		isTrans := isActiveCond(root) && len(pp) >= 1 && pp[0] == "LastTransitionTime" && (len(pp) == 1 || (len(pp) == 2 && pp[1] == "Time"))
		condTrue := p.Has(true, func(v ssa.Value, _ string) bool {
			return isEqCompare(v, func(x ssa.Value) bool {
				rt, fp := accessPath(x)
				return isActiveCond(rt) && len(fp) == 1 && fp[0] == "Status"
			}, isConstStringVal("True"))
		})
		if isTrans {
			nTransition++
		}
		detail := "returns " + pathString(res) + " on path [" + shortFacts(p) + "]"
		r.Check("C09.R3", "ramp origin: "+strings.Join(pp, ".")+" on path ["+shortFacts(p)+"]", rpos, shortFunc(fn),
			"the ramp origin is the LastTransitionTime of the Active condition, used only while that condition is True", isTrans && condTrue, detail)
	}
	_ = nTransition
}

// ---------------------------------------------------------------------------------------------
// R5 / R6: sync spacing in the replica-set Reconcile

type syncSite struct {
	rec    *ssa.Function
	ff     *FuncFacts
	clock  *ssa.Alloc // the cell holding the sync's clock value
	rs     ssa.Value  // the replica set just read
	owner  ssa.Value  // the parent ExtendedDaemonSet
	podOps []*ssa.Call
}

// writesPods reports whether fn (or anything it reaches) writes pods through the client.
func writesPods(p *Prog, fn *ssa.Function, memo map[*ssa.Function]bool) bool {
	if v, ok := memo[fn]; ok {
		return v
	}
	res := false
	for _, e := range effectsOf(p.reachableFuncs(fn)) {
		if isWriteVerb(e.Verb) && e.Kind == pkgCoreV1+".Pod" {
			res = true
		}
	}
	memo[fn] = res
	return res
}

func c09Spacing(r *Run) {
	rec := r.Prog.Method(pkgERS, "Reconciler", "Reconcile")
	if rec == nil {
		r.Fatal("anchor (%s.Reconciler).Reconcile not found", pkgERS)
		return
	}
	ff := computeFacts(rec)
	k := ff.K
	memo := map[*ssa.Function]bool{}
	var podOps []*ssa.Call
	for _, ci := range callsIn(rec) {
		c, ok := ci.(*ssa.Call)
		if !ok {
			continue
		}
		if cal := staticCallee(&c.Call); cal != nil && r.Prog.IsRuleSite(cal) && writesPods(r.Prog, cal, memo) {
			podOps = append(podOps, c)
		}
	}
	if len(podOps) == 0 {
		r.Check("C09.R5", "pod operations", r.Prog.Pos(rec.Pos()), shortFunc(rec), "the replica-set Reconcile calls functions that write pods", false, "none found")
		return
	}
	lastFull, _ := r.Prog.constStr(pkgAPI, "ConditionTypeLastFullSync")

	// --- the spacing test: After(Add(cond.LastUpdateTime, freq), now) or Before(now, Add(...))
	type gate struct {
		call  *ssa.Call
		cond  ssa.Value // the LastFullSync condition value
		notes []string
	}
	var gates []*gate
	classify := func(c *ssa.Call) *gate {
		var next, now ssa.Value
		switch calleeName(&c.Call) {
		case "(time.Time).After":
			next, now = c.Call.Args[0], c.Call.Args[1]
		case "(time.Time).Before":
			next, now = c.Call.Args[1], c.Call.Args[0]
		default:
			return nil
		}
		add, ok := isCallTo(next, "(time.Time).Add")
		if !ok {
			return nil
		}
		lroot, lpath := accessPath(add.Call.Args[0])
		gc, ok := isCallTo(lroot, fnERSCondGet)
		if !ok {
			return nil
		}
		s, isS := constString(gc.Call.Args[1])
		if !isS || s != lastFull {
			return nil
		}
		g := &gate{call: c, cond: lroot}
		if len(lpath) == 0 || lpath[0] != "LastUpdateTime" {
			g.notes = append(g.notes, "the previous sync time is read from "+strings.Join(lpath, ".")+" instead of LastUpdateTime")
		}
		// the condition is read from the status of an object returned by a Get in this Reconcile
		sroot, spath := accessPath(gc.Call.Args[0])
		if len(spath) != 1 || spath[0] != "Status" || !isPtrToNamed(sroot.Type(), pkgAPI, "ExtendedDaemonSetReplicaSet") {
			g.notes = append(g.notes, "the condition is not read from the replica set's status")
		}
		proot, ppath := accessPath(add.Call.Args[1])
		if !isPtrToNamed(proot.Type(), pkgAPI, "ExtendedDaemonSet") || strings.Join(ppath, ".") != "Spec.Strategy.ReconcileFrequency.Duration" {
			g.notes = append(g.notes, "the period is "+pathString(add.Call.Args[1])+" instead of the owner's Spec.Strategy.ReconcileFrequency.Duration")
		}
		nroot, _ := accessPath(now)
		if _, isAlloc := nroot.(*ssa.Alloc); !isAlloc {
			g.notes = append(g.notes, "the reference time is not the sync's clock variable")
		}
		return g
	}
	for _, ci := range callsIn(rec) {
		if c, ok := ci.(*ssa.Call); ok {
			if g := classify(c); g != nil {
				gates = append(gates, g)
			}
		}
	}
	if len(gates) != 1 {
		r.Check("C09.R5", "spacing test", r.Prog.Pos(rec.Pos()), shortFunc(rec),
			"one test LastUpdateTime(LastFullSync) + ReconcileFrequency after/before now", false, fmt.Sprintf("%d candidate tests found", len(gates)))
		relaxFloors(r, "C09.R5")
		c09StatusWrite(r, rec, ff, podOps, nil, nil, lastFull)
		return
	}
	g := gates[0]
	gc, _ := isCallTo(g.cond, fnERSCondGet)
	rsRoot, _ := accessPath(gc.Call.Args[0])
	var clock *ssa.Alloc
	{
		var now ssa.Value
		if calleeName(&g.call.Call) == "(time.Time).After" {
			now = g.call.Call.Args[1]
		} else {
			now = g.call.Call.Args[0]
		}
		nroot, _ := accessPath(now)
		clock, _ = nroot.(*ssa.Alloc)
	}
	// the clock cell is written once, from time.Now()
	if clock != nil {
		n, fromNow := 0, true
		for _, rf := range refs(clock) {
			if st, ok := rf.(*ssa.Store); ok && st.Addr == ssa.Value(clock) {
				n++
				if !dependsOn(st.Val, func(x ssa.Value) bool {
					c, isC := x.(*ssa.Call)
					return isC && (calleeName(&c.Call) == "time.Now" || calleeName(&c.Call) == pkgMetaV1+".Now")
				}) {
					fromNow = false
				}
			}
		}
		if n != 1 || !fromNow {
			g.notes = append(g.notes, "the sync's clock variable is not assigned exactly once from time.Now()")
		}
	}
	r.Check("C09.R5", "spacing test operands", r.Prog.Pos(g.call.Pos()), shortFunc(rec),
		"the test compares LastUpdateTime of the LastFullSync condition of the replica set just read + owner.Spec.Strategy.ReconcileFrequency with the sync's clock value",
		len(g.notes) == 0, strings.Join(g.notes, "; "))

	// --- pass edges: the edges on which "condition absent" or "not (next after now)" is learned
	cut := map[[2]*ssa.BasicBlock]bool{}
	for _, b := range rec.Blocks {
		if len(b.Succs) != 2 || b.Succs[0] == b.Succs[1] {
			continue
		}
		for _, s := range b.Succs {
			for _, f := range k.edgeFacts(b, s) {
				if f.V == ssa.Value(g.call) && !f.Pol {
					cut[[2]*ssa.BasicBlock{b, s}] = true
				}
				if f.Pol && isNilCompareOf(f.V, func(x ssa.Value) bool { return x == g.cond }) {
					cut[[2]*ssa.BasicBlock{b, s}] = true
				}
			}
		}
	}
	for _, op := range podOps {
		free := entryReachesWithoutEdges(rec, op.Block(), cut)
		r.Check("C09.R5", "gated: call to "+shortFunc(staticCallee(&op.Call)), r.Prog.Pos(op.Pos()), shortFunc(rec),
			"a call that can write pods is reached only when the LastFullSync condition is absent or the reconcile period has elapsed", !free,
			map[bool]string{true: "the call can be reached on a path that takes neither passing outcome of the spacing test", false: ""}[free])
	}
	c09StatusWrite(r, rec, ff, podOps, clock, rsRoot, lastFull)
}

// c09StatusWrite checks R6.
func c09StatusWrite(r *Run, rec *ssa.Function, ff *FuncFacts, podOps []*ssa.Call, clock *ssa.Alloc, rs ssa.Value, lastFull string) {
	k := ff.K
	// status writers: callees that perform Status().Update on a replica set
	isStatusWriter := func(fn *ssa.Function) bool {
		for _, e := range effectsOf(r.Prog.reachableFuncs(fn)) {
			if e.Status && isWriteVerb(e.Verb) && e.Kind == pkgAPI+".ExtendedDaemonSetReplicaSet" {
				return true
			}
		}
		return false
	}
	type upd struct {
		call  *ssa.Call
		notes []string
	}
	var updates []*upd
	var writes []*ssa.Call
	for _, ci := range callsIn(rec) {
		c, ok := ci.(*ssa.Call)
		if !ok {
			continue
		}
		if calleeName(&c.Call) == fnERSCondUpdate && len(c.Call.Args) == 8 {
			if s, isS := constString(c.Call.Args[2]); isS && s == lastFull {
				u := &upd{call: c}
				nroot, _ := accessPath(c.Call.Args[1])
				if clock == nil || nroot != ssa.Value(clock) {
					u.notes = append(u.notes, "the time written is not the sync's clock value")
				}
				st, isS := constString(c.Call.Args[3])
				wf, isB := constBool(c.Call.Args[6])
				if !(isS && st == "True") && !(isB && wf) {
					u.notes = append(u.notes, "the condition would not be created when absent (status is not the constant True)")
				}
				if su, isB := constBool(c.Call.Args[7]); !isB || !su {
					u.notes = append(u.notes, "supportLastUpdate is not true: LastUpdateTime is not refreshed")
				}
				updates = append(updates, u)
			}
			continue
		}
		if cal := staticCallee(&c.Call); cal != nil && r.Prog.IsRuleSite(cal) && isStatusWriter(cal) {
			writes = append(writes, c)
		}
	}
	isRet := func(in ssa.Instruction) bool { _, ok := in.(*ssa.Return); return ok }
	validUpdate := func(in ssa.Instruction) bool {
		for _, u := range updates {
			if ssa.Instruction(u.call) == in && len(u.notes) == 0 {
				return true
			}
		}
		return false
	}
	for _, op := range podOps {
		esc := reachAvoiding(op, isRet, validUpdate)
		detail := ""
		if esc != nil {
			detail = "the return at " + r.Prog.Pos(instrPos(esc)) + " can be reached without updating LastFullSync"
			for _, u := range updates {
				if len(u.notes) > 0 {
					detail += "; update at " + r.Prog.Pos(u.call.Pos()) + ": " + strings.Join(u.notes, "; ")
				}
			}
		}
		r.Check("C09.R6", "LastFullSync updated after call to "+shortFunc(staticCallee(&op.Call)), r.Prog.Pos(op.Pos()), shortFunc(rec),
			"every path from a pod-writing call to a return updates the LastFullSync condition with the sync's clock value, status True and supportLastUpdate=true", esc == nil, detail)
	}
	for _, u := range updates {
		statusKey := k.key(u.call.Call.Args[0])
		isWrite := func(in ssa.Instruction) bool {
			for _, w := range writes {
				if ssa.Instruction(w) != in {
					continue
				}
				hasStatus, hasRS := false, rs == nil
				for _, a := range w.Call.Args {
					if k.key(a) == statusKey {
						hasStatus = true
					}
					if rs != nil && a == rs {
						hasRS = true
					}
				}
				return hasStatus && hasRS
			}
			return false
		}
		esc := reachAvoiding(u.call, isRet, isWrite)
		detail := ""
		if esc != nil {
			detail = "the return at " + r.Prog.Pos(instrPos(esc)) + " can be reached without writing the updated status of the replica set that the spacing test reads"
		}
		r.Check("C09.R6", "status written after the LastFullSync update", r.Prog.Pos(u.call.Pos()), shortFunc(rec),
			"every path from the LastFullSync update to a return writes that status object (Status().Update of the replica set just read)", esc == nil, detail)
	}
	if len(updates) == 0 {
		r.Check("C09.R6", "LastFullSync update", r.Prog.Pos(rec.Pos()), shortFunc(rec), "the Reconcile updates the LastFullSync condition", false, "no such call")
	}
	c09Updater(r)
}

// c09Updater checks the condition updater: with supportLastUpdate the stored LastUpdateTime is the
// `now` argument when the condition exists, and a new condition carries it as LastUpdateTime.
func c09Updater(r *Run) {
	fn := r.Prog.Func(pkgERSCond, "UpdateExtendedDaemonSetReplicaSetStatusCondition")
	if fn == nil || len(fn.Params) != 8 {
		r.Fatal("anchor %s not found or unexpected signature", fnERSCondUpdate)
		return
	}
	now, support := fn.Params[1], fn.Params[7]
	paths, _, ok := funcPaths(fn, 5000)
	r.paths += len(paths)
	if !ok {
		r.Undecided("C09.R6", "updater", r.Prog.Pos(fn.Pos()), shortFunc(fn), "path cap exceeded")
		return
	}
	// new-condition constructor: field LastUpdateTime <- its time parameter
	ctorOK := func(c *ssa.Call) bool {
		cal := staticCallee(&c.Call)
		if cal == nil {
			return false
		}
		var tparam *ssa.Parameter
		idx := -1
		for i, a := range c.Call.Args {
			if readsParam(a, now) || a == ssa.Value(now) {
				idx = i
			}
		}
		if idx < 0 || idx >= len(cal.Params) {
			return false
		}
		tparam = cal.Params[idx]
		for _, b := range cal.Blocks {
			for _, in := range b.Instrs {
				if st, isSt := in.(*ssa.Store); isSt {
					if fa, isFA := st.Addr.(*ssa.FieldAddr); isFA && fieldName(fa) == "LastUpdateTime" && readsParam(st.Val, tparam) {
						return true
					}
				}
			}
		}
		return false
	}
	nExist, nNew := 0, 0
	okExist, okNew := true, true
	for _, p := range paths {
		supp := p.Has(true, func(v ssa.Value, _ string) bool { return v == ssa.Value(support) })
		stored, appended, created := false, false, false
		for _, b := range p.Blocks {
			for _, in := range b.Instrs {
				switch x := in.(type) {
				case *ssa.Store:
					if fa, isFA := x.Addr.(*ssa.FieldAddr); isFA && fieldName(fa) == "LastUpdateTime" && readsParam(x.Val, now) {
						if _, isIdx := fa.X.(*ssa.IndexAddr); isIdx {
							stored = true
						}
					}
				case *ssa.Call:
					if builtinCall(x, "append") != nil {
						appended = true
					} else if cal := staticCallee(&x.Call); cal != nil && r.Prog.IsRuleSite(cal) && ctorOK(x) {
						created = true
					}
				}
			}
		}
		if appended {
			nNew++
			if !created {
				okNew = false
			}
			continue
		}
		// paths that neither store nor append: condition absent and not created (status != True, no write flag)
		exists := p.Has(false, func(v ssa.Value, key string) bool {
			bo, isBo := v.(*ssa.BinOp)
			return isBo && (bo.Op == token.GEQ || bo.Op == token.LSS) && strings.HasSuffix(key, "<c:0)")
		})
		if exists && supp {
			nExist++
			if !stored {
				okExist = false
			}
		}
	}
	r.Check("C09.R6", "updater refreshes LastUpdateTime", r.Prog.Pos(fn.Pos()), shortFunc(fn),
		"with supportLastUpdate, an existing condition gets LastUpdateTime = now on every path", okExist && nExist > 0, fmt.Sprintf("%d path(s) with an existing condition", nExist))
	r.Check("C09.R6", "updater creates the condition with now", r.Prog.Pos(fn.Pos()), shortFunc(fn),
		"a newly appended condition carries now as LastUpdateTime", okNew && nNew > 0, fmt.Sprintf("%d appending path(s)", nNew))
}

func runC09(r *Run) {
	r.RuleDoc("C09.R1", "creations per sync <= len-capped creation budget <= max(0, MaxPodCreation); MaxPodCreation comes from the ramp function")
	r.RuleDoc("C09.R2", "ramp result <= max(0, *MaxParallelPodCreation) and <= (1+slots)*increase")
	r.RuleDoc("C09.R3", "operand roles of the ramp: increase, elapsed time, interval, ramp origin")
	r.RuleDoc("C09.R4", "deletions per sync <= max(0, MaxUnavailablePod)")
	r.RuleDoc("C09.R5", "every pod-writing call of the replica-set Reconcile is behind the spacing test")
	r.RuleDoc("C09.R6", "LastFullSync is refreshed with the sync's clock value and the status written on every path after a pod-writing call")
	r.Floor("C09.R1", 4)
	r.Floor("C09.R2", 4)
	r.Floor("C09.R3", 5)
	r.Floor("C09.R4", 3)
	r.Floor("C09.R5", 4)
	r.Floor("C09.R6", 6)
	r.NotCovered("that floor(t/interval) is computed with non-negative t (clock skew between syncs); spacing when a status write fails or is lost (excluded by the statement); the one-second resolution of stored timestamps; that the node count passed to the ramp equals the eligible nodes (C01); positivity of the interval (C16.R4); which nodes are creation candidates and that one Create is issued per element (C01.R4); other controllers' reconciles")

	planner := r.Prog.Func(pkgStrategy, "ManageDeployment")
	if planner == nil {
		r.Fatal("anchor %s.ManageDeployment not found", pkgStrategy)
		return
	}
	site := plannerCut(r, "C09.R1", planner, "PodsToCreate")
	if site != nil {
		limitsClamp(r, "C09.R1", site.limits, site.idx, "MaxPodCreation")
		c09Ramp(r, site)
	} else {
		relaxFloors(r, "C09.R1", "C09.R2", "C09.R3")
	}
	del := plannerCut(r, "C09.R4", planner, "PodsToDelete")
	if del != nil {
		limitsClamp(r, "C09.R4", del.limits, del.idx, "MaxUnavailablePod")
	} else {
		relaxFloors(r, "C09.R4")
	}
	c09Spacing(r)
}
