package main

// C09 — pod creation is rate limited by slow start and syncs are spaced.

import (
	"fmt"
	"go/token"
	"go/types"
	"sort"
	"strings"

	"golang.org/x/tools/go/ssa"
)

func init() {
	register("C09", "Decides: (R1) the rolling-update planner stores Result.PodsToCreate only as candidates[:k] with k <= the creation result of the limits function, which is >= 0 and <= max(0, MaxPodCreation) on every return, and MaxPodCreation is filled from the ramp function; (R2) every return of the ramp function is <= max(0, *MaxParallelPodCreation) and <= a ramp term whose polynomial normal form over {increase, slots} is coefficient-wise <= increase + increase*slots, i.e. (1 + slots)*increase; (R3) operand roles of the ramp: increase = GetValueFromIntOrPercent(SlowStartAdditiveIncrease, number of targeted nodes, round up), slots = (now - start) / SlowStartIntervalDuration with now the sync's clock value and start the result of the start-time function, which returns either now or the LastTransitionTime of the replica set's Active condition and the latter only when that condition is True; (R4) deletions per sync <= max(0, MaxUnavailablePod) (same checks as C03.R1/R5) and the MaxUnavailablePod input is exactly GetValueFromIntOrPercent(RollingUpdate.MaxUnavailable, number of targeted nodes, round up), directly or through a helper returning it; (R5) in the replica-set Reconcile every call that can write pods is reachable only through the spacing test (LastFullSync condition absent, or not LastUpdateTime(LastFullSync of the replica set just read) + owner.Spec.Strategy.ReconcileFrequency after the sync's clock value); (R6) from every such call, every path to a return passes the update of the LastFullSync condition (sync's clock value, status True, supportLastUpdate=true) and then the status write of the same status object; the condition updater stores that time as LastUpdateTime.", runC09)
}

const (
	fnERSCondGet    = pkgERSCond + ".GetExtendedDaemonSetReplicaSetStatusCondition"
	fnERSCondUpdate = pkgERSCond + ".UpdateExtendedDaemonSetReplicaSetStatusCondition"
)

// poly is a polynomial with integer coefficients over named leaves: monomial ("" = constant,
// otherwise sorted leaf names joined by "*") -> coefficient.
type poly map[string]int64

func polyMul(a, b poly) poly {
	out := poly{}
	for ma, ca := range a {
		for mb, cb := range b {
			var parts []string
			if ma != "" {
				parts = append(parts, strings.Split(ma, "*")...)
			}
			if mb != "" {
				parts = append(parts, strings.Split(mb, "*")...)
			}
			sort.Strings(parts)
			out[strings.Join(parts, "*")] += ca * cb
		}
	}
	return out
}

func (p poly) String() string {
	var ms []string
	for m, c := range p {
		if c != 0 {
			ms = append(ms, m)
		}
	}
	sort.Strings(ms)
	var out []string
	for _, m := range ms {
		if m == "" {
			out = append(out, fmt.Sprint(p[m]))
		} else if p[m] == 1 {
			out = append(out, m)
		} else {
			out = append(out, fmt.Sprintf("%d*%s", p[m], m))
		}
	}
	if len(out) == 0 {
		return "0"
	}
	return strings.Join(out, " + ")
}

// polyOf normalises an integer expression built from +, -, * over leaves and constants.
func polyOf(v ssa.Value, leaf func(ssa.Value) (string, bool), depth int) (poly, bool) {
	if depth > 24 {
		return nil, false
	}
	if n, ok := leaf(v); ok {
		return poly{n: 1}, true
	}
	v = stripIntConv(v)
	if n, ok := leaf(v); ok {
		return poly{n: 1}, true
	}
	if c, ok := constInt(v); ok {
		return poly{"": c}, true
	}
	bo, ok := v.(*ssa.BinOp)
	if !ok {
		return nil, false
	}
	a, ok1 := polyOf(bo.X, leaf, depth+1)
	b, ok2 := polyOf(bo.Y, leaf, depth+1)
	if !ok1 || !ok2 {
		return nil, false
	}
	switch bo.Op {
	case token.ADD, token.SUB:
		out := poly{}
		for m, c := range a {
			out[m] += c
		}
		for m, c := range b {
			if bo.Op == token.ADD {
				out[m] += c
			} else {
				out[m] -= c
			}
		}
		return out, true
	case token.MUL:
		return polyMul(a, b), true
	}
	return nil, false
}

// rampSite describes the ramp function and the roles of its operands.
type rampSite struct {
	fn       *ssa.Function
	call     *ssa.Call // call in the planner
	increase *ssa.Extract
	quo      *ssa.BinOp
}

// paramCopyRoot reports whether v is read from parameter p (directly or through p's local copy).
func readsParam(v ssa.Value, p *ssa.Parameter) bool {
	root, _ := accessPath(v)
	if root == ssa.Value(p) {
		return true
	}
	if a, ok := root.(*ssa.Alloc); ok {
		n := 0
		for _, rf := range refs(a) {
			if st, ok := rf.(*ssa.Store); ok && st.Addr == ssa.Value(a) {
				n++
				if st.Val != ssa.Value(p) {
					return false
				}
			}
		}
		return n == 1
	}
	return false
}

func c09Ramp(r *Run, site *cutSite) {
	fn := site.planner
	slots, why := slotValues(site.call)
	pos := r.Prog.Pos(site.call.Pos())
	if slots == nil {
		r.Undecided("C09.R1", "slot MaxPodCreation", pos, shortFunc(fn), why)
		relaxFloors(r, "C09.R2", "C09.R3")
		return
	}
	mc := slots["MaxPodCreation"]
	var rampCall *ssa.Call
	if mc != nil {
		if e, ok := stripIntConv(mc).(*ssa.Extract); ok && e.Index == 0 {
			if c, ok := e.Tuple.(*ssa.Call); ok {
				if cal := staticCallee(&c.Call); cal != nil && r.Prog.IsRuleSite(cal) {
					rampCall = c
				}
			}
		}
	}
	r.Check("C09.R1", "slot MaxPodCreation", pos, shortFunc(fn), "MaxPodCreation is the first result of the slow-start ramp function", rampCall != nil,
		func() string {
			if mc == nil {
				return "the field is left at zero"
			}
			return "filled from " + mc.String()
		}())
	if rampCall == nil {
		relaxFloors(r, "C09.R2", "C09.R3")
		return
	}
	g := staticCallee(&rampCall.Call)
	ff := computeFacts(g)
	bp := &bprover{ff: ff, descend: r.Prog.IsRuleSite}

	// --- operand discovery inside the ramp function
	var spec *ssa.Parameter
	for _, p := range g.Params {
		if isPtrToNamed(p.Type(), pkgAPI, "ExtendedDaemonSetSpecStrategyRollingUpdate") {
			spec = p
		}
	}
	if spec == nil {
		r.Undecided("C09.R3", "ramp operands", r.Prog.Pos(g.Pos()), shortFunc(g), "the ramp function has no *ExtendedDaemonSetSpecStrategyRollingUpdate parameter")
		relaxFloors(r, "C09.R2", "C09.R3")
		return
	}
	isSpecField := func(v ssa.Value, fields ...string) bool {
		root, p := accessPath(v)
		if root != ssa.Value(spec) || len(p) != len(fields) {
			return false
		}
		for i := range p {
			if p[i] != fields[i] {
				return false
			}
		}
		return true
	}
	var increase *ssa.Extract
	var quo *ssa.BinOp
	for _, b := range g.Blocks {
		for _, in := range b.Instrs {
			switch x := in.(type) {
			case *ssa.Extract:
				if c, ok := isResultOf(x, fnGetValueFromIntOrPct, 0); ok && len(c.Call.Args) == 3 && isSpecField(c.Call.Args[0], "SlowStartAdditiveIncrease") {
					increase = x
				}
			case *ssa.BinOp:
				if x.Op == token.QUO && isSpecField(x.Y, "SlowStartIntervalDuration", "Duration") {
					quo = x
				}
			}
		}
	}
	isMaxParallel := func(v ssa.Value) bool {
		v = stripIntConv(v)
		return isIntegerType(v.Type()) && isSpecField(v, "MaxParallelPodCreation")
	}
	leaf := func(v ssa.Value) (string, bool) {
		if increase != nil && v == ssa.Value(increase) {
			return "increase", true
		}
		if quo != nil && stripIntConv(v) == ssa.Value(quo) {
			return "slots", true
		}
		return "", false
	}
	ref := poly{"increase": 1, "increase*slots": 1}

	// --- R2: every return
	for i, ret := range returnsOf(g) {
		v := ret.Results[0]
		rpos := r.Prog.Pos(instrPos(ret))
		fs := ff.At(ret.Block())
		capOK := bp.le(v, bp.root(), fs, func(x ssa.Value, fr *bframe) bool { return fr.up == nil && isMaxParallel(x) }, true, 0)
		r.Check("C09.R2", fmt.Sprintf("result <= max(0, MaxParallelPodCreation) at return-%d", i+1), rpos, shortFunc(g),
			"the ramp result never exceeds *MaxParallelPodCreation", capOK, "proved from the clamp structure of "+v.Name())
		var seen []string
		rampOK := bp.le(v, bp.root(), fs, func(x ssa.Value, fr *bframe) bool {
			if fr.up != nil {
				return false
			}
			p, ok := polyOf(x, leaf, 0)
			if !ok {
				return false
			}
			seen = append(seen, p.String())
			for m, c := range p {
				if c > ref[m] {
					return false
				}
			}
			return true
		}, true, 0)
		detail := "ramp term: " + strings.Join(uniq(seen), " | ")
		if increase == nil || quo == nil {
			detail = fmt.Sprintf("operands not found: increase=%v slots=%v", increase != nil, quo != nil)
		}
		o := r.Check("C09.R2", fmt.Sprintf("result <= (1+slots)*increase at return-%d", i+1), rpos, shortFunc(g),
			"the ramp result never exceeds increase + increase*slots (polynomial normal form, coefficient-wise)", rampOK, detail)
		if c, isC := constInt(v); isC && c <= 0 {
			o.Trivial = true
		}
	}

	// --- R3: operand roles
	gpos := r.Prog.Pos(g.Pos())
	// increase: resolved against the parameter that receives the planner's node count, rounding up
	nb := slots["NbNodes"]
	okInc := false
	detail := "no GetValueFromIntOrPercent(SlowStartAdditiveIncrease, …) call"
	if increase != nil {
		c := increase.Tuple.(*ssa.Call)
		tp, isP := stripIntConv(c.Call.Args[1]).(*ssa.Parameter)
		up, isB := constBool(c.Call.Args[2])
		switch {
		case !isP:
			detail = "percentage resolved against " + c.Call.Args[1].String() + ", not against a parameter of the ramp function"
		case nb == nil || site.ff.K.key(stripIntConv(rampCall.Call.Args[paramIndex(tp)])) != site.ff.K.key(stripIntConv(nb)):
			detail = "the planner passes " + rampCall.Call.Args[paramIndex(tp)].String() + " as the total, which is not the number of targeted nodes (the NbNodes value)"
		case !isB || !up:
			detail = "not rounded up"
		default:
			okInc = true
			detail = ""
		}
		gpos = r.Prog.Pos(c.Pos())
	}
	r.Check("C09.R3", "increase operand", gpos, shortFunc(g), "increase = GetValueFromIntOrPercent(SlowStartAdditiveIncrease, number of targeted nodes, round up)", okInc, detail)

	// slots: (now - start) / interval
	okQuo := false
	detail = "no division by SlowStartIntervalDuration.Duration"
	var startFn *ssa.Function
	var startCall *ssa.Call
	gpos = r.Prog.Pos(g.Pos())
	if quo != nil {
		gpos = r.Prog.Pos(quo.Pos())
		sub, isSub := isCallTo(quo.X, "(time.Time).Sub")
		if !isSub {
			detail = "the dividend is not a time difference: " + quo.X.String()
		} else {
			a, isA := sub.Call.Args[0].(*ssa.Parameter)
			b, isB := sub.Call.Args[1].(*ssa.Parameter)
			if !isA || !isB {
				detail = "the time difference is not taken between two parameters of the ramp function"
			} else {
				nowArg := rampCall.Call.Args[paramIndex(a)]
				startArg := rampCall.Call.Args[paramIndex(b)]
				var clock *ssa.Parameter
				for _, p := range fn.Params {
					if typeName(p.Type()) == pkgMetaV1+".Time" || typeName(p.Type()) == "time.Time" {
						clock = p
					}
				}
				sc, isCall := startArg.(*ssa.Call)
				switch {
				case clock == nil || !readsParam(nowArg, clock):
					detail = "the minuend is not the sync's clock value (the planner's time parameter)"
				case !isCall || staticCallee(&sc.Call) == nil || !r.Prog.IsRuleSite(staticCallee(&sc.Call)):
					detail = "the subtrahend is not the result of the start-time function: " + startArg.String()
				default:
					okQuo = true
					detail = ""
					startFn = staticCallee(&sc.Call)
					startCall = sc
				}
			}
		}
	}
	r.Check("C09.R3", "slots operand", gpos, shortFunc(g), "slots = (sync's clock value - ramp start) / SlowStartIntervalDuration", okQuo, detail)
	if startFn == nil {
		relaxFloors(r, "C09.R3")
		return
	}
	c09StartTime(r, site, startFn, startCall)
}

// c09StartTime checks the start-time function: it returns its clock parameter, or the
// LastTransitionTime of the Active condition of the status it is given, the latter only when the
// condition is True; and the planner passes the replica set's status and the sync's clock value.
func c09StartTime(r *Run, site *cutSite, fn *ssa.Function, call *ssa.Call) {
	var status, now *ssa.Parameter
	for _, p := range fn.Params {
		switch {
		case isPtrToNamed(p.Type(), pkgAPI, "ExtendedDaemonSetReplicaSetStatus"):
			status = p
		case typeName(p.Type()) == "time.Time" || typeName(p.Type()) == pkgMetaV1+".Time":
			now = p
		}
	}
	pos := r.Prog.Pos(fn.Pos())
	if status == nil || now == nil {
		r.Undecided("C09.R3", "ramp origin", pos, shortFunc(fn), "unexpected signature of the start-time function")
		return
	}
	// call-site roles
	var clock *ssa.Parameter
	for _, p := range site.planner.Params {
		if typeName(p.Type()) == pkgMetaV1+".Time" || typeName(p.Type()) == "time.Time" {
			clock = p
		}
	}
	sroot, spath := accessPath(call.Call.Args[paramIndex(status)])
	_, rootIsParam := sroot.(*ssa.Parameter)
	okArgs := rootIsParam && len(spath) >= 2 && spath[len(spath)-1] == "Status" && spath[len(spath)-2] == "Replicaset" &&
		clock != nil && readsParam(call.Call.Args[paramIndex(now)], clock)
	r.Check("C09.R3", "ramp origin arguments", r.Prog.Pos(call.Pos()), shortFunc(site.planner),
		"the start-time function receives the replica set's status and the sync's clock value", okArgs,
		"status from "+pathString(call.Call.Args[paramIndex(status)])+", clock from "+pathString(call.Call.Args[paramIndex(now)]))

	active, _ := r.Prog.constStr(pkgAPI, "ConditionTypeActive")
	isActiveCond := func(v ssa.Value) bool {
		c, ok := isCallTo(v, fnERSCondGet)
		if !ok || len(c.Call.Args) != 2 || unwrap(c.Call.Args[0]) != ssa.Value(status) {
			return false
		}
		s, isS := constString(c.Call.Args[1])
		return isS && s == active
	}
	paths, _, ok := funcPaths(fn, 5000)
	r.paths += len(paths)
	if !ok {
		r.Undecided("C09.R3", "ramp origin", pos, shortFunc(fn), "path cap exceeded")
		return
	}
	nTransition := 0
	for _, p := range paths {
		ret := returnOf(p.Blocks[len(p.Blocks)-1])
		res := p.Resolve(ret.Results[0])
		rpos := r.Prog.Pos(instrPos(ret))
		if readsParam(res, now) {
			if root, pp := accessPath(res); root == ssa.Value(now) || len(pp) <= 1 {
				o := r.Check("C09.R3", "ramp origin: now on path ["+shortFacts(p)+"]", rpos, shortFunc(fn), "returning the clock value (ramp at its first step) is always allowed", true, "")
				o.Trivial = true
				continue
			}
		}
		root, pp := accessPath(res)
		isTrans := isActiveCond(root) && len(pp) >= 1 && pp[0] == "LastTransitionTime" && (len(pp) == 1 || (len(pp) == 2 && pp[1] == "Time"))
		condTrue := p.Has(true, func(v ssa.Value, _ string) bool {
			return isEqCompare(v, func(x ssa.Value) bool {
				rt, fp := accessPath(x)
				return isActiveCond(rt) && len(fp) == 1 && fp[0] == "Status"
			}, isConstStringVal("True"))
		})
		if isTrans {
			nTransition++
		}
		detail := "returns " + pathString(res) + " on path [" + shortFacts(p) + "]"
		r.Check("C09.R3", "ramp origin: "+strings.Join(pp, ".")+" on path ["+shortFacts(p)+"]", rpos, shortFunc(fn),
			"the ramp origin is the LastTransitionTime of the Active condition, used only while that condition is True", isTrans && condTrue, detail)
	}
	_ = nTransition
}

// ---------------------------------------------------------------------------------------------
// R5 / R6: sync spacing in the replica-set Reconcile

// writesPods reports whether fn (or anything it reaches) writes pods through the client.
func writesPods(p *Prog, fn *ssa.Function, memo map[*ssa.Function]bool) bool {
	if v, ok := memo[fn]; ok {
		return v
	}
	res := false
	for _, e := range effectsOf(p.reachableFuncs(fn)) {
		if isWriteVerb(e.Verb) && e.Kind == pkgCoreV1+".Pod" {
			res = true
		}
	}
	memo[fn] = res
	return res
}

// rootLeaves traces the object a value is read from (the root of its access path: a local variable,
// a parameter, a call result) back to its provenance leaves across call sites.
func rootLeaves(tr *ipTracer, v ssa.Value, fn *ssa.Function) []ipLeaf {
	root, _ := accessPath(v)
	if a, ok := root.(*ssa.Alloc); ok {
		var out []ipLeaf
		n := 0
		for _, rf := range refs(a) {
			if st, ok := rf.(*ssa.Store); ok && st.Addr == ssa.Value(a) {
				out = append(out, tr.trace(st.Val, fn)...)
				n++
			}
		}
		if n > 0 {
			return out
		}
		return []ipLeaf{{v: a, fn: fn}}
	}
	return tr.trace(root, fn)
}

func sameLeaves(a, b []ipLeaf) bool {
	if len(a) == 0 || len(b) == 0 {
		return false
	}
	in := func(x ipLeaf, ys []ipLeaf) bool {
		for _, y := range ys {
			if x.v == y.v {
				return true
			}
		}
		return false
	}
	for _, x := range a {
		if !in(x, b) {
			return false
		}
	}
	for _, y := range b {
		if !in(y, a) {
			return false
		}
	}
	return true
}

// c09Gate is the spacing test found in the code reachable from the Reconcile.
type c09Gate struct {
	fn    *ssa.Function // function containing the test
	call  *ssa.Call     // After/Before call
	cond  ssa.Value     // the LastFullSync condition value
	clock []ipLeaf      // provenance of the reference time
	rs    []ipLeaf      // provenance of the replica set whose status is read
	notes []string
}

func c09Spacing(r *Run) {
	rec := r.Prog.Method(pkgERS, "Reconciler", "Reconcile")
	if rec == nil {
		r.Fatal("anchor (%s.Reconciler).Reconcile not found", pkgERS)
		return
	}
	reach := r.Prog.reachableFuncs(rec)
	tr := &ipTracer{reach: reach, depth: 8}
	ff := computeFacts(rec)
	k := ff.K
	memo := map[*ssa.Function]bool{}
	var podOps []*ssa.Call
	for _, ci := range callsIn(rec) {
		c, ok := ci.(*ssa.Call)
		if !ok {
			continue
		}
		if cal := staticCallee(&c.Call); cal != nil && r.Prog.IsRuleSite(cal) && writesPods(r.Prog, cal, memo) {
			podOps = append(podOps, c)
		}
	}
	if len(podOps) == 0 {
		r.Check("C09.R5", "pod operations", r.Prog.Pos(rec.Pos()), shortFunc(rec), "the replica-set Reconcile calls functions that write pods", false, "none found")
		return
	}
	lastFull, _ := r.Prog.constStr(pkgAPI, "ConditionTypeLastFullSync")
	isClockSource := func(v ssa.Value) bool {
		return dependsOn(v, func(x ssa.Value) bool {
			c, isC := x.(*ssa.Call)
			return isC && (calleeName(&c.Call) == "time.Now" || calleeName(&c.Call) == pkgMetaV1+".Now")
		})
	}

	// --- the spacing test: After(Add(cond.LastUpdateTime, freq), now) or Before(now, Add(...)), in the
	// Reconcile itself or in a helper it reaches
	classify := func(fn *ssa.Function, c *ssa.Call) *c09Gate {
		var next, now ssa.Value
		switch calleeName(&c.Call) {
		case "(time.Time).After":
			next, now = c.Call.Args[0], c.Call.Args[1]
		case "(time.Time).Before":
			next, now = c.Call.Args[1], c.Call.Args[0]
		default:
			return nil
		}
		add, ok := isCallTo(next, "(time.Time).Add")
		if !ok {
			return nil
		}
		lroot, lpath := accessPath(add.Call.Args[0])
		gc, ok := isCallTo(lroot, fnERSCondGet)
		if !ok {
			return nil
		}
		s, isS := constString(gc.Call.Args[1])
		if !isS || s != lastFull {
			return nil
		}
		g := &c09Gate{fn: fn, call: c, cond: lroot}
		if len(lpath) == 0 || lpath[0] != "LastUpdateTime" {
			g.notes = append(g.notes, "the previous sync time is read from "+strings.Join(lpath, ".")+" instead of LastUpdateTime")
		}
		sroot, spath := accessPath(gc.Call.Args[0])
		if len(spath) != 1 || spath[0] != "Status" || !isPtrToNamed(sroot.Type(), pkgAPI, "ExtendedDaemonSetReplicaSet") {
			g.notes = append(g.notes, "the condition is not read from the replica set's status")
		}
		g.rs = tr.trace(sroot, fn)
		proot, ppath := accessPath(add.Call.Args[1])
		if !isPtrToNamed(proot.Type(), pkgAPI, "ExtendedDaemonSet") || strings.Join(ppath, ".") != "Spec.Strategy.ReconcileFrequency.Duration" {
			g.notes = append(g.notes, "the period is "+pathString(add.Call.Args[1])+" instead of the owner's Spec.Strategy.ReconcileFrequency.Duration")
		}
		g.clock = rootLeaves(tr, now, fn)
		okClock := len(g.clock) == 1 && g.clock[0].fn == rec && isClockSource(g.clock[0].v)
		if !okClock {
			g.notes = append(g.notes, "the reference time is not the Reconcile's single clock read (time.Now()): "+describeLeaves(g.clock))
		}
		return g
	}
	var gates []*c09Gate
	for _, fn := range sortedFuncs(reach) {
		if !r.Prog.IsRuleSite(fn) {
			continue
		}
		for _, ci := range callsIn(fn) {
			if c, ok := ci.(*ssa.Call); ok {
				if g := classify(fn, c); g != nil {
					gates = append(gates, g)
				}
			}
		}
	}
	if len(gates) != 1 {
		r.Check("C09.R5", "spacing test", r.Prog.Pos(rec.Pos()), shortFunc(rec),
			"one test LastUpdateTime(LastFullSync) + ReconcileFrequency after/before now in the code reachable from the Reconcile", false, fmt.Sprintf("%d candidate tests found", len(gates)))
		relaxFloors(r, "C09.R5")
		c09StatusWrite(r, rec, reach, tr, nil, lastFull, isClockSource)
		return
	}
	g := gates[0]
	r.Check("C09.R5", "spacing test operands", r.Prog.Pos(g.call.Pos()), shortFunc(g.fn),
		"the test compares LastUpdateTime of the LastFullSync condition of the replica set just read + owner.Spec.Strategy.ReconcileFrequency with the sync's clock value",
		len(g.notes) == 0, strings.Join(g.notes, "; "))

	// isPassFact: the fact lets the sync proceed (condition absent, or period elapsed)
	isPassFact := func(f Fact) bool {
		if f.V == ssa.Value(g.call) && !f.Pol {
			return true
		}
		return f.Pol && isNilCompareOf(f.V, func(x ssa.Value) bool { return x == g.cond })
	}
	cut := map[[2]*ssa.BasicBlock]bool{}
	if g.fn == rec {
		for _, b := range rec.Blocks {
			if len(b.Succs) != 2 || b.Succs[0] == b.Succs[1] {
				continue
			}
			for _, s := range b.Succs {
				for _, f := range k.edgeFacts(b, s) {
					if isPassFact(f) {
						cut[[2]*ssa.BasicBlock{b, s}] = true
					}
				}
			}
		}
	} else {
		// the test lives in a helper: read off which boolean result value the helper can return on a
		// path that carries no passing fact (a "blocking" value); in the Reconcile the passing edges
		// are those on which the helper's result is known to differ from every blocking value.
		h := g.fn
		sites := callSitesOf(h, map[*ssa.Function]bool{rec: true})
		paths, _, ok := funcPaths(h, 5000)
		r.paths += len(paths)
		found := false
		why := "the helper " + shortFunc(h) + " holding the spacing test is not called from the Reconcile"
		if len(sites) > 0 && ok {
			why = "no boolean result of " + shortFunc(h) + " separates the passing outcomes of the spacing test from the blocking one"
			res := h.Signature.Results()
			for j := 0; j < res.Len() && !found; j++ {
				if b, isB := res.At(j).Type().Underlying().(*types.Basic); !isB || b.Kind() != types.Bool {
					continue
				}
				blocking := map[bool]bool{}
				unknown := false
				for _, p := range paths {
					pass := false
					for _, f := range p.Facts {
						if isPassFact(f) {
							pass = true
						}
					}
					if pass {
						continue
					}
					ret := returnOf(p.Blocks[len(p.Blocks)-1])
					if bv, isC := constBool(p.Resolve(ret.Results[j])); isC {
						blocking[bv] = true
					} else {
						unknown = true
					}
				}
				if unknown || len(blocking) != 1 {
					continue
				}
				var blockVal bool
				for v := range blocking {
					blockVal = v
				}
				found = true
				for _, cs := range sites {
					var resVal ssa.Value
					if res.Len() == 1 {
						resVal, _ = cs.(*ssa.Call)
					} else if c, isCall := cs.(*ssa.Call); isCall {
						for _, rf := range refs(c) {
							if e, isE := rf.(*ssa.Extract); isE && e.Index == j {
								resVal = e
							}
						}
					}
					if resVal == nil {
						continue
					}
					for _, b := range rec.Blocks {
						if len(b.Succs) != 2 || b.Succs[0] == b.Succs[1] {
							continue
						}
						for _, s := range b.Succs {
							for _, f := range k.edgeFacts(b, s) {
								if f.V == resVal && f.Pol != blockVal {
									cut[[2]*ssa.BasicBlock{b, s}] = true
								}
							}
						}
					}
				}
			}
		}
		r.Check("C09.R5", "spacing test result", r.Prog.Pos(h.Pos()), shortFunc(h),
			"the helper holding the spacing test reports through a boolean result whether the sync may proceed", found, map[bool]string{true: "", false: why}[found])
	}
	for _, op := range podOps {
		free := entryReachesWithoutEdges(rec, op.Block(), cut)
		r.Check("C09.R5", "gated: call to "+shortFunc(staticCallee(&op.Call)), r.Prog.Pos(op.Pos()), shortFunc(rec),
			"a call that can write pods is reached only when the LastFullSync condition is absent or the reconcile period has elapsed", !free,
			map[bool]string{true: "the call can be reached on a path that takes neither passing outcome of the spacing test", false: ""}[free])
	}
	c09StatusWrite(r, rec, reach, tr, g, lastFull, isClockSource)
}

// c09StatusWrite checks R6 on the interprocedural control flow: after every pod write, every way
// back to a return of the Reconcile updates LastFullSync (valid arguments) and then writes that status.
func c09StatusWrite(r *Run, rec *ssa.Function, reach map[*ssa.Function]bool, tr *ipTracer, g *c09Gate, lastFull string, isClockSource func(ssa.Value) bool) {
	// pod writes (client verb calls)
	var ops []*Effect
	for _, e := range effectsOf(reach) {
		if isWriteVerb(e.Verb) && e.Kind == pkgCoreV1+".Pod" && r.Prog.IsRuleSite(e.Fn) {
			ops = append(ops, e)
		}
	}
	isStatusWriter := func(fn *ssa.Function) bool {
		for _, e := range effectsOf(r.Prog.reachableFuncs(fn)) {
			if e.Status && isWriteVerb(e.Verb) && e.Kind == pkgAPI+".ExtendedDaemonSetReplicaSet" {
				return true
			}
		}
		return false
	}
	type upd struct {
		call   *ssa.Call
		fn     *ssa.Function
		status []ipLeaf
		notes  []string
	}
	var updates []*upd
	type wr struct {
		call *ssa.Call
		fn   *ssa.Function
	}
	var writes []wr
	for _, fn := range sortedFuncs(reach) {
		if !r.Prog.IsRuleSite(fn) {
			continue
		}
		for _, ci := range callsIn(fn) {
			c, ok := ci.(*ssa.Call)
			if !ok {
				continue
			}
			if calleeName(&c.Call) == fnERSCondUpdate && len(c.Call.Args) == 8 {
				if s, isS := constString(c.Call.Args[2]); isS && s == lastFull {
					u := &upd{call: c, fn: fn, status: tr.trace(c.Call.Args[0], fn)}
					cl := rootLeaves(tr, c.Call.Args[1], fn)
					switch {
					case g != nil && !sameLeaves(cl, g.clock):
						u.notes = append(u.notes, "the time written is not the clock value the spacing test compares with")
					case len(cl) != 1 || cl[0].fn != rec || !isClockSource(cl[0].v):
						u.notes = append(u.notes, "the time written is not the Reconcile's single clock read")
					}
					st, isS := constString(c.Call.Args[3])
					wf, isB := constBool(c.Call.Args[6])
					if !(isS && st == "True") && !(isB && wf) {
						u.notes = append(u.notes, "the condition would not be created when absent (status is not the constant True)")
					}
					if su, isB := constBool(c.Call.Args[7]); !isB || !su {
						u.notes = append(u.notes, "supportLastUpdate is not true: LastUpdateTime is not refreshed")
					}
					updates = append(updates, u)
				}
				continue
			}
			if cal := staticCallee(&c.Call); cal != nil && r.Prog.IsRuleSite(cal) && isStatusWriter(cal) {
				writes = append(writes, wr{c, fn})
			}
		}
	}
	isRet := func(in ssa.Instruction) bool {
		_, ok := in.(*ssa.Return)
		return ok && in.Parent() == rec
	}
	validUpdate := func(in ssa.Instruction) bool {
		for _, u := range updates {
			if ssa.Instruction(u.call) == in && len(u.notes) == 0 {
				return true
			}
		}
		return false
	}
	// functions worth entering: those from which a LastFullSync update / a status write is reachable
	contains := func(pred func(ssa.Instruction) bool) func(*ssa.Function) bool {
		memo := map[*ssa.Function]bool{}
		return func(fn *ssa.Function) bool {
			if v, ok := memo[fn]; ok {
				return v
			}
			res := false
			for f := range r.Prog.reachableFuncs(fn) {
				for _, ci := range callsIn(f) {
					if pred(ci) {
						res = true
					}
				}
			}
			memo[fn] = res
			return res
		}
	}
	isAnyUpdate := func(in ssa.Instruction) bool {
		for _, u := range updates {
			if ssa.Instruction(u.call) == in {
				return true
			}
		}
		return false
	}
	descendU := contains(isAnyUpdate)
	for _, op := range ops {
		esc := ipWalk([]ssa.Instruction{op.Call}, rec, reach, func(f *ssa.Function) bool { return r.Prog.IsRuleSite(f) && descendU(f) }, isRet, validUpdate)
		detail := ""
		if esc != nil {
			detail = "the return at " + r.Prog.Pos(instrPos(esc)) + " can be reached without updating LastFullSync"
			for _, u := range updates {
				if len(u.notes) > 0 {
					detail += "; update at " + r.Prog.Pos(u.call.Pos()) + ": " + strings.Join(u.notes, "; ")
				}
			}
		}
		r.Check("C09.R6", "LastFullSync updated after "+op.String(), r.Prog.Pos(op.Call.Pos()), shortFunc(op.Fn),
			"every way from a pod write back to a return of the Reconcile updates the LastFullSync condition with the sync's clock value, status True and supportLastUpdate=true", esc == nil, detail)
	}
	for _, u := range updates {
		u := u
		isWrite := func(in ssa.Instruction) bool {
			for _, w := range writes {
				if ssa.Instruction(w.call) != in {
					continue
				}
				hasStatus, hasRS := false, g == nil
				for _, a := range w.call.Call.Args {
					ls := tr.trace(a, w.fn)
					if sameLeaves(ls, u.status) {
						hasStatus = true
					}
					if g != nil && sameLeaves(ls, g.rs) {
						hasRS = true
					}
				}
				return hasStatus && hasRS
			}
			return false
		}
		descendW := contains(isWrite)
		esc := ipWalk([]ssa.Instruction{u.call}, rec, reach, func(f *ssa.Function) bool { return r.Prog.IsRuleSite(f) && descendW(f) }, isRet, isWrite)
		detail := ""
		if esc != nil {
			detail = "the return at " + r.Prog.Pos(instrPos(esc)) + " can be reached without writing the updated status of the replica set that the spacing test reads"
		}
		r.Check("C09.R6", "status written after the LastFullSync update", r.Prog.Pos(u.call.Pos()), shortFunc(u.fn),
			"every way from the LastFullSync update to a return of the Reconcile writes that status object (Status().Update of the replica set just read)", esc == nil, detail)
	}
	if len(updates) == 0 {
		r.Check("C09.R6", "LastFullSync update", r.Prog.Pos(rec.Pos()), shortFunc(rec), "the code reachable from the Reconcile updates the LastFullSync condition", false, "no such call")
	}
	c09Updater(r)
}

// c09Updater checks the condition updater: with supportLastUpdate the stored LastUpdateTime is the
// `now` argument when the condition exists, and a new condition carries it as LastUpdateTime.
func c09Updater(r *Run) {
	fn := r.Prog.Func(pkgERSCond, "UpdateExtendedDaemonSetReplicaSetStatusCondition")
	if fn == nil || len(fn.Params) != 8 {
		r.Fatal("anchor %s not found or unexpected signature", fnERSCondUpdate)
		return
	}
	now, support := fn.Params[1], fn.Params[7]
	paths, _, ok := funcPaths(fn, 5000)
	r.paths += len(paths)
	if !ok {
		r.Undecided("C09.R6", "updater", r.Prog.Pos(fn.Pos()), shortFunc(fn), "path cap exceeded")
		return
	}
	// new-condition constructor: field LastUpdateTime <- its time parameter
	ctorOK := func(c *ssa.Call) bool {
		cal := staticCallee(&c.Call)
		if cal == nil {
			return false
		}
		idx := -1
		for i, a := range c.Call.Args {
			if readsParam(a, now) || a == ssa.Value(now) {
				idx = i
			}
		}
		if idx < 0 || idx >= len(cal.Params) {
			return false
		}
		tparam := cal.Params[idx]
		for _, b := range cal.Blocks {
			for _, in := range b.Instrs {
				if st, isSt := in.(*ssa.Store); isSt {
					if fa, isFA := st.Addr.(*ssa.FieldAddr); isFA && fieldName(fa) == "LastUpdateTime" && (readsParam(st.Val, tparam) || st.Val == ssa.Value(tparam)) {
						return true
					}
				}
			}
		}
		return false
	}
	appends := func(p *Path) (appended, created bool) {
		for _, b := range p.Blocks {
			for _, in := range b.Instrs {
				if x, isCall := in.(*ssa.Call); isCall {
					if builtinCall(x, "append") != nil {
						appended = true
					} else if cal := staticCallee(&x.Call); cal != nil && r.Prog.IsRuleSite(cal) && ctorOK(x) {
						created = true
					}
				}
			}
		}
		return
	}
	nNew, okNew := 0, true
	for _, p := range paths {
		if a, c := appends(p); a {
			nNew++
			if !c {
				okNew = false
			}
		}
	}
	// an existing condition: the looked-up index is known to be >= 0 / != -1, or the looked-up
	// condition pointer is known to be non-nil
	isCondPtr := func(v ssa.Value) bool {
		return isPtrToNamed(v.Type(), pkgAPI, "ExtendedDaemonSetReplicaSetCondition")
	}
	exists := func(p *Path) bool {
		if a, _ := appends(p); a {
			return false
		}
		for _, f := range p.Facts {
			bo, isBo := f.V.(*ssa.BinOp)
			if !isBo {
				continue
			}
			switch bo.Op {
			case token.GEQ, token.LSS: // key (idx<0)
				if c, isC := constInt(bo.Y); isC && c == 0 && !f.Pol {
					return true
				}
			case token.GTR, token.LEQ: // idx > -1 : key (-1<idx)
				if c, isC := constInt(bo.Y); isC && c == -1 && f.Pol {
					return true
				}
			case token.EQL, token.NEQ:
				if c, isC := constInt(bo.Y); isC && c == -1 && !f.Pol {
					return true
				}
				if c, isC := constInt(bo.X); isC && c == -1 && !f.Pol {
					return true
				}
				if !f.Pol && (isNilConst(bo.Y) && isCondPtr(bo.X) || isNilConst(bo.X) && isCondPtr(bo.Y)) {
					return true
				}
			}
		}
		return false
	}
	isElem := func(v ssa.Value) bool {
		if _, isIdx := v.(*ssa.IndexAddr); isIdx {
			return isCondPtr(v)
		}
		if _, isParam := v.(*ssa.Parameter); isParam {
			return false
		}
		return isCondPtr(v)
	}
	eng := &setEngine{r: r, field: "LastUpdateTime", val: now, flagAssume: map[*ssa.Parameter]bool{support: true}}
	okExist, nExist, _ := eng.check(&vframe{fn: fn}, isElem, exists)
	r.Check("C09.R6", "updater refreshes LastUpdateTime", r.Prog.Pos(fn.Pos()), shortFunc(fn),
		"with supportLastUpdate, an existing condition gets LastUpdateTime = now on every path", okExist && nExist > 0, fmt.Sprintf("%d path(s) with an existing condition", nExist))
	r.Check("C09.R6", "updater creates the condition with now", r.Prog.Pos(fn.Pos()), shortFunc(fn),
		"a newly appended condition carries now as LastUpdateTime", okNew && nNew > 0, fmt.Sprintf("%d appending path(s)", nNew))
}

// c09BatchThrottles (R7): where the Reconcile guards a pod-writing call by comparing the time elapsed
// since the LastUpdateTime of a replica-set condition with a period - and that condition is the one
// updated after the call, i.e. it records the previous batch - the call must sit on the side where at
// least the period has elapsed. (The throttle is a second line of defence behind the LastFullSync test;
// inverted, it lets a batch run only within the period after the previous one and never afterwards.)
// Nothing is required when no such throttle exists.
func c09BatchThrottles(r *Run, rule string) {
	rec := r.Prog.Method(pkgERS, "Reconciler", "Reconcile")
	if rec == nil {
		return
	}
	ff := computeFacts(rec)
	k := ff.K
	memo := map[*ssa.Function]bool{}
	var ops []*ssa.Call
	for _, ci := range callsIn(rec) {
		if c, ok := ci.(*ssa.Call); ok {
			if cal := staticCallee(&c.Call); cal != nil && r.Prog.IsRuleSite(cal) && writesPods(r.Prog, cal, memo) {
				ops = append(ops, c)
			}
		}
	}
	// updates of a condition type by constant
	updatesOf := func(t string) []*ssa.Call {
		var out []*ssa.Call
		for _, ci := range callsIn(rec) {
			if c, ok := ci.(*ssa.Call); ok && calleeName(&c.Call) == fnERSCondUpdate && len(c.Call.Args) == 8 {
				if s, isS := constString(c.Call.Args[2]); isS && s == t {
					out = append(out, c)
				}
			}
		}
		return out
	}
	// elapsedSince: v is <clock>.Sub(<cond>.LastUpdateTime) for a condition fetched by constant type
	elapsedSince := func(v ssa.Value) (string, bool) {
		sub, ok := isCallTo(v, "(time.Time).Sub")
		if !ok || len(sub.Call.Args) != 2 {
			return "", false
		}
		root, path := accessPath(sub.Call.Args[1])
		gc, ok := isCallTo(root, fnERSCondGet)
		if !ok || len(path) == 0 || path[0] != "LastUpdateTime" {
			return "", false
		}
		t, isS := constString(gc.Call.Args[1])
		return t, isS
	}
	for _, b := range rec.Blocks {
		if len(b.Succs) != 2 || b.Succs[0] == b.Succs[1] {
			continue
		}
		iff, ok := b.Instrs[len(b.Instrs)-1].(*ssa.If)
		if !ok {
			continue
		}
		bo, ok := iff.Cond.(*ssa.BinOp)
		if !ok {
			continue
		}
		var elapsed, period ssa.Value
		var typ string
		if t, isE := elapsedSince(bo.X); isE {
			elapsed, period, typ = bo.X, bo.Y, t
		} else if t, isE := elapsedSince(bo.Y); isE {
			elapsed, period, typ = bo.Y, bo.X, t
		} else {
			continue
		}
		for _, op := range ops {
			from0, from1 := blockReaches(b.Succs[0], op.Block()), blockReaches(b.Succs[1], op.Block())
			if from0 == from1 {
				continue // the test does not decide whether this call runs
			}
			// the condition records the previous batch of this call: it is updated after the call
			recorded := false
			for _, u := range updatesOf(typ) {
				if canExecuteAfter(op, u) {
					recorded = true
				}
			}
			if !recorded {
				continue
			}
			succ := b.Succs[0]
			if from1 {
				succ = b.Succs[1]
			}
			fs := factSet{}
			for _, f := range k.edgeFacts(b, succ) {
				fs[fkey(f)] = f
			}
			good := false
			for _, of := range ordFacts(fs) {
				if k.key(of.lo) == k.key(period) && k.key(of.hi) == k.key(elapsed) {
					good = true
				}
			}
			r.Check(rule, "throttle on condition "+typ+" guards call to "+shortFunc(staticCallee(&op.Call)), r.Prog.Pos(bo.Pos()), shortFunc(rec),
				"a pod-writing call guarded by `time since the previous batch` versus a period runs on the side where at least the period has elapsed", good,
				map[bool]string{true: "", false: "the call is reached only when LESS than (or at most) the period has elapsed since the LastUpdateTime of condition " + typ + ": the throttle is inverted"}[good])
		}
	}
}

func runC09(r *Run) {
	r.RuleDoc("C09.R1", "creations per sync <= len-capped creation budget <= max(0, MaxPodCreation); MaxPodCreation comes from the ramp function")
	r.RuleDoc("C09.R2", "ramp result <= max(0, *MaxParallelPodCreation) and <= (1+slots)*increase")
	r.RuleDoc("C09.R3", "operand roles of the ramp: increase, elapsed time, interval, ramp origin")
	r.RuleDoc("C09.R4", "deletions per sync <= max(0, MaxUnavailablePod)")
	r.RuleDoc("C09.R5", "every pod-writing call of the replica-set Reconcile is behind the spacing test")
	r.RuleDoc("C09.R6", "LastFullSync is refreshed with the sync's clock value and the status written on every path after a pod-writing call")
	r.Floor("C09.R1", 4)
	r.Floor("C09.R2", 4)
	r.Floor("C09.R3", 5)
	r.Floor("C09.R4", 4)
	r.Floor("C09.R5", 4)
	r.Floor("C09.R6", 6)
	r.NotCovered("that floor(t/interval) is computed with non-negative t (clock skew between syncs); spacing when a status write fails or is lost (excluded by the statement); the one-second resolution of stored timestamps; that the node count passed to the ramp equals the eligible nodes (C01); positivity of the interval (C16.R4); which nodes are creation candidates and that one Create is issued per element (C01.R4); other controllers' reconciles")

	planner := r.Prog.Func(pkgStrategy, "ManageDeployment")
	if planner == nil {
		r.Fatal("anchor %s.ManageDeployment not found", pkgStrategy)
		return
	}
	site := plannerCut(r, "C09.R1", planner, "PodsToCreate")
	if site != nil {
		limitsClamp(r, "C09.R1", site.limits, site.idx, "MaxPodCreation")
		c09Ramp(r, site)
	} else {
		relaxFloors(r, "C09.R1", "C09.R2", "C09.R3")
	}
	del := plannerCut(r, "C09.R4", planner, "PodsToDelete")
	if del != nil {
		limitsClamp(r, "C09.R4", del.limits, del.idx, "MaxUnavailablePod")
		// the clamp bounds deletions by the MaxUnavailablePod input: that input must be the spec's
		// maxUnavailable itself (resolved against the node count, rounded up), not an inflated value
		if slots, _ := slotValues(del.call); slots != nil {
			intOrPercentSlot(r, "C09.R4", "MaxUnavailablePod", "MaxUnavailable", del, slots["MaxUnavailablePod"], slots["NbNodes"])
		} else {
			r.Undecided("C09.R4", "slot MaxUnavailablePod", r.Prog.Pos(del.call.Pos()), shortFunc(planner), "the limits arguments are not a local struct literal")
		}
	} else {
		relaxFloors(r, "C09.R4")
	}
	c09Spacing(r)
	// the per-batch throttles are redundant for spacing behind the LastFullSync gate: their polarity is a
	// progress condition and is reported under C02 (rules_xref.go: C02.Q12)
}
