package main

// Generic helpers added for C18/C19: natural loops, CFG reachability with an avoided block,
// branch conditions along a path, read-only use discipline of a heap object.

import (
	"fmt"
	"go/token"
	"go/types"
	"sort"
	"strings"

	"golang.org/x/tools/go/ssa"
)

// ---------------------------------------------------------------------------------------------
// Loops

// loopInfo is one natural loop: header plus body blocks (header included).
type loopInfo struct {
	Header *ssa.BasicBlock
	Blocks map[*ssa.BasicBlock]bool
}

// naturalLoops returns the natural loops of fn (one per header; back edges t->h with h dom t).
func naturalLoops(fn *ssa.Function) []*loopInfo {
	byHeader := map[*ssa.BasicBlock]*loopInfo{}
	for _, t := range fn.Blocks {
		for _, h := range t.Succs {
			if !h.Dominates(t) {
				continue
			}
			l := byHeader[h]
			if l == nil {
				l = &loopInfo{Header: h, Blocks: map[*ssa.BasicBlock]bool{h: true}}
				byHeader[h] = l
			}
			// all blocks that reach t without passing through h
			stack := []*ssa.BasicBlock{t}
			for len(stack) > 0 {
				b := stack[len(stack)-1]
				stack = stack[:len(stack)-1]
				if l.Blocks[b] {
					continue
				}
				l.Blocks[b] = true
				stack = append(stack, b.Preds...)
			}
		}
	}
	var out []*loopInfo
	for _, l := range byHeader {
		out = append(out, l)
	}
	sort.Slice(out, func(i, j int) bool { return out[i].Header.Index < out[j].Header.Index })
	return out
}

// innermostLoop returns the smallest natural loop containing b (nil if none).
func innermostLoop(loops []*loopInfo, b *ssa.BasicBlock) *loopInfo {
	var best *loopInfo
	for _, l := range loops {
		if l.Blocks[b] && (best == nil || len(l.Blocks) < len(best.Blocks)) {
			best = l
		}
	}
	return best
}

// inAnyLoop reports whether block b lies on a CFG cycle.
func inAnyLoop(fn *ssa.Function, b *ssa.BasicBlock) bool {
	return innermostLoop(naturalLoops(fn), b) != nil
}

// ---------------------------------------------------------------------------------------------
// Reachability

// reachesAvoiding reports whether control can flow from just after instruction `from` to
// instruction `to` without entering block `avoid` (avoid may be nil). Entering means taking a CFG
// edge into it; starting inside `avoid` is allowed.
func reachesAvoiding(from, to ssa.Instruction, avoid *ssa.BasicBlock) bool {
	fb, tb := from.Block(), to.Block()
	if fb == tb && instrIndex(from) < instrIndex(to) {
		return true
	}
	seen := map[*ssa.BasicBlock]bool{}
	stack := []*ssa.BasicBlock{}
	for _, s := range fb.Succs {
		stack = append(stack, s)
	}
	for len(stack) > 0 {
		b := stack[len(stack)-1]
		stack = stack[:len(stack)-1]
		if seen[b] || b == avoid {
			continue
		}
		seen[b] = true
		if b == tb {
			return true
		}
		stack = append(stack, b.Succs...)
	}
	return false
}

// ---------------------------------------------------------------------------------------------
// Path branches

// branch is one conditional edge taken on a path: cond had truth value pol.
type branch struct {
	Cond  ssa.Value // phis resolved along the path prefix
	Pol   bool
	Block *ssa.BasicBlock // block ending in the If
	At    int             // index of Block in the path
}

// pathBranches lists the conditional edges of a path in order. Unlike Path.Facts the conditions
// are not normalised: Pol is the truth value of Cond itself.
func pathBranches(p *Path) []branch {
	var out []branch
	for i := 0; i+1 < len(p.Blocks); i++ {
		b := p.Blocks[i]
		if len(b.Instrs) == 0 {
			continue
		}
		iff, ok := b.Instrs[len(b.Instrs)-1].(*ssa.If)
		if !ok || b.Succs[0] == b.Succs[1] {
			continue
		}
		pol := b.Succs[0] == p.Blocks[i+1]
		out = append(out, branch{Cond: resolveAlong(p.Blocks[:i+1], iff.Cond), Pol: pol, Block: b, At: i})
	}
	return out
}

// stripNot removes leading negations: returns the inner value and the adjusted polarity.
func stripNot(v ssa.Value, pol bool) (ssa.Value, bool) {
	for {
		u, ok := v.(*ssa.UnOp)
		if !ok || u.Op != token.NOT {
			return v, pol
		}
		v, pol = u.X, !pol
	}
}

// eqTruth: for an ==/!= comparison taken with truth value pol, reports whether the two operands
// are equal on that edge.
func eqTruth(v ssa.Value, pol bool) (x, y ssa.Value, equal bool, ok bool) {
	v, pol = stripNot(v, pol)
	b, isB := v.(*ssa.BinOp)
	if !isB || (b.Op != token.EQL && b.Op != token.NEQ) {
		return nil, nil, false, false
	}
	if b.Op == token.NEQ {
		pol = !pol
	}
	return b.X, b.Y, pol, true
}

// ---------------------------------------------------------------------------------------------
// Object use discipline

// isRefType reports whether values of t can alias mutable memory.
func isRefType(t types.Type) bool {
	switch t.Underlying().(type) {
	case *types.Pointer, *types.Map, *types.Slice, *types.Chan, *types.Interface, *types.Signature:
		return true
	}
	return false
}

// readOnlyValue reports whether a (possibly reference-typed) value loaded from a tracked object
// is only read: compared, indexed, looked up, ranged, measured, or loaded through; never stored
// through, stored somewhere, or passed to a call. why describes the first offending use.
func readOnlyValue(v ssa.Value, allowCall func(ssa.CallInstruction, ssa.Value) bool, depth int) (ok bool, why string) {
	if depth > 12 {
		return false, "use chain too deep"
	}
	for _, r := range refs(v) {
		switch x := r.(type) {
		case *ssa.DebugRef:
		case *ssa.BinOp, *ssa.If, *ssa.Return:
			if _, isRet := x.(*ssa.Return); isRet && isRefType(v.Type()) {
				return false, "returned"
			}
		case *ssa.UnOp:
			if x.Op == token.MUL {
				if ok, why := readOnlyValue(x, allowCall, depth+1); !ok {
					return false, why
				}
			}
		case *ssa.FieldAddr:
			if ok, why := readOnlyValue(x, allowCall, depth+1); !ok {
				return false, why
			}
		case *ssa.Field:
			if ok, why := readOnlyValue(x, allowCall, depth+1); !ok {
				return false, why
			}
		case *ssa.IndexAddr:
			if ok, why := readOnlyValue(x, allowCall, depth+1); !ok {
				return false, why
			}
		case *ssa.Index:
			if ok, why := readOnlyValue(x, allowCall, depth+1); !ok {
				return false, why
			}
		case *ssa.Lookup:
			if x.X != v {
				continue // used as a key
			}
			if ok, why := readOnlyValue(x, allowCall, depth+1); !ok {
				return false, why
			}
		case *ssa.Extract:
			if ok, why := readOnlyValue(x, allowCall, depth+1); !ok {
				return false, why
			}
		case *ssa.Range:
			// iteration reads only
		case *ssa.Phi:
			if isRefType(v.Type()) {
				return false, "merged by a phi"
			}
		case *ssa.Store:
			if x.Addr == v {
				return false, fmt.Sprintf("stored through (line %d)", x.Parent().Prog.Fset.Position(instrPos(x)).Line)
			}
			if isRefType(v.Type()) {
				return false, "stored into another location"
			}
		case *ssa.MapUpdate:
			if x.Map == v {
				return false, "map updated"
			}
			if isRefType(v.Type()) {
				return false, "stored into a map"
			}
		case *ssa.MakeInterface, *ssa.ChangeType, *ssa.Convert, *ssa.ChangeInterface, *ssa.Slice:
			if !isRefType(v.Type()) {
				continue // a scalar copy (e.g. boxed for fmt)
			}
			if ok, why := readOnlyValue(x.(ssa.Value), allowCall, depth+1); !ok {
				return false, why
			}
		case ssa.CallInstruction:
			c := x.Common()
			if b, isB := c.Value.(*ssa.Builtin); isB && (b.Name() == "len" || b.Name() == "cap") {
				continue
			}
			if !isRefType(v.Type()) {
				continue // scalar argument
			}
			if allowCall != nil && allowCall(x, v) {
				continue
			}
			return false, "passed to " + calleeName(c)
		default:
			if isRefType(v.Type()) {
				return false, "used by " + r.String()
			}
		}
	}
	return true, ""
}

// firstWord returns the first blank-separated word of s.
func firstWord(s string) string {
	f := strings.Fields(s)
	if len(f) == 0 {
		return ""
	}
	return f[0]
}

// baseTypeName is typeName with every pointer level stripped (**T and *T and T all give T).
func baseTypeName(t types.Type) string {
	for {
		p, ok := t.(*types.Pointer)
		if !ok {
			break
		}
		t = p.Elem()
	}
	return typeName(t)
}

// declaredMethod returns the source-declared method `name` of named type pkg.typ (value or
// pointer receiver), never a synthetic wrapper. (Prog.Method looks in the pointer method set
// first and so returns the (*T).m wrapper for value-receiver methods.)
func (p *Prog) declaredMethod(pkg, typ, name string) *ssa.Function {
	named := p.Named(pkg, typ)
	if named == nil {
		return nil
	}
	for _, t := range []types.Type{named, types.NewPointer(named)} {
		ms := p.SSA.MethodSets.MethodSet(t)
		for i := 0; i < ms.Len(); i++ {
			if ms.At(i).Obj().Name() == name {
				if fn := p.SSA.MethodValue(ms.At(i)); fn != nil && fn.Synthetic == "" {
					return fn
				}
			}
		}
	}
	return nil
}

// ---------------------------------------------------------------------------------------------
// Inlined paths: acyclic entry→return paths of a function in which calls to selected repository
// helpers are expanded in place. Values are read in the context of an activation: a parameter of
// an inlined helper resolves to the argument at its call site, the result of an inlined call to
// the value returned on this path, a phi to the edge taken. Rules written on these paths follow
// an object, a copy or a fact through helper extraction without any per-helper knowledge.

// icall is one activation on a path.
type icall struct {
	id      int
	fn      *ssa.Function
	site    *ssa.Call // call instruction in the parent activation (nil for the root)
	parent  *icall
	blocks  []*ssa.BasicBlock // blocks executed by this activation, in order
	ret     *ssa.Return       // return reached (nil while running / when the path ends inside)
	sub     map[*ssa.Call]*icall
	visited map[*ssa.BasicBlock]bool
}

type ievent struct {
	c  *icall
	in ssa.Instruction
}

type ibranch struct {
	c    *icall
	cond ssa.Value // as written; resolve with the activation
	pol  bool
	at   int // number of events executed before the branch
}

type ipath struct {
	root     *icall
	events   []ievent
	branches []ibranch
	ret      *ssa.Return
}

type ienum struct {
	inline   func(callee *ssa.Function) bool
	cap      int
	maxDepth int
	out      []*ipath
	over     bool
	events   []ievent
	branches []ibranch
	keys     []struct {
		k   string
		pol bool
	}
	nextID int
	root   *icall
}

// enumIPaths enumerates the inlined paths of fn. ok=false when the cap is exceeded.
func enumIPaths(fn *ssa.Function, inline func(callee *ssa.Function) bool, cap int) ([]*ipath, bool) {
	if len(fn.Blocks) == 0 {
		return nil, true
	}
	e := &ienum{inline: inline, cap: cap, maxDepth: 4}
	e.root = e.newCall(fn, nil, nil)
	e.enter(e.root, fn.Blocks[0])
	return e.out, !e.over
}

func (e *ienum) newCall(fn *ssa.Function, site *ssa.Call, parent *icall) *icall {
	e.nextID++
	return &icall{id: e.nextID, fn: fn, site: site, parent: parent, sub: map[*ssa.Call]*icall{}, visited: map[*ssa.BasicBlock]bool{}}
}

func (c *icall) depth() int {
	d := 0
	for x := c; x.parent != nil; x = x.parent {
		d++
	}
	return d
}

func (c *icall) onStack(fn *ssa.Function) bool {
	for x := c; x != nil; x = x.parent {
		if x.fn == fn {
			return true
		}
	}
	return false
}

func (e *ienum) enter(act *icall, b *ssa.BasicBlock) {
	if e.over || act.visited[b] {
		return
	}
	act.visited[b] = true
	act.blocks = append(act.blocks, b)
	e.exec(act, b, 0)
	act.blocks = act.blocks[:len(act.blocks)-1]
	act.visited[b] = false
}

func (e *ienum) exec(act *icall, b *ssa.BasicBlock, i int) {
	mark := len(e.events)
	defer func() { e.events = e.events[:mark] }()
	for ; i < len(b.Instrs); i++ {
		if e.over {
			return
		}
		in := b.Instrs[i]
		switch x := in.(type) {
		case *ssa.Phi, *ssa.DebugRef:
			continue
		case *ssa.Call:
			e.events = append(e.events, ievent{act, in})
			cal := staticCallee(&x.Call)
			if cal != nil && len(cal.Blocks) > 0 && act.depth() < e.maxDepth && !act.onStack(cal) && e.inline(cal) {
				child := e.newCall(cal, x, act)
				act.sub[x] = child
				e.enter(child, cal.Blocks[0]) // the continuation runs from the child's Return
				delete(act.sub, x)
				return
			}
		case *ssa.Return:
			e.events = append(e.events, ievent{act, in})
			if act.parent == nil {
				e.emit(x)
				return
			}
			act.ret = x
			e.exec(act.parent, act.site.Block(), instrIndex(act.site)+1)
			act.ret = nil
			return
		case *ssa.If:
			if b.Succs[0] == b.Succs[1] {
				e.enter(act, b.Succs[0])
				return
			}
			for si, s := range b.Succs {
				pol := si == 0
				if cb, isC := iconstBool(act, x.Cond); isC {
					if cb != pol {
						continue
					}
					e.enter(act, s)
					continue
				}
				k, kp := icondKey(act, x.Cond, pol)
				contra := false
				for _, kk := range e.keys {
					if kk.k == k && kk.pol != kp {
						contra = true
					}
				}
				if contra {
					continue
				}
				e.keys = append(e.keys, struct {
					k   string
					pol bool
				}{k, kp})
				e.branches = append(e.branches, ibranch{c: act, cond: x.Cond, pol: pol, at: len(e.events)})
				e.enter(act, s)
				e.branches = e.branches[:len(e.branches)-1]
				e.keys = e.keys[:len(e.keys)-1]
			}
			return
		case *ssa.Jump:
			e.enter(act, b.Succs[0])
			return
		case *ssa.Panic:
			return
		default:
			e.events = append(e.events, ievent{act, in})
		}
	}
}

func (e *ienum) emit(ret *ssa.Return) {
	if len(e.out) >= e.cap {
		e.over = true
		return
	}
	m := map[*icall]*icall{}
	var clone func(c *icall) *icall
	clone = func(c *icall) *icall {
		if c == nil {
			return nil
		}
		if n, ok := m[c]; ok {
			return n
		}
		n := &icall{id: c.id, fn: c.fn, site: c.site, ret: c.ret, blocks: append([]*ssa.BasicBlock(nil), c.blocks...), sub: map[*ssa.Call]*icall{}}
		m[c] = n
		n.parent = clone(c.parent)
		for k, s := range c.sub {
			n.sub[k] = clone(s)
		}
		return n
	}
	p := &ipath{root: clone(e.root), ret: ret}
	// activations that already returned are reachable through their parents' sub maps, which were
	// still set when they returned; activations referenced only by events are cloned on demand.
	for _, ev := range e.events {
		p.events = append(p.events, ievent{clone(ev.c), ev.in})
	}
	for _, br := range e.branches {
		p.branches = append(p.branches, ibranch{c: clone(br.c), cond: br.cond, pol: br.pol, at: br.at})
	}
	e.out = append(e.out, p)
}

// iresolve normalises a value in its activation: parameters of inlined helpers become the call
// arguments, results of inlined calls the returned values, phis the edge taken on this path.
func iresolve(c *icall, v ssa.Value) (*icall, ssa.Value) {
	for i := 0; i < 64 && c != nil && v != nil; i++ {
		switch x := v.(type) {
		case *ssa.Parameter:
			if c.parent == nil || c.site == nil {
				return c, v
			}
			idx := paramIndex(x)
			if idx < 0 || idx >= len(c.site.Call.Args) {
				return c, v
			}
			c, v = c.parent, c.site.Call.Args[idx]
		case *ssa.Call:
			ch := c.sub[x]
			if ch == nil || ch.ret == nil || len(ch.ret.Results) != 1 {
				return c, v
			}
			c, v = ch, ch.ret.Results[0]
		case *ssa.Extract:
			call, ok := x.Tuple.(*ssa.Call)
			if !ok {
				return c, v
			}
			ch := c.sub[call]
			if ch == nil || ch.ret == nil || x.Index >= len(ch.ret.Results) {
				return c, v
			}
			c, v = ch, ch.ret.Results[x.Index]
		case *ssa.Phi:
			idx := -1
			for j, b := range c.blocks {
				if b == x.Block() {
					idx = j
				}
			}
			if idx <= 0 {
				return c, v
			}
			pred := c.blocks[idx-1]
			found := false
			for j, pb := range x.Block().Preds {
				if pb == pred {
					v, found = x.Edges[j], true
					break
				}
			}
			if !found {
				return c, v
			}
		default:
			return c, v
		}
	}
	return c, v
}

// iunwrap resolves and strips value-preserving conversions.
func iunwrap(c *icall, v ssa.Value) (*icall, ssa.Value) {
	for i := 0; i < 64; i++ {
		c, v = iresolve(c, v)
		switch x := v.(type) {
		case *ssa.ChangeType:
			v = x.X
		case *ssa.Convert:
			v = x.X
		case *ssa.MakeInterface:
			v = x.X
		case *ssa.ChangeInterface:
			v = x.X
		default:
			return c, v
		}
	}
	return c, v
}

// iaccess is accessPath on a path: root activation, root value and the field chain.
func iaccess(c *icall, v ssa.Value) (*icall, ssa.Value, []string) {
	var rev []string
	for i := 0; i < 128; i++ {
		c, v = iunwrap(c, v)
		switch x := v.(type) {
		case *ssa.UnOp:
			if x.Op == token.MUL {
				v = x.X
				continue
			}
		case *ssa.FieldAddr:
			rev = append(rev, fieldName(x))
			v = x.X
			continue
		case *ssa.Field:
			rev = append(rev, fieldName(x))
			v = x.X
			continue
		}
		break
	}
	for i, j := 0, len(rev)-1; i < j; i, j = i+1, j-1 {
		rev[i], rev[j] = rev[j], rev[i]
	}
	return c, v, rev
}

// iconstBool decides a branch condition on the path when it is a constant after resolution:
// a boolean constant, a negation of one, or a comparison with nil of a value that resolves to nil
// or to a value that is certainly not nil (an allocation, the result of errors.New / fmt.Errorf),
// or a comparison of two constants. This prunes the caller's `if err != nil` after an inlined
// helper returned on a known branch.
func iconstBool(c *icall, v ssa.Value) (bool, bool) {
	neg := false
	for i := 0; i < 16; i++ {
		c, v = iresolve(c, v)
		u, ok := v.(*ssa.UnOp)
		if !ok || u.Op != token.NOT {
			break
		}
		v, neg = u.X, !neg
	}
	if b, ok := constBool(v); ok {
		return b != neg, true
	}
	bo, ok := v.(*ssa.BinOp)
	if !ok || (bo.Op != token.EQL && bo.Op != token.NEQ) {
		return false, false
	}
	if bo.Op == token.NEQ {
		neg = !neg
	}
	_, l := iunwrap(c, bo.X)
	_, r := iunwrap(c, bo.Y)
	nilness := func(x ssa.Value) int { // 1 nil, -1 certainly not nil, 0 unknown
		if isNilConst(x) {
			return 1
		}
		switch y := x.(type) {
		case *ssa.Alloc, *ssa.MakeMap, *ssa.MakeSlice, *ssa.MakeClosure, *ssa.FieldAddr, *ssa.IndexAddr:
			return -1
		case *ssa.Call:
			switch calleeName(&y.Call) {
			case "errors.New", "fmt.Errorf":
				return -1
			}
		}
		return 0
	}
	if isNilConst(l) || isNilConst(r) {
		a, b := nilness(l), nilness(r)
		if a != 0 && b != 0 {
			return (a == b) != neg, true
		}
		return false, false
	}
	if lc, ok1 := l.(*ssa.Const); ok1 {
		if rc, ok2 := r.(*ssa.Const); ok2 && lc.Value != nil && rc.Value != nil && !lc.IsNil() && !rc.IsNil() {
			return (lc.Value.ExactString() == rc.Value.ExactString()) != neg, true
		}
	}
	return false, false
}

// ikey is a structural key of a value on a path (activation-aware counterpart of keyer.key).
func ikey(c *icall, v ssa.Value, d int) string {
	if v == nil {
		return "<nil>"
	}
	if d > 24 {
		return v.Name()
	}
	c, v = iresolve(c, v)
	switch x := v.(type) {
	case *ssa.Parameter:
		return fmt.Sprintf("p%d:%s", c.id, x.Name())
	case *ssa.FreeVar:
		return "fv:" + x.Name()
	case *ssa.Global:
		return "g:" + x.Pkg.Pkg.Path() + "." + x.Name()
	case *ssa.Function:
		return "fn:" + funcName(x)
	case *ssa.Const:
		if x.IsNil() {
			return "nil"
		}
		if x.Value == nil {
			return "zero"
		}
		return "c:" + x.Value.ExactString()
	case *ssa.Call:
		var args []string
		if x.Call.IsInvoke() {
			args = append(args, ikey(c, x.Call.Value, d+1))
		}
		for _, a := range x.Call.Args {
			args = append(args, ikey(c, a, d+1))
		}
		// calls are keyed per instruction and activation: two calls may return different values
		return fmt.Sprintf("%s@%d:%p(%s)", calleeName(&x.Call), c.id, x, strings.Join(args, ","))
	case *ssa.Extract:
		return ikey(c, x.Tuple, d+1) + "#" + fmt.Sprint(x.Index)
	case *ssa.FieldAddr:
		return "&" + ikey(c, x.X, d+1) + "." + fieldName(x)
	case *ssa.Field:
		return ikey(c, x.X, d+1) + "." + fieldName(x)
	case *ssa.IndexAddr:
		return "&" + ikey(c, x.X, d+1) + "[" + ikey(c, x.Index, d+1) + "]"
	case *ssa.Index:
		return ikey(c, x.X, d+1) + "[" + ikey(c, x.Index, d+1) + "]"
	case *ssa.Lookup:
		s := ikey(c, x.X, d+1) + "[" + ikey(c, x.Index, d+1) + "]"
		if x.CommaOk {
			s += ",ok"
		}
		return s
	case *ssa.UnOp:
		switch x.Op {
		case token.MUL:
			a := ikey(c, x.X, d+1)
			if strings.HasPrefix(a, "&") {
				return a[1:]
			}
			return "*" + a
		case token.NOT:
			return "!" + ikey(c, x.X, d+1)
		}
		return x.Op.String() + ikey(c, x.X, d+1)
	case *ssa.BinOp:
		a, b := ikey(c, x.X, d+1), ikey(c, x.Y, d+1)
		if (x.Op == token.EQL || x.Op == token.NEQ || x.Op == token.ADD || x.Op == token.MUL) && b < a {
			a, b = b, a
		}
		return "(" + a + x.Op.String() + b + ")"
	case *ssa.Phi:
		return fmt.Sprintf("phi%d:%s@b%d", c.id, x.Comment, x.Block().Index)
	case *ssa.Alloc:
		return fmt.Sprintf("alloc%d:%p", c.id, x)
	case *ssa.ChangeType:
		return ikey(c, x.X, d+1)
	case *ssa.Convert:
		return ikey(c, x.X, d+1)
	case *ssa.MakeInterface:
		return ikey(c, x.X, d+1)
	case *ssa.ChangeInterface:
		return ikey(c, x.X, d+1)
	}
	return fmt.Sprintf("%T%d:%p", v, c.id, v)
}

// icondKey normalises a branch condition: leading negations stripped, != turned into == with
// flipped polarity.
func icondKey(c *icall, cond ssa.Value, pol bool) (string, bool) {
	for i := 0; i < 16; i++ {
		cc, v := iresolve(c, cond)
		if u, ok := v.(*ssa.UnOp); ok && u.Op == token.NOT {
			c, cond, pol = cc, u.X, !pol
			continue
		}
		if b, ok := v.(*ssa.BinOp); ok && (b.Op == token.EQL || b.Op == token.NEQ) {
			x, y := ikey(cc, b.X, 0), ikey(cc, b.Y, 0)
			if y < x {
				x, y = y, x
			}
			if b.Op == token.NEQ {
				pol = !pol
			}
			return "(" + x + "==" + y + ")", pol
		}
		return ikey(cc, v, 0), pol
	}
	return ikey(c, cond, 0), pol
}

// ieq decomposes a branch into an equality: the two operands (with their activation) and whether
// they are equal on this edge. ok=false when the condition is not an ==/!= comparison.
func ieq(br ibranch) (c *icall, x, y ssa.Value, equal bool, ok bool) {
	c, v, pol := br.c, br.cond, br.pol
	for i := 0; i < 16; i++ {
		cc, vv := iresolve(c, v)
		if u, isU := vv.(*ssa.UnOp); isU && u.Op == token.NOT {
			c, v, pol = cc, u.X, !pol
			continue
		}
		b, isB := vv.(*ssa.BinOp)
		if !isB || (b.Op != token.EQL && b.Op != token.NEQ) {
			return nil, nil, nil, false, false
		}
		if b.Op == token.NEQ {
			pol = !pol
		}
		return cc, b.X, b.Y, pol, true
	}
	return nil, nil, nil, false, false
}

// ibool returns the condition of a branch with negations stripped: the activation, the value
// and its truth value on the edge.
func ibool(br ibranch) (*icall, ssa.Value, bool) {
	c, v, pol := br.c, br.cond, br.pol
	for i := 0; i < 16; i++ {
		cc, vv := iresolve(c, v)
		if u, isU := vv.(*ssa.UnOp); isU && u.Op == token.NOT {
			c, v, pol = cc, u.X, !pol
			continue
		}
		return cc, vv, pol
	}
	return c, v, pol
}

func iisNil(c *icall, v ssa.Value) bool {
	_, vv := iunwrap(c, v)
	return isNilConst(vv)
}

func iconstString(c *icall, v ssa.Value) (string, bool) {
	_, vv := iunwrap(c, v)
	return constString(vv)
}

// eventIndex returns the position of instruction in (executed by any activation) on the path,
// -1 if it is not executed. The first occurrence is returned.
func (p *ipath) eventIndex(in ssa.Instruction) int {
	for i, ev := range p.events {
		if ev.in == in {
			return i
		}
	}
	return -1
}

// samePkgInliner inlines the unexported repository functions of the package of root (helpers
// extracted next to a function), except those in skip.
func samePkgInliner(prog *Prog, root *ssa.Function, skip map[*ssa.Function]bool) func(*ssa.Function) bool {
	pkgOf := func(f *ssa.Function) string {
		for f.Parent() != nil {
			f = f.Parent()
		}
		if f.Pkg == nil {
			return ""
		}
		return f.Pkg.Pkg.Path()
	}
	rp := pkgOf(root)
	return func(cal *ssa.Function) bool {
		// exported functions are the API the properties name (readers, predicates): they stay calls
		return !skip[cal] && prog.IsRuleSite(cal) && cal.Synthetic == "" && pkgOf(cal) == rp && !token.IsExported(cal.Name())
	}
}

// roOpts configures readOnlyValue2.
type roOpts struct {
	allowCall func(ssa.CallInstruction, ssa.Value) bool
	follow    func(*ssa.Function) bool                  // callees whose parameter is checked instead of rejecting the call
	callers   func(*ssa.Function) []ssa.CallInstruction // call sites whose result is checked when the value is returned
	seen      map[ssa.Value]bool
}

// readOnlyValue2 is readOnlyValue that follows the value into repository helpers (parameter of the
// callee) and out of them (result at the call sites).
func readOnlyValue2(v ssa.Value, o *roOpts, depth int) (ok bool, why string) {
	if depth > 16 {
		return false, "use chain too deep"
	}
	if o.seen[v] {
		return true, ""
	}
	o.seen[v] = true
	for _, r := range refs(v) {
		switch x := r.(type) {
		case *ssa.DebugRef, *ssa.BinOp, *ssa.If, *ssa.Range:
		case *ssa.Return:
			if !isRefType(v.Type()) {
				continue
			}
			if o.callers == nil {
				return false, "returned"
			}
			idx := -1
			for i, res := range x.Results {
				if res == v {
					idx = i
				}
			}
			for _, cs := range o.callers(x.Parent()) {
				cv, isV := cs.(*ssa.Call)
				if !isV {
					return false, "returned to a go/defer call"
				}
				if len(x.Results) == 1 {
					if ok, why := readOnlyValue2(cv, o, depth+1); !ok {
						return false, why
					}
					continue
				}
				for _, r2 := range refs(cv) {
					if ex, isEx := r2.(*ssa.Extract); isEx && ex.Index == idx {
						if ok, why := readOnlyValue2(ex, o, depth+1); !ok {
							return false, why
						}
					}
				}
			}
		case *ssa.UnOp:
			if x.Op == token.MUL {
				if ok, why := readOnlyValue2(x, o, depth+1); !ok {
					return false, why
				}
			}
		case *ssa.FieldAddr, *ssa.Field, *ssa.IndexAddr, *ssa.Index, *ssa.Extract:
			if ok, why := readOnlyValue2(x.(ssa.Value), o, depth+1); !ok {
				return false, why
			}
		case *ssa.Lookup:
			if x.X != v {
				continue
			}
			if ok, why := readOnlyValue2(x, o, depth+1); !ok {
				return false, why
			}
		case *ssa.Phi:
			if isRefType(v.Type()) {
				if ok, why := readOnlyValue2(x, o, depth+1); !ok {
					return false, why
				}
			}
		case *ssa.Store:
			if x.Addr == v {
				return false, fmt.Sprintf("stored through (line %d)", x.Parent().Prog.Fset.Position(instrPos(x)).Line)
			}
			if isRefType(v.Type()) {
				return false, "stored into another location"
			}
		case *ssa.MapUpdate:
			if x.Map == v {
				return false, "map updated"
			}
			if isRefType(v.Type()) {
				return false, "stored into a map"
			}
		case *ssa.MakeInterface, *ssa.ChangeType, *ssa.Convert, *ssa.ChangeInterface, *ssa.Slice:
			if !isRefType(v.Type()) {
				continue
			}
			if ok, why := readOnlyValue2(x.(ssa.Value), o, depth+1); !ok {
				return false, why
			}
		case ssa.CallInstruction:
			c := x.Common()
			if b, isB := c.Value.(*ssa.Builtin); isB && (b.Name() == "len" || b.Name() == "cap") {
				continue
			}
			if !isRefType(v.Type()) {
				continue
			}
			if o.allowCall != nil && o.allowCall(x, v) {
				continue
			}
			if cal := staticCallee(c); cal != nil && o.follow != nil && o.follow(cal) && len(cal.Blocks) > 0 {
				bad := ""
				for i, a := range c.Args {
					if a == v && i < len(cal.Params) {
						if ok, why := readOnlyValue2(cal.Params[i], o, depth+1); !ok {
							bad = why + " (in " + shortFunc(cal) + ")"
						}
					}
				}
				if bad != "" {
					return false, bad
				}
				continue
			}
			return false, "passed to " + calleeName(c)
		default:
			if isRefType(v.Type()) {
				return false, "used by " + r.String()
			}
		}
	}
	return true, ""
}

// aliasClosure returns the SSA values that denote the object held by start when it is handed
// to repository helpers (the callee's parameter) or returned by them (the call result at every
// call site), through phis and value-preserving conversions of non-interface type.
func aliasClosure(start ssa.Value, follow func(*ssa.Function) bool, callers func(*ssa.Function) []ssa.CallInstruction) map[ssa.Value]bool {
	out := map[ssa.Value]bool{}
	var add func(v ssa.Value, d int)
	add = func(v ssa.Value, d int) {
		if v == nil || out[v] || d > 12 {
			return
		}
		out[v] = true
		for _, rr := range refs(v) {
			switch x := rr.(type) {
			case *ssa.Phi:
				add(x, d+1)
			case *ssa.ChangeType:
				add(x, d+1)
			case *ssa.Return:
				idx := -1
				for i, res := range x.Results {
					if res == v {
						idx = i
					}
				}
				if callers == nil {
					continue
				}
				for _, cs := range callers(x.Parent()) {
					cv, isV := cs.(*ssa.Call)
					if !isV {
						continue
					}
					if len(x.Results) == 1 {
						add(cv, d+1)
						continue
					}
					for _, r2 := range refs(cv) {
						if ex, isEx := r2.(*ssa.Extract); isEx && ex.Index == idx {
							add(ex, d+1)
						}
					}
				}
			case ssa.CallInstruction:
				cal := staticCallee(x.Common())
				if cal == nil || follow == nil || !follow(cal) {
					continue
				}
				for i, a := range x.Common().Args {
					if a == v && i < len(cal.Params) {
						add(cal.Params[i], d+1)
					}
				}
			}
		}
	}
	add(start, 0)
	return out
}

// ifield resolves a read of a struct field to the value stored into that field when the struct is
// a composite literal on this path: built locally, copied into a local, or returned by an inlined
// helper. ok=false when v is not such a read.
func ifield(c *icall, v ssa.Value) (*icall, ssa.Value, bool) {
	cc, vv := iunwrap(c, v)
	f := ""
	var ac *icall
	var al *ssa.Alloc // struct held in a local cell
	var cur ssa.Value // or a struct value
	switch y := vv.(type) {
	case *ssa.Field:
		cur, ac, f = y.X, cc, fieldName(y)
	case *ssa.UnOp:
		fa, ok := y.X.(*ssa.FieldAddr)
		if y.Op != token.MUL || !ok {
			return nil, nil, false
		}
		f = fieldName(fa)
		var av ssa.Value
		ac, av = iunwrap(cc, fa.X)
		a2, isAl := av.(*ssa.Alloc)
		if !isAl {
			return nil, nil, false
		}
		al = a2
	default:
		return nil, nil, false
	}
	for i := 0; i < 8; i++ {
		if al == nil {
			bc, bv := iunwrap(ac, cur)
			ld, isLd := bv.(*ssa.UnOp)
			if !isLd || ld.Op != token.MUL {
				return nil, nil, false
			}
			xc, xv := iunwrap(bc, ld.X)
			a2, isAl := xv.(*ssa.Alloc)
			if !isAl {
				return nil, nil, false
			}
			ac, al = xc, a2
		}
		if fs := fieldStores(al, f); len(fs) == 1 {
			return ac, fs[0], true
		} else if len(fs) > 1 {
			return nil, nil, false
		}
		var whole []ssa.Value
		for _, rr := range refs(al) {
			if st, isSt := rr.(*ssa.Store); isSt && st.Addr == ssa.Value(al) {
				whole = append(whole, st.Val)
			}
		}
		if len(whole) != 1 {
			return nil, nil, false
		}
		cur, al = whole[0], nil
	}
	return nil, nil, false
}

// ideep resolves v through parameters, results, phis, conversions and struct fields.
func ideep(c *icall, v ssa.Value) (*icall, ssa.Value) {
	for i := 0; i < 16; i++ {
		c, v = iunwrap(c, v)
		fc, fv, ok := ifield(c, v)
		if !ok {
			return c, v
		}
		c, v = fc, fv
	}
	return c, v
}
