package main

// Generic helpers added for C18/C19: natural loops, CFG reachability with an avoided block,
// branch conditions along a path, read-only use discipline of a heap object.

import (
	"fmt"
	"go/token"
	"go/types"
	"sort"
	"strings"

	"golang.org/x/tools/go/ssa"
)

// ---------------------------------------------------------------------------------------------
// Loops

// loopInfo is one natural loop: header plus body blocks (header included).
type loopInfo struct {
	Header *ssa.BasicBlock
	Blocks map[*ssa.BasicBlock]bool
}

// naturalLoops returns the natural loops of fn (one per header; back edges t->h with h dom t).
func naturalLoops(fn *ssa.Function) []*loopInfo {
	byHeader := map[*ssa.BasicBlock]*loopInfo{}
	for _, t := range fn.Blocks {
		for _, h := range t.Succs {
			if !h.Dominates(t) {
				continue
			}
			l := byHeader[h]
			if l == nil {
				l = &loopInfo{Header: h, Blocks: map[*ssa.BasicBlock]bool{h: true}}
				byHeader[h] = l
			}
			// all blocks that reach t without passing through h
			stack := []*ssa.BasicBlock{t}
			for len(stack) > 0 {
				b := stack[len(stack)-1]
				stack = stack[:len(stack)-1]
				if l.Blocks[b] {
					continue
				}
				l.Blocks[b] = true
				stack = append(stack, b.Preds...)
			}
		}
	}
	var out []*loopInfo
	for _, l := range byHeader {
		out = append(out, l)
	}
	sort.Slice(out, func(i, j int) bool { return out[i].Header.Index < out[j].Header.Index })
	return out
}

// innermostLoop returns the smallest natural loop containing b (nil if none).
func innermostLoop(loops []*loopInfo, b *ssa.BasicBlock) *loopInfo {
	var best *loopInfo
	for _, l := range loops {
		if l.Blocks[b] && (best == nil || len(l.Blocks) < len(best.Blocks)) {
			best = l
		}
	}
	return best
}

// inAnyLoop reports whether block b lies on a CFG cycle.
func inAnyLoop(fn *ssa.Function, b *ssa.BasicBlock) bool {
	return innermostLoop(naturalLoops(fn), b) != nil
}

// ---------------------------------------------------------------------------------------------
// Reachability

// reachesAvoiding reports whether control can flow from just after instruction `from` to
// instruction `to` without entering block `avoid` (avoid may be nil). Entering means taking a CFG
// edge into it; starting inside `avoid` is allowed.
func reachesAvoiding(from, to ssa.Instruction, avoid *ssa.BasicBlock) bool {
	fb, tb := from.Block(), to.Block()
	if fb == tb && instrIndex(from) < instrIndex(to) {
		return true
	}
	seen := map[*ssa.BasicBlock]bool{}
	stack := []*ssa.BasicBlock{}
	for _, s := range fb.Succs {
		stack = append(stack, s)
	}
	for len(stack) > 0 {
		b := stack[len(stack)-1]
		stack = stack[:len(stack)-1]
		if seen[b] || b == avoid {
			continue
		}
		seen[b] = true
		if b == tb {
			return true
		}
		stack = append(stack, b.Succs...)
	}
	return false
}

// ---------------------------------------------------------------------------------------------
// Path branches

// branch is one conditional edge taken on a path: cond had truth value pol.
type branch struct {
	Cond  ssa.Value // phis resolved along the path prefix
	Pol   bool
	Block *ssa.BasicBlock // block ending in the If
	At    int             // index of Block in the path
}

// pathBranches lists the conditional edges of a path in order. Unlike Path.Facts the conditions
// are not normalised: Pol is the truth value of Cond itself.
func pathBranches(p *Path) []branch {
	var out []branch
	for i := 0; i+1 < len(p.Blocks); i++ {
		b := p.Blocks[i]
		if len(b.Instrs) == 0 {
			continue
		}
		iff, ok := b.Instrs[len(b.Instrs)-1].(*ssa.If)
		if !ok || b.Succs[0] == b.Succs[1] {
			continue
		}
		pol := b.Succs[0] == p.Blocks[i+1]
		out = append(out, branch{Cond: resolveAlong(p.Blocks[:i+1], iff.Cond), Pol: pol, Block: b, At: i})
	}
	return out
}

// stripNot removes leading negations: returns the inner value and the adjusted polarity.
func stripNot(v ssa.Value, pol bool) (ssa.Value, bool) {
	for {
		u, ok := v.(*ssa.UnOp)
		if !ok || u.Op != token.NOT {
			return v, pol
		}
		v, pol = u.X, !pol
	}
}

// eqTruth: for an ==/!= comparison taken with truth value pol, reports whether the two operands
// are equal on that edge.
func eqTruth(v ssa.Value, pol bool) (x, y ssa.Value, equal bool, ok bool) {
	v, pol = stripNot(v, pol)
	b, isB := v.(*ssa.BinOp)
	if !isB || (b.Op != token.EQL && b.Op != token.NEQ) {
		return nil, nil, false, false
	}
	if b.Op == token.NEQ {
		pol = !pol
	}
	return b.X, b.Y, pol, true
}

// ---------------------------------------------------------------------------------------------
// Object use discipline

// isRefType reports whether values of t can alias mutable memory.
func isRefType(t types.Type) bool {
	switch t.Underlying().(type) {
	case *types.Pointer, *types.Map, *types.Slice, *types.Chan, *types.Interface, *types.Signature:
		return true
	}
	return false
}

// readOnlyValue reports whether a (possibly reference-typed) value loaded from a tracked object
// is only read: compared, indexed, looked up, ranged, measured, or loaded through; never stored
// through, stored somewhere, or passed to a call. why describes the first offending use.
func readOnlyValue(v ssa.Value, allowCall func(ssa.CallInstruction, ssa.Value) bool, depth int) (ok bool, why string) {
	if depth > 12 {
		return false, "use chain too deep"
	}
	for _, r := range refs(v) {
		switch x := r.(type) {
		case *ssa.DebugRef:
		case *ssa.BinOp, *ssa.If, *ssa.Return:
			if _, isRet := x.(*ssa.Return); isRet && isRefType(v.Type()) {
				return false, "returned"
			}
		case *ssa.UnOp:
			if x.Op == token.MUL {
				if ok, why := readOnlyValue(x, allowCall, depth+1); !ok {
					return false, why
				}
			}
		case *ssa.FieldAddr:
			if ok, why := readOnlyValue(x, allowCall, depth+1); !ok {
				return false, why
			}
		case *ssa.Field:
			if ok, why := readOnlyValue(x, allowCall, depth+1); !ok {
				return false, why
			}
		case *ssa.IndexAddr:
			if ok, why := readOnlyValue(x, allowCall, depth+1); !ok {
				return false, why
			}
		case *ssa.Index:
			if ok, why := readOnlyValue(x, allowCall, depth+1); !ok {
				return false, why
			}
		case *ssa.Lookup:
			if x.X != v {
				continue // used as a key
			}
			if ok, why := readOnlyValue(x, allowCall, depth+1); !ok {
				return false, why
			}
		case *ssa.Extract:
			if ok, why := readOnlyValue(x, allowCall, depth+1); !ok {
				return false, why
			}
		case *ssa.Range:
			// iteration reads only
		case *ssa.Phi:
			if isRefType(v.Type()) {
				return false, "merged by a phi"
			}
		case *ssa.Store:
			if x.Addr == v {
				return false, fmt.Sprintf("stored through (line %d)", x.Parent().Prog.Fset.Position(instrPos(x)).Line)
			}
			if isRefType(v.Type()) {
				return false, "stored into another location"
			}
		case *ssa.MapUpdate:
			if x.Map == v {
				return false, "map updated"
			}
			if isRefType(v.Type()) {
				return false, "stored into a map"
			}
		case *ssa.MakeInterface, *ssa.ChangeType, *ssa.Convert, *ssa.ChangeInterface, *ssa.Slice:
			if !isRefType(v.Type()) {
				continue // a scalar copy (e.g. boxed for fmt)
			}
			if ok, why := readOnlyValue(x.(ssa.Value), allowCall, depth+1); !ok {
				return false, why
			}
		case ssa.CallInstruction:
			c := x.Common()
			if b, isB := c.Value.(*ssa.Builtin); isB && (b.Name() == "len" || b.Name() == "cap") {
				continue
			}
			if !isRefType(v.Type()) {
				continue // scalar argument
			}
			if allowCall != nil && allowCall(x, v) {
				continue
			}
			return false, "passed to " + calleeName(c)
		default:
			if isRefType(v.Type()) {
				return false, "used by " + r.String()
			}
		}
	}
	return true, ""
}

// firstWord returns the first blank-separated word of s.
func firstWord(s string) string {
	f := strings.Fields(s)
	if len(f) == 0 {
		return ""
	}
	return f[0]
}

// baseTypeName is typeName with every pointer level stripped (**T and *T and T all give T).
func baseTypeName(t types.Type) string {
	for {
		p, ok := t.(*types.Pointer)
		if !ok {
			break
		}
		t = p.Elem()
	}
	return typeName(t)
}

// declaredMethod returns the source-declared method `name` of named type pkg.typ (value or
// pointer receiver), never a synthetic wrapper. (Prog.Method looks in the pointer method set
// first and so returns the (*T).m wrapper for value-receiver methods.)
func (p *Prog) declaredMethod(pkg, typ, name string) *ssa.Function {
	named := p.Named(pkg, typ)
	if named == nil {
		return nil
	}
	for _, t := range []types.Type{named, types.NewPointer(named)} {
		ms := p.SSA.MethodSets.MethodSet(t)
		for i := 0; i < ms.Len(); i++ {
			if ms.At(i).Obj().Name() == name {
				if fn := p.SSA.MethodValue(ms.At(i)); fn != nil && fn.Synthetic == "" {
					return fn
				}
			}
		}
	}
	return nil
}
