package main

// C06 — auto-fail and auto-pause fire exactly on their documented triggers.

import (
	"fmt"
	"go/token"
	"go/types"
	"sort"
	"strings"

	"golang.org/x/tools/go/ssa"
)

func init() {
	register("C06", "Decides the structure of the canary evaluation loop (the function that stores Result.IsFailed=true, found from that store) by a path table over one loop iteration: (R1) IsFailed=true is stored exactly on the iteration paths where *AutoFail.Enabled holds and one trigger comparison holds strictly — HighestRestartCount(pod) > *AutoFail.MaxRestarts, PodRestarting.LastUpdateTime−LastTransitionTime > AutoFail.MaxRestartsDuration, now−Canary.LastTransitionTime > AutoFail.CanaryTimeout — with the operand roles checked, and every iteration path that does not fail refutes all three triggers (so nothing, in particular not the manual unpause, takes precedence over failing; the only skip is 'already failed'); (R2) IsPaused=true is stored exactly on non-failing paths with *AutoPause.Enabled, not unpaused, and a pause trigger: CannotStart(pod) outside the maxSlowStartDuration exemption, PendingCreate(pod) past maxSlowStartDuration, or HighestRestartCount(pod) > *AutoPause.MaxRestarts; (R3) IsFailed is sticky: it is only ever stored from the persisted-condition reader applied to params.Replicaset (before the evaluation) or as constant true, and the Canary-Failed condition is written from it after the loop on every path through the loop; (R4) the unpause case runs only under IsUnpaused (read from the canary-unpaused annotation of the parent) and stores nothing but IsPaused/PausedReason; (R7) Result.PodsToCreate is stored in the canary strategy only under fresh loads IsPaused=false ∧ IsFailed=false; (R8) CannotStart/PendingCreate are true only for a container with State.Waiting!=nil and a reason in the cannot-start set / ContainerCreating, and the cannot-start set ⊆ the reasons the status-reason conversion keeps ⊆ the declared reason constants; (R9) condition wire: Canary-Failed, Canary-Paused, PodRestarting and Canary are written and read under the same condition type, PodRestarting is written with last-update support and the condition helper moves LastTransitionTime only on a status change. R8 also requires the cannot-start set to be exactly the declared ExtendedDaemonSetStatusReason values that name an image, registry, container-creation or hook error (the documented start errors): the set and the API's enumeration of reasons agree in both directions.", runC06)
}

type tri int8

const (
	triUnknown tri = 0
	triTrue    tri = 1
	triFalse   tri = -1
)

func triOf(pol bool) tri {
	if pol {
		return triTrue
	}
	return triFalse
}

func (t tri) String() string {
	switch t {
	case triTrue:
		return "T"
	case triFalse:
		return "F"
	}
	return "?"
}

type c06Cmp struct{ confirmed, nonStrict, refuted bool }

func (c c06Cmp) String() string {
	switch {
	case c.confirmed:
		return "T"
	case c.nonStrict:
		return "T(non-strict)"
	case c.refuted:
		return "F"
	}
	return "?"
}

type c06Atoms struct {
	alreadyFailed, failEnabled, pauseEnabled, unpaused tri
	cmp                                                map[string]c06Cmp // F1 F2 F3 P2
	thrNil, condNil                                    map[string]tri    // F2 F3
	cs, pc, slowNil, slowExceeded                      tri
	notes                                              []string
}

func (a *c06Atoms) String() string {
	s := fmt.Sprintf("alreadyFailed=%v autoFail.enabled=%v restarts>autoFail.max=%v restartSpan>maxRestartsDuration=%v(thrNil=%v condNil=%v) age>canaryTimeout=%v(thrNil=%v condNil=%v) unpaused=%v autoPause.enabled=%v cannotStart=%v pendingCreate=%v maxSlowStart==nil=%v slowStartExceeded=%v restarts>autoPause.max=%v",
		a.alreadyFailed, a.failEnabled, a.cmp["F1"], a.cmp["F2"], a.thrNil["F2"], a.condNil["F2"], a.cmp["F3"], a.thrNil["F3"], a.condNil["F3"],
		a.unpaused, a.pauseEnabled, a.cs, a.pc, a.slowNil, a.slowExceeded, a.cmp["P2"])
	if len(a.notes) > 0 {
		s += "; " + strings.Join(a.notes, "; ")
	}
	return s
}

type c06Ctx struct {
	r        *Run
	eval     *ssa.Function // the evaluation function (holds the IsFailed=true stores)
	k        *keyer
	now      *ssa.Parameter
	condKey  map[string]string    // F2/F3 -> key of the condition lookup call feeding the measured value
	condCall map[string]*ssa.Call // F2/F3 -> that call
	podKey   string               // key of the pod handed to HighestRestartCount
}

var c06Expected = map[string]string{"F1": "count", "P2": "count", "F2": "restartSpan", "F3": "canaryAge"}
var c06TriggerName = map[string]string{
	"F1": "HighestRestartCount(pod) > *AutoFail.MaxRestarts",
	"F2": "PodRestarting.LastUpdateTime - LastTransitionTime > AutoFail.MaxRestartsDuration",
	"F3": "now - Canary.LastTransitionTime > AutoFail.CanaryTimeout",
	"P1": "cannot start (outside the slow-start exemption) or still creating containers after maxSlowStartDuration",
	"P2": "HighestRestartCount(pod) > *AutoPause.MaxRestarts",
}

func (c *c06Ctx) threshold(v ssa.Value, env *envT) string {
	switch {
	case allPathsEndE(v, env, "AutoFail", "MaxRestarts"):
		return "F1"
	case allPathsEndE(v, env, "AutoPause", "MaxRestarts"):
		return "P2"
	case allPathsEndE(v, env, "AutoFail", "MaxRestartsDuration", "Duration"):
		return "F2"
	case allPathsEndE(v, env, "AutoFail", "CanaryTimeout", "Duration"):
		return "F3"
	}
	return ""
}

func c06CondCall(v ssa.Value) *ssa.Call {
	c, ok := stripConv(v).(*ssa.Call)
	if ok && calleeName(&c.Call) == pkgERSCond+".GetExtendedDaemonSetReplicaSetStatusCondition" {
		return c
	}
	return nil
}

// measure classifies the measured operand of a trigger comparison. env binds the parameters of a
// repository helper in which the comparison may have been found.
func (c *c06Ctx) measure(v ssa.Value, env *envT) (string, *ssa.Call) {
	v, env = stripConvE(v, env)
	if e, ok := v.(*ssa.Extract); ok && e.Index == 0 {
		if call, ok := e.Tuple.(*ssa.Call); ok && calleeName(&call.Call) == pkgPodUtils+".HighestRestartCount" {
			return "count", call
		}
	}
	call, ok := v.(*ssa.Call)
	if !ok || calleeName(&call.Call) != "(time.Time).Sub" || len(call.Call.Args) != 2 {
		return "", nil
	}
	a, b := call.Call.Args[0], call.Call.Args[1]
	rb, okb := singleRootWithSuffixE(b, env, "LastTransitionTime", "Time")
	if !okb {
		return "", nil
	}
	cb := c06CondCall(rb)
	if cb == nil {
		return "", nil
	}
	if ra, oka := singleRootWithSuffixE(a, env, "LastUpdateTime", "Time"); oka {
		if ca := c06CondCall(ra); ca != nil && c.k.key(ca) == c.k.key(cb) {
			return "restartSpan", cb
		}
	}
	if c.isNow(a, env) {
		return "canaryAge", cb
	}
	return "", nil
}

func isResultFlagLoad(v ssa.Value, field string) bool {
	return isLoadOfField(v, pkgStrategy, "Result", field)
}

// atoms reads the path-local facts of one loop iteration. Facts about the boolean result of a
// repository helper are expanded into the facts the helper's own path table implies, read with
// the helper's parameters bound to the call-site arguments.
func (c *c06Ctx) atoms(p *Path) *c06Atoms {
	facts := factList(p.Facts)
	// named boolean flags (`exceeded := enabled && x != nil && span > max`, possibly computed before the
	// loop): true means every operand holds, false means some operand fails
	ff := c06FactsOf(c.eval)
	var falseFlags [][]Fact
	for _, f := range factList(p.Facts) {
		phi, isPhi := f.V.(*ssa.Phi)
		if !isPhi {
			continue
		}
		if f.Pol {
			facts = append(facts, factList(ff.impliedByFlag(phi, true, 0))...)
		} else if cases, ok := c06FalseCases(ff, phi, 0); ok {
			falseFlags = append(falseFlags, cases)
		}
	}
	a := c.atomsFromFacts(facts)
	// a false flag refutes a trigger when each way of being false does
	for _, cases := range falseFlags {
		var per []*c06Atoms
		for _, cf := range cases {
			per = append(per, c.atomsFromFacts([]Fact{cf}))
		}
		for _, t := range []string{"F1", "F2", "F3"} {
			all := len(per) > 0
			for _, pa := range per {
				if !pa.failRefuted(t) {
					all = false
				}
			}
			if all {
				x := a.cmp[t]
				x.refuted = true
				a.cmp[t] = x
			}
		}
		all := len(per) > 0
		for _, pa := range per {
			if !(pa.pauseEnabled == triFalse || pa.cmp["P2"].refuted) {
				all = false
			}
		}
		if all {
			x := a.cmp["P2"]
			x.refuted = true
			a.cmp["P2"] = x
		}
	}
	return a
}

// c06FalseCases lists, for a boolean phi that is a short-circuit conjunction, the facts one of
// which holds when the phi is false: each operand negated. ok=false when the phi has another shape.
func c06FalseCases(ff *FuncFacts, phi *ssa.Phi, depth int) ([]Fact, bool) {
	if depth > 4 {
		return nil, false
	}
	var out []Fact
	nLast := 0
	for i, e := range phi.Edges {
		pred := phi.Block().Preds[i]
		if b, isC := constBool(e); isC {
			if b {
				return nil, false // an `||` shape: true by another route
			}
			iff, isIf := pred.Instrs[len(pred.Instrs)-1].(*ssa.If)
			if !isIf || pred.Succs[0] == pred.Succs[1] {
				return nil, false
			}
			// the edge to the phi is taken when the operand is false
			out = append(out, ff.K.normCond(iff.Cond, pred.Succs[0] == phi.Block())...)
			continue
		}
		nLast++
		if sub, isPhi := e.(*ssa.Phi); isPhi {
			cases, ok := c06FalseCases(ff, sub, depth+1)
			if !ok {
				return nil, false
			}
			out = append(out, cases...)
			continue
		}
		out = append(out, ff.K.normCond(e, false)...)
	}
	return out, nLast == 1 && len(out) > 0
}

func (c *c06Ctx) atomsFromFacts(facts []Fact) *c06Atoms {
	a := &c06Atoms{cmp: map[string]c06Cmp{}, thrNil: map[string]tri{}, condNil: map[string]tri{}}
	for _, xf := range expandFacts(c.r.Prog, facts, nil, 0) {
		f, env := xf.Fact, xf.env
		v := f.V
		// ordered comparisons
		if big, small, strict, ok := factOrder(f); ok {
			if ts := c.threshold(small, env); ts != "" { // measured (big) > / >= threshold (small)
				role, _ := c.measure(big, env)
				if role == c06Expected[ts] {
					x := a.cmp[ts]
					if strict {
						x.confirmed = true
					} else {
						x.nonStrict = true
					}
					a.cmp[ts] = x
				} else {
					a.notes = append(a.notes, fmt.Sprintf("threshold of %s is compared with %s, not with its documented measured value", ts, describeVal(big)))
				}
			} else if tb := c.threshold(big, env); tb != "" { // threshold (big) > / >= measured (small): refutes measured > threshold
				role, _ := c.measure(small, env)
				if role == c06Expected[tb] {
					x := a.cmp[tb]
					x.refuted = true
					a.cmp[tb] = x
				} else {
					a.notes = append(a.notes, fmt.Sprintf("threshold of %s is compared with %s, not with its documented measured value", tb, describeVal(small)))
				}
			}
			continue
		}
		// nil comparisons (Pol==true means "== nil")
		if x, y, ok := eqOperands(v); ok && (isNilConst(x) || isNilConst(y)) {
			o := x
			if isNilConst(x) {
				o = y
			}
			switch {
			case allPathsEndE(o, env, "AutoFail", "MaxRestartsDuration"):
				a.thrNil["F2"] = triOf(f.Pol)
			case allPathsEndE(o, env, "AutoFail", "CanaryTimeout"):
				a.thrNil["F3"] = triOf(f.Pol)
			case allPathsEndE(o, env, "AutoPause", "MaxSlowStartDuration"):
				a.slowNil = triOf(f.Pol)
			default:
				ov, _ := stripConvE(o, env)
				if cc := c06CondCall(ov); cc != nil {
					kk := c.k.key(cc)
					for _, t := range []string{"F2", "F3"} {
						if c.condKey[t] == kk {
							a.condNil[t] = triOf(f.Pol)
						}
					}
				}
			}
			continue
		}
		sv, senv := stripConvE(v, env)
		switch {
		case isResultFlagLoad(v, "IsFailed") && env == nil:
			a.alreadyFailed = triOf(f.Pol)
		case isResultFlagLoad(v, "IsUnpaused") && env == nil:
			a.unpaused = triOf(f.Pol)
		case allPathsEndE(sv, senv, "AutoFail", "Enabled"):
			a.failEnabled = triOf(f.Pol)
		case allPathsEndE(sv, senv, "AutoPause", "Enabled"):
			a.pauseEnabled = triOf(f.Pol)
		default:
			if e, ok := sv.(*ssa.Extract); ok && e.Index == 0 {
				if call, ok := e.Tuple.(*ssa.Call); ok && calleeName(&call.Call) == pkgPodUtils+".CannotStart" {
					if c.rootKey(call.Call.Args[0], senv) == c.podKey {
						a.cs = triOf(f.Pol)
					} else {
						a.notes = append(a.notes, "CannotStart is applied to another pod than HighestRestartCount")
					}
				}
			}
			if call, ok := sv.(*ssa.Call); ok {
				switch calleeName(&call.Call) {
				case pkgPodUtils + ".PendingCreate":
					if c.rootKey(call.Call.Args[0], senv) == c.podKey {
						a.pc = triOf(f.Pol)
					} else {
						a.notes = append(a.notes, "PendingCreate is applied to another pod than HighestRestartCount")
					}
				case "(time.Time).After":
					if c.isNow(call.Call.Args[0], senv) && c.isSlowDeadline(call.Call.Args[1], senv) {
						a.slowExceeded = triOf(f.Pol)
					}
				case "(time.Time).Before":
					if c.isNow(call.Call.Args[1], senv) && c.isSlowDeadline(call.Call.Args[0], senv) {
						a.slowExceeded = triOf(f.Pol)
					}
				}
			}
		}
	}
	return a
}

// rootKey keys a value by the root of its access path (a loaded element and its address share it).
func (c *c06Ctx) rootKey(v ssa.Value, env *envT) string {
	ps := pathsOfE(v, env)
	if len(ps) == 1 && len(ps[0].fields) == 0 {
		return c.k.key(ps[0].root)
	}
	sv, _ := stripConvE(v, env)
	return c.k.key(sv)
}

func (c *c06Ctx) isNow(v ssa.Value, env *envT) bool {
	sv, _ := stripConvE(v, env)
	return c.now != nil && sv == ssa.Value(c.now)
}

// isSlowDeadline: pod.Status.StartTime.Time.Add(AutoPause.MaxSlowStartDuration.Duration) for the
// evaluated pod, possibly held in a local of a helper.
func (c *c06Ctx) isSlowDeadline(v ssa.Value, env *envT) bool {
	sv, senv := stripConvE(v, env)
	call, ok := sv.(*ssa.Call)
	if !ok || calleeName(&call.Call) != "(time.Time).Add" || len(call.Call.Args) != 2 {
		return false
	}
	root, okr := singleRootWithSuffixE(call.Call.Args[0], senv, "Status", "StartTime", "Time")
	if !okr || c.k.key(root) != c.podKey {
		return false
	}
	return allPathsEndE(call.Call.Args[1], senv, "AutoPause", "MaxSlowStartDuration", "Duration")
}

func describeVal(v ssa.Value) string {
	v = stripConv(v)
	ps := pathsOf(v)
	if len(ps) == 1 && len(ps[0].fields) > 0 {
		return strings.Join(ps[0].fields, ".")
	}
	if e, ok := v.(*ssa.Extract); ok {
		if call, ok := e.Tuple.(*ssa.Call); ok {
			return strings.ReplaceAll(calleeName(&call.Call), repoMod+"/", "") + fmt.Sprintf("#%d", e.Index)
		}
	}
	if call, ok := v.(*ssa.Call); ok {
		return strings.ReplaceAll(calleeName(&call.Call), repoMod+"/", "") + "(…)"
	}
	return v.String()
}

func (a *c06Atoms) failRefuted(t string) bool {
	if a.failEnabled == triFalse || a.cmp[t].refuted {
		return true
	}
	if t == "F2" || t == "F3" {
		return a.thrNil[t] == triTrue || a.condNil[t] == triTrue
	}
	return false
}

// p1 evaluates the cannot-start pause trigger on the path: confirmed / refuted.
func (a *c06Atoms) p1() (confirmed, refuted bool) {
	notExempt := a.slowNil == triTrue || a.slowExceeded == triTrue
	exempt := a.slowNil == triFalse && a.slowExceeded == triFalse
	csHolds := a.cs == triTrue && notExempt
	pcHolds := a.pc == triTrue && a.slowNil == triFalse && a.slowExceeded == triTrue
	csOut := a.cs == triFalse || exempt
	pcOut := a.pc == triFalse || a.slowNil == triTrue || a.slowExceeded == triFalse || a.pauseEnabled == triFalse
	return csHolds || pcHolds, csOut && pcOut
}

func c06CanaryEntry(r *Run) (*ssa.Function, map[*ssa.Function]bool) {
	entry := r.Prog.Func(pkgStrategy, "ManageCanaryDeployment")
	if entry == nil {
		r.Fatal("anchor %s.ManageCanaryDeployment not found", pkgStrategy)
		return nil, nil
	}
	return entry, r.Prog.reachableFuncs(entry)
}

func runC06(r *Run) {
	r.RuleDoc("C06.R1", "IsFailed=true is stored exactly when auto-fail is enabled and a documented trigger holds strictly; non-failing iterations refute every trigger")
	r.RuleDoc("C06.R2", "IsPaused=true is stored exactly on non-failing iterations with auto-pause enabled, not unpaused and a documented pause trigger")
	r.RuleDoc("C06.R3", "IsFailed is sticky: stored only from the persisted-condition reader or as true; Canary-Failed is written from it after the loop")
	r.RuleDoc("C06.R4", "the unpause case runs only under the unpaused annotation and touches only IsPaused/PausedReason")
	r.RuleDoc("C06.R7", "canary pods are created only under IsPaused=false ∧ IsFailed=false")
	r.RuleDoc("C06.R8", "cannot-start / pending-create predicates and the sibling reason tables agree")
	r.RuleDoc("C06.R9", "condition wire: Canary-Failed, Canary-Paused, PodRestarting, Canary are written and read under one type each")
	r.Floor("C06.R1", 6)
	r.Floor("C06.R2", 4)
	r.Floor("C06.R3", 6)
	r.Floor("C06.R4", 2)
	r.Floor("C06.R7", 2)
	r.Floor("C06.R8", 5)
	r.Floor("C06.R9", 8)
	r.Floor("C06.R10", 4)
	r.Floor("C06.R11", 1)
	r.Floor("C06.R12", 1)
	r.Floor("C06.R14", 3)
	r.Floor("C06.R15", 1)
	r.RuleDoc("C06.R14", "optional container-state records (Waiting / LastTerminationState.Terminated) are dereferenced only where a recorded state is established")
	r.RuleDoc("C06.R15", "MostRecentRestart returns the latest FinishedAt among containers with RestartCount != 0")
	r.Floor("C06.R13", 2)
	r.RuleDoc("C06.R12", "HighestRestartCount returns the running maximum of RestartCount over every container status (no container skipped)")
	r.RuleDoc("C06.R13", "the canary pause / unpause readers are true exactly on their annotation value \"true\" (pause also on the Canary-Paused condition): nothing else counts as a manual unpause")
	r.RuleDoc("C06.R10", "HighestRestartCount, MostRecentRestart, CannotStart and PendingCreate iterate a list covering regular, init and ephemeral container statuses")
	r.RuleDoc("C06.R11", "every canary pod counted as current is handed to the evaluation")
	r.NotCovered("numeric and timing semantics of the triggers (timestamp arithmetic beyond operand roles); the zero-evaluable-pod case (outside the statement); trigger formulations other than `measured > threshold` comparisons and now.After(start.Add(max)) are reported as undecided rather than analysed; that the persisted conditions reach the API server (C14)")

	_, reach := c06CanaryEntry(r)
	if reach == nil {
		return
	}
	// the evaluation function: the one that stores constant true into Result.IsFailed
	var eval *ssa.Function
	for _, fn := range sortedFuncs(reach) {
		for _, st := range storesToFieldOf(fn, pkgStrategy, "Result", "IsFailed") {
			if b, ok := constBool(st.Val); ok && b {
				if eval != nil && eval != fn {
					r.Undecided("C06.R1", "evaluation function", r.Prog.Pos(instrPos(st)), shortFunc(fn), "IsFailed=true is stored in more than one function")
					return
				}
				eval = fn
			}
		}
	}
	if eval == nil {
		r.Check("C06.R1", "evaluation function", "-", "-", "a store IsFailed=true reachable from ManageCanaryDeployment", false, "none found")
		return
	}
	c := &c06Ctx{r: r, eval: eval, k: newKeyer(eval), condKey: map[string]string{}, condCall: map[string]*ssa.Call{}}
	for _, p := range eval.Params {
		if typeName(p.Type()) == "time.Time" {
			c.now = p
		}
	}
	c06Evaluation(c)
	c06Sticky(c, reach)
	failedConditionWrites(r, "C06.R3")
	c06StatusLists(r)
	c06RunningMax(r)
	c06OptionalStateDerefs(r)
	c06LatestRestart(r)
	c06ActiveResets(c)
	c06CanaryReaders(r)
	c06AllCurrentEvaluated(c, reach)
	canaryCreationGuard(r, "C06.R7")
	c06Predicates(r)
	c06Wire(c, reach)
}

// c06Evaluation implements R1, R2 and R4 on the iteration paths of the evaluation loop.
func c06Evaluation(c *c06Ctx) {
	r, eval := c.r, c.eval
	fname := shortFunc(eval)
	// classify stores
	var failStores, pauseStores, unpauseStores []*ssa.Store
	for _, st := range storesToFieldOf(eval, pkgStrategy, "Result", "IsFailed") {
		if b, ok := constBool(st.Val); ok && b {
			failStores = append(failStores, st)
		} // other values are reported by R3
	}
	for _, st := range storesToFieldOf(eval, pkgStrategy, "Result", "IsPaused") {
		b, ok := constBool(st.Val)
		switch {
		case ok && b:
			pauseStores = append(pauseStores, st)
		case ok && !b:
			unpauseStores = append(unpauseStores, st)
		default:
			r.Undecided("C06.R2", "store IsPaused="+describeVal(st.Val), r.Prog.Pos(instrPos(st)), fname, "IsPaused is stored from a value that is neither constant in the evaluation function")
		}
	}
	// the loop
	var header *ssa.BasicBlock
	for _, st := range failStores {
		h := innermostLoopHeader(st.Block())
		if h == nil || (header != nil && h != header) {
			r.Undecided("C06.R1", "evaluation loop", r.Prog.Pos(instrPos(st)), fname, "the IsFailed=true stores are not inside one per-pod loop")
			return
		}
		header = h
	}
	for _, st := range append(append([]*ssa.Store{}, pauseStores...), unpauseStores...) {
		if innermostLoopHeader(st.Block()) != header {
			r.Undecided("C06.R2", "evaluation loop", r.Prog.Pos(instrPos(st)), fname, "an IsPaused store is outside the per-pod loop of the fail decisions")
			return
		}
	}
	// pre-pass: pod, condition lookups feeding the duration triggers
	podKeys := map[string]bool{}
	for _, ci := range callsIn(eval) {
		if call, ok := ci.(*ssa.Call); ok && calleeName(&call.Call) == pkgPodUtils+".HighestRestartCount" {
			podKeys[c.rootKey(call.Call.Args[0], nil)] = true
		}
	}
	if len(podKeys) != 1 {
		r.Undecided("C06.R1", "evaluated pod", r.Prog.Pos(eval.Pos()), fname, fmt.Sprintf("HighestRestartCount is applied to %d different values in the evaluation function", len(podKeys)))
		return
	}
	for k := range podKeys {
		c.podKey = k
	}
	for _, b := range eval.Blocks {
		for _, in := range b.Instrs {
			bo, ok := in.(*ssa.BinOp)
			if !ok {
				continue
			}
			switch bo.Op {
			case token.LSS, token.GTR, token.LEQ, token.GEQ:
			default:
				continue
			}
			for _, pair := range [][2]ssa.Value{{bo.X, bo.Y}, {bo.Y, bo.X}} {
				t := c.threshold(pair[0], nil)
				if t != "F2" && t != "F3" {
					continue
				}
				if role, cc := c.measure(pair[1], nil); role == c06Expected[t] && cc != nil {
					c.condKey[t] = c.k.key(cc)
					c.condCall[t] = cc
				}
			}
		}
	}

	paths, ok := loopBodyPaths(eval, c.k, header, 20000)
	r.paths += len(paths)
	if !ok {
		r.Undecided("C06.R1", "evaluation loop", r.Prog.Pos(eval.Pos()), fname, "path cap exceeded")
		return
	}
	inBlocks := func(p *Path, sts []*ssa.Store) bool {
		for _, st := range sts {
			if p.Contains(st.Block()) {
				return true
			}
		}
		return false
	}
	hf := computeFacts(eval).At(header)
	for _, p := range paths {
		for kk, f := range hf {
			if _, dup := p.Facts[kk]; !dup {
				p.Facts[kk] = f
			}
		}
	}
	atoms := make([]*c06Atoms, len(paths))
	for i, p := range paths {
		atoms[i] = c.atoms(p)
	}

	// R1 ⇒ : per fail store
	for i, st := range failStores {
		reason := c06ReasonInBlock(st, "FailedReason")
		construct := fmt.Sprintf("store IsFailed=true [reason %s]", reason)
		if reason == "?" {
			construct = fmt.Sprintf("store IsFailed=true #%d", i+1)
		}
		n, okAll, detail := 0, true, ""
		for j, p := range paths {
			if !p.Contains(st.Block()) {
				continue
			}
			n++
			a := atoms[j]
			conf := a.cmp["F1"].confirmed || a.cmp["F2"].confirmed || a.cmp["F3"].confirmed
			if a.failEnabled == triTrue && conf {
				continue
			}
			if okAll {
				okAll = false
				switch {
				case a.failEnabled != triTrue:
					detail = "reached without *AutoFail.Enabled being true"
				case a.cmp["F1"].nonStrict || a.cmp["F2"].nonStrict || a.cmp["F3"].nonStrict:
					detail = "the trigger comparison is not strict (the documented triggers are 'exceeds': `>`)"
				default:
					detail = "no documented auto-fail trigger holds"
				}
				detail += " on a path with " + a.String()
			}
		}
		if n == 0 {
			okAll, detail = false, "no iteration path reaches this store"
		}
		r.Check("C06.R1", construct, r.Prog.Pos(instrPos(st)), fname,
			"IsFailed=true only under *AutoFail.Enabled and a strict trigger: restarts > AutoFail.MaxRestarts, restart span > AutoFail.MaxRestartsDuration, or canary age > AutoFail.CanaryTimeout", okAll, detail)
	}
	// R1 ⇐ : every non-failing iteration refutes each trigger
	for _, t := range []string{"F1", "F2", "F3"} {
		okAll, detail, n := true, "", 0
		for j, p := range paths {
			a := atoms[j]
			if inBlocks(p, failStores) || a.alreadyFailed == triTrue {
				continue
			}
			n++
			if !a.failRefuted(t) && okAll {
				okAll = false
				detail = "an iteration that does not store IsFailed=true leaves the trigger undecided or true: " + a.String()
			}
		}
		o := r.Check("C06.R1", "non-failing iterations refute ["+c06TriggerName[t]+"]", r.Prog.Pos(header.Instrs[0].Pos()), fname,
			"every iteration path without IsFailed=true (other than 'already failed') has auto-fail disabled or the trigger false: nothing takes precedence over failing, no pod is skipped", okAll, detail)
		if n == 0 {
			o.OK, o.Detail = false, "no non-failing iteration path found"
		}
	}
	// R2 ⇒ : per pause store
	for i, st := range pauseStores {
		reason := c06ReasonInBlock(st, "PausedReason")
		construct := fmt.Sprintf("store IsPaused=true [reason %s]", reason)
		if reason == "?" {
			construct = fmt.Sprintf("store IsPaused=true #%d", i+1)
		}
		n, okAll, detail := 0, true, ""
		for j, p := range paths {
			if !p.Contains(st.Block()) {
				continue
			}
			n++
			a := atoms[j]
			p1c, _ := a.p1()
			good := !inBlocks(p, failStores) && a.pauseEnabled == triTrue && a.unpaused == triFalse && (p1c || a.cmp["P2"].confirmed)
			if good {
				continue
			}
			if okAll {
				okAll = false
				switch {
				case inBlocks(p, failStores):
					detail = "the same iteration also fails the canary"
				case a.pauseEnabled != triTrue:
					detail = "reached without *AutoPause.Enabled being true"
				case a.unpaused != triFalse:
					detail = "reached without IsUnpaused being false (a manual unpause overrides pausing)"
				case a.cmp["P2"].nonStrict:
					detail = "the restart comparison is not strict"
				default:
					detail = "no documented auto-pause trigger holds"
				}
				detail += " on a path with " + a.String()
			}
		}
		if n == 0 {
			okAll, detail = false, "no iteration path reaches this store"
		}
		r.Check("C06.R2", construct, r.Prog.Pos(instrPos(st)), fname,
			"IsPaused=true only on a non-failing iteration with *AutoPause.Enabled, IsUnpaused=false and a pause trigger (cannot start outside the slow-start exemption, pending create past maxSlowStartDuration, restarts > AutoPause.MaxRestarts)", okAll, detail)
	}
	// R2 ⇐
	for _, t := range []string{"P1", "P2"} {
		okAll, detail, n := true, "", 0
		for j, p := range paths {
			a := atoms[j]
			if inBlocks(p, failStores) || inBlocks(p, pauseStores) || a.alreadyFailed == triTrue {
				continue
			}
			n++
			ref := a.pauseEnabled == triFalse || a.unpaused == triTrue
			if !ref {
				if t == "P1" {
					_, ref = a.p1()
				} else {
					ref = a.cmp["P2"].refuted
				}
			}
			if !ref && okAll {
				okAll = false
				detail = "an iteration that neither fails nor pauses leaves the trigger undecided or true: " + a.String()
			}
		}
		o := r.Check("C06.R2", "non-pausing iterations refute ["+c06TriggerName[t]+"]", r.Prog.Pos(header.Instrs[0].Pos()), fname,
			"every iteration path that neither fails nor pauses has auto-pause disabled, a manual unpause, or the trigger false", okAll, detail)
		if n == 0 {
			o.OK, o.Detail = false, "no such iteration path found"
		}
	}
	// R4: unpause stores
	for i, st := range unpauseStores {
		n, okAll, detail := 0, true, ""
		for j, p := range paths {
			if !p.Contains(st.Block()) {
				continue
			}
			n++
			a := atoms[j]
			if a.unpaused == triTrue && !inBlocks(p, failStores) {
				continue
			}
			if okAll {
				okAll = false
				detail = "IsPaused=false is stored without IsUnpaused being true: " + a.String()
			}
		}
		if n == 0 {
			okAll, detail = false, "no iteration path reaches this store"
		}
		// the block touches only IsPaused / PausedReason of the result
		for _, in := range st.Block().Instrs {
			if s2, ok := in.(*ssa.Store); ok {
				if fa, ok := s2.Addr.(*ssa.FieldAddr); ok && isNamedType(fa.X.Type(), pkgStrategy, "Result") {
					if f := fieldName(fa); f != "IsPaused" && f != "PausedReason" {
						okAll = false
						detail = "the unpause case also stores Result." + f
					}
				}
			}
		}
		r.Check("C06.R4", fmt.Sprintf("store IsPaused=false #%d", i+1), r.Prog.Pos(instrPos(st)), fname,
			"the unpause case runs only under IsUnpaused and stores only IsPaused/PausedReason", okAll, detail)
	}
	if len(unpauseStores) == 0 {
		r.Check("C06.R4", "store IsPaused=false", r.Prog.Pos(eval.Pos()), fname, "a manual unpause clears IsPaused", false, "no store IsPaused=false in the evaluation loop")
	}
}

// c06ReasonInBlock names the reason stored next to a flag store (for stable obligation keys).
func c06ReasonInBlock(st *ssa.Store, field string) string {
	for _, in := range st.Block().Instrs {
		if s2, ok := in.(*ssa.Store); ok && isFieldAddrOf(s2.Addr, pkgStrategy, "Result", field) {
			if s, ok := constString(s2.Val); ok {
				return s
			}
			if e, ok := stripConv(s2.Val).(*ssa.Extract); ok {
				if call, ok := e.Tuple.(*ssa.Call); ok {
					return strings.ReplaceAll(calleeName(&call.Call), repoMod+"/", "") + fmt.Sprintf("#%d", e.Index)
				}
			}
			return "computed"
		}
	}
	return "?"
}

// c06Sticky implements R3 and the IsUnpaused source part of R4.
func c06Sticky(c *c06Ctx, reach map[*ssa.Function]bool) {
	r := c.r
	// (a) every store to Result.IsFailed in the repository
	var initStore *ssa.Store
	for _, fn := range repoFuncs(r.Prog) {
		for _, st := range storesToFieldOf(fn, pkgStrategy, "Result", "IsFailed") {
			pos := r.Prog.Pos(instrPos(st))
			if b, ok := constBool(st.Val); ok {
				detail := ""
				if !b {
					detail = "constant false is stored into Result.IsFailed"
				}
				o := r.Check("C06.R3", "store IsFailed="+fmt.Sprint(b), pos, shortFunc(fn), "IsFailed is never reset to false", b, detail)
				o.Trivial = b
				continue
			}
			if call, ok := stripConv(st.Val).(*ssa.Call); ok && calleeName(&call.Call) == pkgEDS+".IsCanaryDeploymentFailed" {
				okArg := allPathsEnd(call.Call.Args[0], "Replicaset")
				if okArg {
					root, _ := singleRootWithSuffix(call.Call.Args[0], "Replicaset")
					okArg = root != nil && isNamedType(root.Type(), pkgStrategy, "Parameters")
				}
				r.Check("C06.R3", "store IsFailed=persisted condition", pos, shortFunc(fn), "the initial value is the persisted Canary-Failed reader applied to params.Replicaset", okArg, "argument is "+describeVal(call.Call.Args[0]))
				if reach[fn] && okArg {
					initStore = st
				}
				continue
			}
			r.Undecided("C06.R3", "store IsFailed="+describeVal(st.Val), pos, shortFunc(fn), "IsFailed is stored from a value that is neither true nor the persisted-condition reader")
		}
	}
	// (b) the initial store precedes the evaluation call on the same Result
	var evalCalls []ssa.CallInstruction
	for _, fn := range sortedFuncs(reach) {
		for _, ci := range callsIn(fn) {
			if staticCallee(ci.Common()) == c.eval {
				evalCalls = append(evalCalls, ci)
			}
		}
	}
	if len(evalCalls) == 0 {
		r.Check("C06.R3", "evaluation call", r.Prog.Pos(c.eval.Pos()), shortFunc(c.eval), "the evaluation function is called from the canary strategy", false, "no static call site")
	}
	for _, ci := range evalCalls {
		fn := ci.Parent()
		ok := initStore != nil && initStore.Parent() == fn
		detail := ""
		if !ok {
			detail = "the caller does not initialise IsFailed from the persisted condition"
		} else {
			dom := initStore.Block() == ci.Block() && instrIndex(initStore) < instrIndex(ci) || initStore.Block() != ci.Block() && initStore.Block().Dominates(ci.Block())
			sameRes := false
			sroot, _ := accessPath(initStore.Addr)
			for _, a := range ci.Common().Args {
				if stripConv(a) == sroot {
					sameRes = true
				}
			}
			ok = dom && sameRes
			detail = fmt.Sprintf("initial store dominates the call=%v, same Result=%v", dom, sameRes)
		}
		r.Check("C06.R3", "IsFailed initialised before evaluation", r.Prog.Pos(ci.Pos()), shortFunc(fn), "IsFailed holds the persisted verdict when the evaluation starts", ok, detail)
	}
	// (c) Canary-Failed / Canary-Paused written from the flags after the loop
	for _, flag := range []string{"IsFailed", "IsPaused"} {
		w := c06FlagConditionWrite(c.eval, flag)
		rule := "C06.R3"
		if flag == "IsPaused" {
			rule = "C06.R9"
		}
		if w == nil {
			r.Check(rule, "condition written from "+flag, r.Prog.Pos(c.eval.Pos()), shortFunc(c.eval), "a replica-set condition is written from "+flag, false, "no UpdateExtendedDaemonSetReplicaSetStatusCondition call whose status derives from BoolToCondition("+flag+")")
			continue
		}
		if flag != "IsFailed" {
			continue
		}
		// every path from a loop exit to a return passes the write; the flag load is after the loop
		var header *ssa.BasicBlock
		for _, st := range storesToFieldOf(c.eval, pkgStrategy, "Result", "IsFailed") {
			header = innermostLoopHeader(st.Block())
		}
		ok, detail := true, ""
		if header == nil {
			ok, detail = false, "no evaluation loop"
		} else {
			rfH := reachFrom(header)
			inLoop := func(b *ssa.BasicBlock) bool { return b == header || (rfH[b] && reachFrom(b)[header]) }
			avoid := map[*ssa.BasicBlock]bool{}
			for _, o := range w.outers {
				if inLoop(o.Block()) {
					ok, detail = false, "the condition is written inside the loop"
				}
				avoid[o.Block()] = true
			}
			if w.holder == c.eval && inLoop(w.load.Block()) {
				ok, detail = false, "the flag is read inside the loop"
			}
			for _, b := range c.eval.Blocks {
				if !inLoop(b) {
					continue
				}
				for _, s := range b.Succs {
					if inLoop(s) {
						continue
					}
					seen := reachFromAvoiding(s, avoid)
					for x := range seen {
						if isReturnBlock(x) {
							ok, detail = false, fmt.Sprintf("a path from the loop exit reaches the return at %s without writing the condition", r.Prog.Pos(instrPos(returnOf(x))))
						}
					}
				}
			}
			if w.holder != c.eval {
				// the helper writes the condition on each of its paths, from the Result it was handed
				h := w.holder
				for x := range reachFromAvoiding(h.Blocks[0], map[*ssa.BasicBlock]bool{w.call.Block(): true}) {
					if isReturnBlock(x) {
						ok, detail = false, "a path of "+shortFunc(h)+" returns without writing the condition"
					}
				}
				lroot, _ := accessPath(w.load)
				lp, isP := lroot.(*ssa.Parameter)
				var evalRes ssa.Value
				for _, st := range storesToFieldOf(c.eval, pkgStrategy, "Result", "IsFailed") {
					evalRes, _ = accessPath(st.Addr)
				}
				if !isP {
					ok, detail = false, "the helper does not read IsFailed from the Result it receives"
				} else {
					for _, src := range r.Prog.stepOut(lp) {
						if stripConv(src) != evalRes {
							ok, detail = false, "the helper is handed another Result than the one the evaluation decides on"
						}
					}
				}
			}
			// load is fresh at the call
			if !freshAt(w.load, w.call, flagKillers(w.holder, pkgStrategy, "Result", "IsFailed")) {
				ok, detail = false, "IsFailed may change between its load and the condition write"
			}
			if !hasPathSuffix(w.call.Call.Args[0], "NewStatus") {
				ok, detail = false, "the condition is not written into the result's NewStatus"
			}
		}
		r.Check("C06.R3", "Canary-Failed written from IsFailed after the loop", r.Prog.Pos(w.call.Pos()), shortFunc(c.eval),
			"on every path through the evaluation loop the replica-set condition is written from the final IsFailed", ok, detail)
	}
	// IsUnpaused source (R4)
	n := 0
	for _, fn := range repoFuncs(r.Prog) {
		for _, st := range storesToFieldOf(fn, pkgStrategy, "Result", "IsUnpaused") {
			n++
			call, ok := stripConv(st.Val).(*ssa.Call)
			good := ok && calleeName(&call.Call) == pkgEDS+".IsCanaryDeploymentUnpaused"
			detail := "stored from " + describeVal(st.Val)
			if good {
				good = c06IsParentAnnotations(r, fn, call.Call.Args[0])
				if !good {
					detail = "the reader is not applied to the parent ExtendedDaemonSet's annotations"
				}
			}
			r.Check("C06.R4", "store IsUnpaused", r.Prog.Pos(instrPos(st)), shortFunc(fn), "IsUnpaused is the canary-unpaused annotation reader applied to the parent's annotations", good, detail)
		}
	}
	if n == 0 {
		r.Check("C06.R4", "store IsUnpaused", "-", "-", "IsUnpaused is read from the annotations", false, "no store to Result.IsUnpaused")
	}
}

// c06IsParentAnnotations: v is X.GetAnnotations()/X.Annotations of an *ExtendedDaemonSet, directly or
// through a parameter fed so by every static call site.
func c06IsParentAnnotations(r *Run, fn *ssa.Function, v ssa.Value) bool {
	isEDS := func(x ssa.Value) bool { return isNamedType(x.Type(), pkgAPI, "ExtendedDaemonSet") }
	v = stripConv(v)
	if annotationsOf(isEDS)(v) {
		return true
	}
	p, ok := v.(*ssa.Parameter)
	if !ok {
		return false
	}
	all := repoFuncSet(r.Prog)
	cs := callSitesOf(fn, all)
	if len(cs) == 0 {
		return false
	}
	for _, c := range cs {
		if !annotationsOf(isEDS)(stripConv(c.Common().Args[paramIndex(p)])) {
			return false
		}
	}
	return true
}

type c06CondWrite struct {
	call   *ssa.Call
	load   *ssa.UnOp
	typ    string
	holder *ssa.Function         // function containing the update (the evaluation or a helper it calls)
	outers []ssa.CallInstruction // in the evaluation: the update itself, or the calls of the helper
}

func inRepoFunc(g *ssa.Function) bool {
	root := g
	for root.Parent() != nil {
		root = root.Parent()
	}
	return len(g.Blocks) > 0 && root.Pkg != nil && (root.Pkg.Pkg.Path() == repoMod || strings.HasPrefix(root.Pkg.Pkg.Path(), repoMod+"/"))
}

// c06ResultHelpers lists fn and the repository functions it calls (transitively, bounded) with a
// *Result argument, each with its call sites in fn.
func c06ResultHelpers(fn *ssa.Function) (order []*ssa.Function, sites map[*ssa.Function][]ssa.CallInstruction) {
	sites = map[*ssa.Function][]ssa.CallInstruction{}
	order = []*ssa.Function{fn}
	var visit func(g *ssa.Function, via ssa.CallInstruction, depth int)
	seen := map[*ssa.Function]bool{fn: true}
	visit = func(g *ssa.Function, via ssa.CallInstruction, depth int) {
		for _, ci := range callsIn(g) {
			h := staticCallee(ci.Common())
			if h == nil || !inRepoFunc(h) {
				continue
			}
			passes := false
			for _, a := range ci.Common().Args {
				if isNamedType(a.Type(), pkgStrategy, "Result") {
					passes = true
				}
			}
			if !passes {
				continue
			}
			top := via
			if top == nil {
				top = ci
			}
			sites[h] = append(sites[h], top)
			if !seen[h] && depth < 2 {
				seen[h] = true
				order = append(order, h)
				visit(h, top, depth+1)
			}
		}
	}
	visit(fn, nil, 0)
	return order, sites
}

// c06FlagConditionWrite finds the UpdateExtendedDaemonSetReplicaSetStatusCondition call whose status
// argument is BoolToCondition(load Result.<flag>), in the evaluation function or in a helper that
// it hands its Result to.
func c06FlagConditionWrite(fn *ssa.Function, flag string) *c06CondWrite {
	order, sites := c06ResultHelpers(fn)
	for _, h := range order {
		for _, ci := range callsIn(h) {
			call, ok := ci.(*ssa.Call)
			if !ok || calleeName(&call.Call) != pkgERSCond+".UpdateExtendedDaemonSetReplicaSetStatusCondition" || len(call.Call.Args) < 4 {
				continue
			}
			conv, ok := stripConv(call.Call.Args[3]).(*ssa.Call)
			if !ok || calleeName(&conv.Call) != pkgERSCond+".BoolToCondition" {
				continue
			}
			ld, ok := conv.Call.Args[0].(*ssa.UnOp)
			if !ok || !isResultFlagLoad(ld, flag) {
				continue
			}
			t, _ := condTypeConst(call)
			w := &c06CondWrite{call: call, load: ld, typ: t, holder: h}
			if h == fn {
				w.outers = []ssa.CallInstruction{call}
			} else {
				w.outers = sites[h]
			}
			return w
		}
	}
	return nil
}

// canaryCreationGuard (C06.R7, C08.R2): in the canary strategy every non-nil store to
// Result.PodsToCreate is under fresh loads IsPaused=false and IsFailed=false of the same Result.
func canaryCreationGuard(r *Run, rule string) {
	_, reach := c06CanaryEntry(r)
	if reach == nil {
		return
	}
	n := 0
	for _, fn := range sortedFuncs(reach) {
		sts := storesToFieldOf(fn, pkgStrategy, "Result", "PodsToCreate")
		if len(sts) == 0 {
			continue
		}
		ff := computeFacts(fn)
		for _, st := range sts {
			n++
			pos := r.Prog.Pos(instrPos(st))
			if isNilConst(st.Val) {
				o := r.Check(rule, "store PodsToCreate=nil", pos, shortFunc(fn), "storing nil creates nothing", true, "")
				o.Trivial = true
				continue
			}
			sroot, _ := accessPath(st.Addr)
			// the paused flag starts from the annotation / Canary-Paused condition reader
			initOK, initDetail := false, "no store Result.IsPaused = IsCanaryDeploymentPaused(parent annotations, params.Replicaset) dominating the creation decision"
			for _, ps := range storesToFieldOf(fn, pkgStrategy, "Result", "IsPaused") {
				if pr, _ := accessPath(ps.Addr); pr != sroot {
					continue
				}
				e, isE := stripConv(ps.Val).(*ssa.Extract)
				if !isE || e.Index != 0 {
					continue
				}
				call, isC := e.Tuple.(*ssa.Call)
				if !isC || calleeName(&call.Call) != pkgEDS+".IsCanaryDeploymentPaused" {
					continue
				}
				argsOK := c06IsParentAnnotations(r, fn, call.Call.Args[0]) && allPathsEnd(call.Call.Args[1], "Replicaset")
				dom := ps.Block() == st.Block() && instrIndex(ps) < instrIndex(st) || ps.Block() != st.Block() && ps.Block().Dominates(st.Block())
				for _, kc := range flagKillers(fn, pkgStrategy, "Result", "IsPaused") {
					if _, isCall := kc.(ssa.CallInstruction); isCall && mayFollow(kc, ps) {
						dom = false // the reader would overwrite what the evaluation decided
					}
				}
				if argsOK && dom {
					initOK, initDetail = true, ""
				} else {
					initDetail = fmt.Sprintf("reader arguments ok=%v, dominates the creation decision=%v", argsOK, dom)
				}
			}
			r.Check(rule, "IsPaused initialised from the pause reader", pos, shortFunc(fn),
				"before the evaluation IsPaused is IsCanaryDeploymentPaused(parent annotations, this replica set): annotation or Canary-Paused condition", initOK, initDetail)
			var missing []string
			for _, flag := range []string{"IsPaused", "IsFailed"} {
				found := false
				stale := false
				killers := flagKillers(fn, pkgStrategy, "Result", flag)
				for _, f := range ff.AtExpanded(st.Block()) {
					if f.Pol || !isResultFlagLoad(f.V, flag) {
						continue
					}
					root, _ := accessPath(f.V)
					if root != sroot {
						continue
					}
					if freshAt(f.V.(*ssa.UnOp), st, killers) {
						found = true
					} else {
						stale = true
					}
				}
				for _, k := range killers {
					if k != ssa.Instruction(st) && mayFollow(st, k) {
						found = false
						stale = true
					}
				}
				if !found {
					if stale {
						missing = append(missing, flag+"=false (the tested value is stale: the flag may change between the test and the store, or after the store — the evaluation must come first)")
					} else {
						missing = append(missing, flag+"=false")
					}
				}
			}
			detail := ""
			if len(missing) > 0 {
				detail = "missing: " + strings.Join(missing, ", ") + "; must-facts: " + shortSet(ff.At(st.Block()))
			}
			r.Check(rule, "store PodsToCreate", pos, shortFunc(fn),
				"canary pods are handed to creation only under IsPaused=false ∧ IsFailed=false, tested after the evaluation", len(missing) == 0, detail)
		}
	}
	if n == 0 {
		r.Check(rule, "store PodsToCreate", "-", "-", "the canary strategy stores Result.PodsToCreate", false, "no store found")
	}
}

func shortSet(s factSet) string {
	var out []string
	for _, f := range s {
		k := strings.ReplaceAll(f.Key, repoMod+"/", "")
		if len(k) > 60 {
			k = k[:60] + "…"
		}
		if !f.Pol {
			k = "¬" + k
		}
		out = append(out, k)
	}
	sort.Strings(out)
	return strings.Join(out, " ∧ ")
}

// c06Predicates implements R8.
// c06TruePathFacts returns, for every path of fn on which its first result can be true, the facts
// of the path expanded through repository helpers (with a non-constant result contributing itself).
func c06TruePathFacts(r *Run, fn *ssa.Function) (out [][]xfact, rets []*Path, ok bool) {
	paths, k, okp := funcPaths(fn, 5000)
	r.paths += len(paths)
	if !okp {
		return nil, nil, false
	}
	for _, p := range paths {
		ret := returnOf(p.Blocks[len(p.Blocks)-1])
		res := p.Resolve(ret.Results[0])
		facts := factList(p.Facts)
		if b, isC := constBool(res); isC {
			if !b {
				continue
			}
		} else {
			facts = append(facts, k.normCond(res, true)...)
		}
		out = append(out, expandFacts(r.Prog, facts, nil, 0))
		rets = append(rets, p)
	}
	return out, rets, true
}

func c06Predicates(r *Run) {
	waitingNil := func(xf xfact) bool {
		x, y, ok := eqOperands(xf.V)
		if !ok || xf.Pol {
			return false
		}
		o := x
		if isNilConst(x) {
			o = y
		} else if !isNilConst(y) {
			return false
		}
		return allPathsEndE(o, xf.env, "State", "Waiting")
	}
	isWaitingReason := func(v ssa.Value, env *envT) bool { return allPathsEndE(v, env, "State", "Waiting", "Reason") }
	// a value is the waiting reason also when it is the string result of a helper that returns
	// State.Waiting.Reason on every path where it returns something else than the empty string
	var isWaitingReasonVal func(v ssa.Value, env *envT, depth int) bool
	isWaitingReasonVal = func(v ssa.Value, env *envT, depth int) bool {
		if isWaitingReason(v, env) {
			return true
		}
		sv, senv := stripConvE(v, env)
		e, isE := sv.(*ssa.Extract)
		if !isE || depth > 2 {
			return false
		}
		call, isC := e.Tuple.(*ssa.Call)
		if !isC {
			return false
		}
		h := calleeOfE(&call.Call, senv)
		if h == nil || !r.Prog.IsRuleSite(h) {
			return false
		}
		hp, _, okh := cachedFuncPaths(h)
		if !okh {
			return false
		}
		henv := bindArgs(h, call.Call.Args, senv)
		n := 0
		for _, q := range hp {
			ret := returnOf(q.Blocks[len(q.Blocks)-1])
			if ret == nil || e.Index >= len(ret.Results) {
				return false
			}
			rv := q.Resolve(ret.Results[e.Index])
			if cs, isConst := constString(rv); isConst && cs == "" {
				continue
			}
			n++
			if !isWaitingReasonVal(rv, henv, depth+1) {
				return false
			}
		}
		return n > 0
	}

	cs := r.Prog.Func(pkgPodUtils, "CannotStart")
	pc := r.Prog.Func(pkgPodUtils, "PendingCreate")
	if cs == nil || pc == nil {
		r.Fatal("anchor %s.CannotStart / PendingCreate not found", pkgPodUtils)
		return
	}
	// CannotStart
	var member, conv *ssa.Function
	tfacts, tpaths, ok := c06TruePathFacts(r, cs)
	if !ok {
		r.Undecided("C06.R8", "CannotStart table", r.Prog.Pos(cs.Pos()), shortFunc(cs), "path cap exceeded")
	}
	okAll, detail := true, ""
	for i, xfs := range tfacts {
		p := tpaths[i]
		hasWaiting := false
		var m *ssa.Function
		for _, xf := range xfs {
			if waitingNil(xf) {
				hasWaiting = true
			}
			if call, isCall := xf.V.(*ssa.Call); isCall && xf.Pol && len(call.Call.Args) == 1 && isWaitingReason(call.Call.Args[0], xf.env) {
				if g := calleeOfE(&call.Call, xf.env); g != nil && r.Prog.IsRuleSite(g) {
					m = g
				}
			}
		}
		if !hasWaiting || m == nil {
			okAll = false
			detail = "a path returns true without State.Waiting != nil and a membership test of State.Waiting.Reason: " + shortFacts(p)
			continue
		}
		if member != nil && member != m {
			okAll, detail = false, "two different membership predicates"
		}
		member = m
		ret := returnOf(p.Blocks[len(p.Blocks)-1])
		if len(ret.Results) > 1 {
			if call, isCall := stripConv(p.Resolve(ret.Results[1])).(*ssa.Call); isCall && len(call.Call.Args) == 1 && isWaitingReasonVal(call.Call.Args[0], nil, 0) {
				conv = staticCallee(&call.Call)
			}
		}
	}
	if len(tfacts) == 0 {
		okAll, detail = false, "no path returns true"
	}
	r.Check("C06.R8", "CannotStart true only for a waiting container with a cannot-start reason", r.Prog.Pos(cs.Pos()), shortFunc(cs),
		"true only with State.Waiting != nil and State.Waiting.Reason in the cannot-start set", okAll, detail)

	// PendingCreate
	tfacts, tpaths, ok = c06TruePathFacts(r, pc)
	okAll, detail = ok, ""
	for i, xfs := range tfacts {
		hasWaiting, creating := false, false
		for _, xf := range xfs {
			if waitingNil(xf) {
				hasWaiting = true
			}
			env := xf.env
			if xf.Pol && isEqCompare(xf.V, func(v ssa.Value) bool { return isWaitingReason(v, env) }, isConstStringVal("ContainerCreating")) {
				if bo, isB := xf.V.(*ssa.BinOp); isB && bo.Op == token.EQL || isB && bo.Op == token.NEQ {
					creating = true
				}
			}
		}
		if !hasWaiting || !creating {
			okAll = false
			detail = "a path returns true without State.Waiting != nil ∧ State.Waiting.Reason == \"ContainerCreating\": " + shortFacts(tpaths[i])
		}
	}
	if len(tfacts) == 0 {
		okAll, detail = false, "no path returns true"
	}
	r.Check("C06.R8", "PendingCreate true only for a container waiting with ContainerCreating", r.Prog.Pos(pc.Pos()), shortFunc(pc),
		"true only with State.Waiting != nil and State.Waiting.Reason == \"ContainerCreating\"", okAll, detail)

	// membership predicate: lookup in a package-level set
	var set map[string]bool
	if member != nil {
		set = c06SetOfMembership(r, member)
	}
	if set == nil {
		r.Check("C06.R8", "cannot-start set", r.Prog.Pos(cs.Pos()), shortFunc(cs), "the membership test is a lookup in a package-level set built from constant keys", false, "could not read the set")
		return
	}
	r.Check("C06.R8", "cannot-start set", r.Prog.Pos(member.Pos()), shortFunc(member), "the membership test is a lookup in a package-level set built from constant keys", len(set) > 0, fmt.Sprintf("%d keys", len(set)))

	// conversion keeps every cannot-start reason
	if conv == nil || !r.Prog.IsRuleSite(conv) {
		r.Undecided("C06.R8", "reason conversion", r.Prog.Pos(cs.Pos()), shortFunc(cs), "the reason returned with true is not the conversion of State.Waiting.Reason by a repository function")
		return
	}
	kept, all, okc := c06KeptReasons(r, conv)
	if !okc {
		r.Undecided("C06.R8", "reason conversion", r.Prog.Pos(conv.Pos()), shortFunc(conv), "the conversion is not a case list over its argument")
		return
	}
	var lost []string
	if !all {
		for k := range set {
			if !kept[k] {
				lost = append(lost, k)
			}
		}
	}
	sort.Strings(lost)
	r.Check("C06.R8", "cannot-start set ⊆ reasons kept by the conversion", r.Prog.Pos(conv.Pos()), shortFunc(conv),
		"a cannot-start reason never degrades to Unknown", len(lost) == 0, "degraded: "+strings.Join(lost, ", "))
	declared := r.Prog.constsOfNamedType(pkgAPI, "ExtendedDaemonSetStatusReason")
	var undeclared []string
	for k := range kept {
		if _, okd := declared[k]; !okd {
			undeclared = append(undeclared, k)
		}
	}
	sort.Strings(undeclared)
	r.Check("C06.R8", "reasons kept by the conversion ⊆ declared reason constants", r.Prog.Pos(conv.Pos()), shortFunc(conv),
		"every kept reason is a declared ExtendedDaemonSetStatusReason", len(undeclared) == 0, "undeclared: "+strings.Join(undeclared, ", "))
	// the set and the API's enumeration of reasons agree on the documented classes ("stuck in an
	// image/config/hook start error"): the cannot-start set is exactly the declared reasons that name
	// an image, registry, container-creation or hook error
	class := func(k string) bool {
		for _, w := range []string{"Image", "Registry", "CreateContainer", "Hook"} {
			if strings.Contains(k, w) {
				return true
			}
		}
		return false
	}
	var missing, extra []string
	for k := range declared {
		if class(k) && !set[k] {
			missing = append(missing, k)
		}
	}
	for k := range set {
		if _, okd := declared[k]; !okd || !class(k) {
			extra = append(extra, k)
		}
	}
	sort.Strings(missing)
	sort.Strings(extra)
	r.Check("C06.R8", "cannot-start set = declared image/registry/container-creation/hook reasons", r.Prog.Pos(member.Pos()), shortFunc(member),
		"the cannot-start set holds exactly the declared ExtendedDaemonSetStatusReason values that name an image, registry, container-creation or hook error (the documented start errors)",
		len(missing) == 0 && len(extra) == 0, "missing: "+strings.Join(missing, ", ")+"; not a documented start error: "+strings.Join(extra, ", "))
}

// c06SetOfMembership reads the key set of `func(reason string) bool { _, ok := G[reason]; return ok }`.
func c06SetOfMembership(r *Run, m *ssa.Function) map[string]bool {
	paths, _, ok := funcPaths(m, 100)
	if !ok || len(m.Params) != 1 {
		return nil
	}
	var g *ssa.Global
	for _, p := range paths {
		ret := returnOf(p.Blocks[len(p.Blocks)-1])
		res := p.Resolve(ret.Results[0])
		var lk *ssa.Lookup
		if b, isC := constBool(res); isC {
			if !b {
				continue
			}
			for _, f := range p.Facts {
				if e, isE := f.V.(*ssa.Extract); isE && f.Pol && e.Index == 1 {
					lk, _ = e.Tuple.(*ssa.Lookup)
				}
			}
		} else if e, isE := res.(*ssa.Extract); isE && e.Index == 1 {
			lk, _ = e.Tuple.(*ssa.Lookup)
		}
		if lk == nil || stripConv(lk.Index) != ssa.Value(m.Params[0]) {
			return nil
		}
		ld, isL := lk.X.(*ssa.UnOp)
		if !isL {
			return nil
		}
		gg, isG := ld.X.(*ssa.Global)
		if !isG || (g != nil && g != gg) {
			return nil
		}
		g = gg
	}
	if g == nil {
		return nil
	}
	return c06GlobalSetKeys(g)
}

// c06GlobalSetKeys reads the constant keys of a package-level map that is assigned once, in the
// package initialiser, from a map literal, and never updated afterwards.
func c06GlobalSetKeys(g *ssa.Global) map[string]bool {
	set := map[string]bool{}
	nStores := 0
	for _, mem := range g.Pkg.Members {
		fn, isF := mem.(*ssa.Function)
		if !isF {
			continue
		}
		fns := []*ssa.Function{fn}
		fns = append(fns, fn.AnonFuncs...)
		for _, f := range fns {
			for _, b := range f.Blocks {
				for _, in := range b.Instrs {
					switch x := in.(type) {
					case *ssa.Store:
						if x.Addr == ssa.Value(g) {
							nStores++
							ents := mapLiteralEntries(x.Val)
							if ents == nil || f.Name() != "init" {
								return nil
							}
							for k := range ents {
								if k == "<dynamic>" {
									return nil
								}
								set[k] = true
							}
						}
					case *ssa.MapUpdate:
						// a later insertion/deletion into the global set would change it
						if ld, isL := x.Map.(*ssa.UnOp); isL && ld.X == ssa.Value(g) {
							return nil
						}
					}
				}
			}
		}
	}
	if nStores != 1 {
		return nil
	}
	return set
}

// c06KeptReasons reads the case list of the conversion: the constants c for which a path returns
// the (converted) argument under the fact arg == c. all=true when some path returns the argument
// without such a fact (everything is kept).
func c06KeptReasons(r *Run, conv *ssa.Function) (kept map[string]bool, all bool, ok bool) {
	if len(conv.Params) != 1 {
		return nil, false, false
	}
	paths, _, okp := funcPaths(conv, 5000)
	r.paths += len(paths)
	if !okp {
		return nil, false, false
	}
	arg := conv.Params[0]
	isArg := func(v ssa.Value) bool { return stripConv(v) == ssa.Value(arg) }
	kept = map[string]bool{}
	for _, p := range paths {
		ret := returnOf(p.Blocks[len(p.Blocks)-1])
		res := p.Resolve(ret.Results[0])
		if s, isC := constString(res); isC {
			kept[s] = kept[s] || false
			// returning a constant keeps only that constant when the argument equals it
			for _, f := range p.Facts {
				if f.Pol && isEqCompare(f.V, isArg, isConstStringVal(s)) {
					kept[s] = true
				}
			}
			if !kept[s] {
				delete(kept, s)
			}
			continue
		}
		if !isArg(res) {
			return nil, false, false
		}
		found := false
		for _, f := range p.Facts {
			if !f.Pol {
				continue
			}
			// membership in a package-level set of kept reasons: `_, known := set[arg]`
			if e, isE := f.V.(*ssa.Extract); isE && e.Index == 1 {
				if lk, isL := e.Tuple.(*ssa.Lookup); isL && isArg(lk.Index) {
					if ld, isLd := lk.X.(*ssa.UnOp); isLd {
						if gg, isG := ld.X.(*ssa.Global); isG {
							keys := c06GlobalSetKeys(gg)
							if keys == nil {
								return nil, false, false
							}
							for kk := range keys {
								kept[kk] = true
							}
							found = true
						}
					}
				}
				continue
			}
			x, y, okE := eqOperands(f.V)
			if !okE {
				continue
			}
			if isArg(x) {
				if s, isC := constString(y); isC {
					kept[s] = true
					found = true
				}
			} else if isArg(y) {
				if s, isC := constString(x); isC {
					kept[s] = true
					found = true
				}
			}
		}
		if !found {
			all = true
		}
	}
	return kept, all, true
}

// c06Wire implements R9.
func c06Wire(c *c06Ctx, reach map[*ssa.Function]bool) {
	r := c.r
	evalName := shortFunc(c.eval)
	// Canary-Failed and Canary-Paused: writer in the evaluation, reader = the function initialising the flag
	for _, w := range []struct{ flag, reader string }{{"IsFailed", "IsCanaryDeploymentFailed"}, {"IsPaused", "IsCanaryDeploymentPaused"}} {
		cw := c06FlagConditionWrite(c.eval, w.flag)
		if cw == nil {
			continue // reported by c06Sticky
		}
		rd := r.Prog.Func(pkgEDS, w.reader)
		if rd == nil {
			r.Fatal("anchor %s.%s not found", pkgEDS, w.reader)
			continue
		}
		types, okr := c06ConditionTypesRead(r, rd)
		ok := okr && len(types) == 1 && types[0] == cw.typ && cw.typ != ""
		r.Check("C06.R9", "wire "+w.flag+" → condition → "+w.reader, r.Prog.Pos(cw.call.Pos()), evalName,
			"the condition written from "+w.flag+" is the one "+w.reader+" reads on the replica set", ok,
			fmt.Sprintf("written type %q, read types %v", cw.typ, types))
	}
	// PodRestarting: writer = the update whose time derives from MostRecentRestart
	var writer *ssa.Call
	isRecentRestart := func(v ssa.Value) bool {
		e, isE := v.(*ssa.Extract)
		if !isE || e.Index != 0 {
			return false
		}
		cc, isC := e.Tuple.(*ssa.Call)
		return isC && calleeName(&cc.Call) == pkgPodUtils+".MostRecentRestart"
	}
	helpers, _ := c06ResultHelpers(c.eval)
	for _, h := range helpers {
		for _, ci := range callsIn(h) {
			call, ok := ci.(*ssa.Call)
			if !ok || calleeName(&call.Call) != pkgERSCond+".UpdateExtendedDaemonSetReplicaSetStatusCondition" || len(call.Call.Args) < 8 {
				continue
			}
			// the time argument, possibly a field of a struct handed over by the evaluation
			if dependsOn(call.Call.Args[1], func(v ssa.Value) bool {
				if isRecentRestart(v) {
					return true
				}
				if _, isParamField := stripConv(v).(*ssa.Parameter); !isParamField {
					ps := pathsOf(stripConv(v))
					if len(ps) != 1 || len(ps[0].fields) == 0 {
						return false
					}
					if _, isP := ps[0].root.(*ssa.Parameter); !isP {
						return false
					}
				}
				for _, src := range valueSources(r.Prog, v) {
					if src != stripConv(v) && dependsOn(src, isRecentRestart) {
						return true
					}
				}
				return false
			}) {
				writer = call
			}
		}
	}
	if writer == nil {
		r.Check("C06.R9", "wire restart time → PodRestarting", r.Prog.Pos(c.eval.Pos()), evalName, "the newest restart time is recorded in a replica-set condition", false, "no condition update whose time derives from MostRecentRestart")
	} else {
		wt, _ := condTypeConst(writer)
		rt := ""
		if cc := c.condCall["F2"]; cc != nil {
			rt, _ = condTypeConst(cc)
		}
		endedT := ""
		if ended := r.Prog.Func(pkgEDS, "IsCanaryDeploymentEnded"); ended != nil {
			// the lookup may sit in a helper of the predicate; every condition it consults must be that one
			types := map[string]bool{}
			for _, g := range r.Prog.calleesWithin(ended, 3) {
				if g.Pkg != nil && g.Pkg.Pkg.Path() == pkgERSCond {
					continue
				}
				for _, ci := range callsIn(g) {
					if call, ok := ci.(*ssa.Call); ok && calleeName(&call.Call) == pkgERSCond+".GetExtendedDaemonSetReplicaSetStatusCondition" {
						t, _ := condTypeConst(call)
						types[t] = true
					}
				}
			}
			if len(types) == 1 {
				for t := range types {
					endedT = t
				}
			}
		}
		ok := wt != "" && wt == rt && wt == endedT
		r.Check("C06.R9", "wire restart time → PodRestarting → restart-span trigger and canary end", r.Prog.Pos(writer.Pos()), evalName,
			"the condition that records restart times is the one the restart-span trigger and IsCanaryDeploymentEnded read", ok,
			fmt.Sprintf("written %q, span trigger reads %q, IsCanaryDeploymentEnded reads %q", wt, rt, endedT))
		// last-update support and status True
		lu, okb := constBool(writer.Call.Args[7])
		st, _ := constString(writer.Call.Args[3])
		r.Check("C06.R9", "PodRestarting written with last-update support", r.Prog.Pos(writer.Pos()), evalName,
			"each newer restart moves LastUpdateTime while LastTransitionTime keeps the first restart (status stays True, supportLastUpdate=true)", okb && lu && st == "True",
			fmt.Sprintf("supportLastUpdate=%v status=%q", lu, st))
	}
	// Canary: the timeout trigger reads the condition the replica-set controller sets True before the canary strategy
	rt := ""
	if cc := c.condCall["F3"]; cc != nil {
		rt, _ = condTypeConst(cc)
	}
	entry, _ := c06CanaryEntry(r)
	found, n := false, 0
	var pos string
	all := repoFuncSet(r.Prog)
	sites := condWriteSites(all)
	for _, ci := range callSitesOf(entry, all) {
		n++
		pos = r.Prog.Pos(ci.Pos())
		okSite := false
		for _, site := range sites {
			if site.fn() != ci.Parent() || !site.typOK || site.typ != rt || rt == "" {
				continue
			}
			if st, _ := constString(site.status()); st != "True" {
				continue
			}
			if !allPathsEndE(site.target(), site.env, "NewStatus") {
				continue
			}
			// right before the strategy: earlier in the same block, or in a dominating block
			ob := site.outer.Block()
			if ob == ci.Block() && instrIndex(site.outer) < instrIndex(ci) || ob != ci.Block() && ob.Dominates(ci.Block()) {
				okSite = true
			}
		}
		found = okSite
		if !okSite {
			break
		}
	}
	r.Check("C06.R9", "wire canary start → Canary condition → timeout trigger", pos, "-",
		"the condition whose LastTransitionTime the canary-timeout trigger reads is set True right before the canary strategy runs", found && n > 0,
		fmt.Sprintf("timeout trigger reads %q; call sites of the canary strategy: %d", rt, n))

	// the condition helper: LastTransitionTime moves only on a status change
	upd := r.Prog.Func(pkgERSCond, "UpdateExtendedDaemonSetReplicaSetStatusCondition")
	if upd == nil {
		r.Fatal("anchor %s.UpdateExtendedDaemonSetReplicaSetStatusCondition not found", pkgERSCond)
		return
	}
	// existing conditions are updated in the helper itself or in a function it delegates to
	okAll, detail, nst := true, "", 0
	for _, fn := range sortedFuncs(r.Prog.reachableFuncs(upd)) {
		sts := storesToFieldOf(fn, pkgAPI, "ExtendedDaemonSetReplicaSetCondition", "LastTransitionTime")
		if len(sts) == 0 {
			continue
		}
		ff := computeFacts(fn)
		k := newKeyer(fn)
		for _, st := range sts {
			root, _ := accessPath(st.Addr)
			// an element of status.Conditions, an existing condition handed in by pointer, or a local copy
			// of one (copy - modify - store back); a composite literal is a freshly built condition
			origins := c06CopyOrigins(root)
			existing := false
			for _, o := range origins {
				switch o.(type) {
				case *ssa.IndexAddr, *ssa.Parameter:
					existing = true
				}
			}
			if !existing {
				continue
			}
			nst++
			okeys := map[string]bool{}
			for _, o := range origins {
				okeys[k.key(o)] = true
			}
			changed := ff.Holds(st.Block(), false, func(v ssa.Value, _ string) bool {
				return isEqCompare(v, func(x ssa.Value) bool {
					xr, xp := accessPath(stripConv(x))
					if len(xp) != 1 || xp[0] != "Status" {
						return false
					}
					for _, o := range c06CopyOrigins(xr) {
						if okeys[k.key(o)] {
							return true
						}
					}
					return false
				}, func(x ssa.Value) bool {
					p, isP := stripConv(x).(*ssa.Parameter)
					return isP && typeName(p.Type()) == pkgCoreV1+".ConditionStatus"
				})
			})
			if !changed {
				okAll, detail = false, "LastTransitionTime of an existing condition is stored in "+shortFunc(fn)+" without the fact existing.Status != new status"
			}
		}
	}
	if nst == 0 {
		okAll, detail = false, "no store to LastTransitionTime of an existing condition"
	}
	r.Check("C06.R9", "condition helper keeps LastTransitionTime until the status changes", r.Prog.Pos(upd.Pos()), shortFunc(upd),
		"LastTransitionTime of an existing condition is stored only under a status change (it is the start of the restart span, of the canary, of the failure)", okAll, detail)
}

// c06ConditionTypesRead lists the replica-set condition types a reader consults on the paths where
// its first result can be true through a condition (IsConditionTrue fact true).
func c06ConditionTypesRead(r *Run, fn *ssa.Function) ([]string, bool) {
	paths, k, ok := funcPaths(fn, 5000)
	r.paths += len(paths)
	if !ok {
		return nil, false
	}
	set := map[string]bool{}
	for _, p := range paths {
		ret := returnOf(p.Blocks[len(p.Blocks)-1])
		res := p.Resolve(ret.Results[0])
		facts := factList(p.Facts)
		if b, isB := constBool(res); isB {
			if !b {
				continue
			}
		} else {
			facts = append(facts, k.normCond(res, true)...) // `return a && cond(...)`: true means the returned expression holds
		}
		// the condition may be consulted in a helper of the reader: look at every alternative
		stop := func(g *ssa.Function) bool { return g.Pkg != nil && g.Pkg.Pkg.Path() == pkgERSCond }
		for _, alt := range expandAlternatives(r.Prog, facts, nil, 0, stop) {
			var fs []Fact
			for _, xf := range alt {
				fs = append(fs, xf.Fact)
			}
			for _, a := range condTrueAtoms(fs) {
				if a.val != triTrue {
					continue
				}
				if a.typ == "" {
					return nil, false
				}
				set[a.typ] = true
			}
		}
	}
	var out []string
	for k := range set {
		out = append(out, k)
	}
	sort.Strings(out)
	return out, true
}

// ---------------------------------------------------------------------------------------------
// R10: the extraction helpers look at every container of the pod

// c06MustStatusLists returns the pod.Status.<X>ContainerStatuses fields from which the elements of
// the slice v are guaranteed to derive: union over append operands, intersection over phi edges,
// over the values stored into a local cell and over the returns of a repository callee that
// receives the pod.
func c06MustStatusLists(prog *Prog, v ssa.Value, pod ssa.Value, depth int, seen map[ssa.Value]bool) map[string]bool {
	out := map[string]bool{}
	if v == nil || depth > 12 || seen[v] {
		return out
	}
	seen[v] = true
	defer delete(seen, v)
	inter := func(sets []map[string]bool) map[string]bool {
		if len(sets) == 0 {
			return map[string]bool{}
		}
		acc := map[string]bool{}
		for k := range sets[0] {
			acc[k] = true
		}
		for _, s := range sets[1:] {
			for k := range acc {
				if !s[k] {
					delete(acc, k)
				}
			}
		}
		return acc
	}
	switch x := v.(type) {
	case *ssa.Phi:
		var sets []map[string]bool
		ff := c06FactsOf(x.Parent())
		for i, e := range x.Edges {
			if seen[e] {
				continue // loop-carried self reference
			}
			set := c06MustStatusLists(prog, e, pod, depth+1, seen)
			for k := range c06EmptyLists(ff.FactsAtEdge(x.Block().Preds[i], x.Block()), pod) {
				set[k] = true // the list is known to be empty on this edge: nothing to contain
			}
			sets = append(sets, set)
		}
		return inter(sets)
	case *ssa.Slice:
		return c06MustStatusLists(prog, x.X, pod, depth+1, seen)
	case *ssa.ChangeType:
		return c06MustStatusLists(prog, x.X, pod, depth+1, seen)
	case *ssa.Convert:
		return c06MustStatusLists(prog, x.X, pod, depth+1, seen)
	case *ssa.Call:
		if b, ok := x.Call.Value.(*ssa.Builtin); ok && b.Name() == "append" {
			for _, a := range x.Call.Args {
				for k := range c06MustStatusLists(prog, a, pod, depth+1, seen) {
					out[k] = true
				}
			}
			return out
		}
		g := staticCallee(&x.Call)
		if g == nil || !prog.IsRuleSite(g) {
			return out
		}
		var gp *ssa.Parameter
		for i, a := range x.Call.Args {
			if stripConv(a) == pod && i < len(g.Params) {
				gp = g.Params[i]
			}
		}
		if gp == nil {
			return out
		}
		var sets []map[string]bool
		for _, b := range g.Blocks {
			if ret := returnOf(b); ret != nil && len(ret.Results) >= 1 {
				set := c06MustStatusLists(prog, ret.Results[0], gp, depth+1, map[ssa.Value]bool{})
				for k := range c06EmptyLists(c06FactsOf(g).At(b), gp) {
					set[k] = true
				}
				sets = append(sets, set)
			}
		}
		return inter(sets)
	case *ssa.UnOp:
		if x.Op != token.MUL {
			return out
		}
		if a, ok := x.X.(*ssa.Alloc); ok {
			var sets []map[string]bool
			for _, rf := range refs(a) {
				if st, ok := rf.(*ssa.Store); ok && st.Addr == ssa.Value(a) {
					sets = append(sets, c06MustStatusLists(prog, st.Val, pod, depth+1, seen))
				}
			}
			return inter(sets)
		}
		ps := pathsOf(x)
		if len(ps) == 1 && ps[0].root == pod && len(ps[0].fields) == 2 && ps[0].fields[0] == "Status" {
			out[ps[0].fields[1]] = true
		}
		return out
	}
	return out
}

func c06StatusLists(r *Run) {
	want := []string{"ContainerStatuses", "InitContainerStatuses", "EphemeralContainerStatuses"}
	for _, name := range []string{"HighestRestartCount", "MostRecentRestart", "CannotStart", "PendingCreate"} {
		fn := r.Prog.Func(pkgPodUtils, name)
		if fn == nil || len(fn.Params) != 1 {
			r.Fatal("anchor %s.%s(pod) not found", pkgPodUtils, name)
			continue
		}
		// the container-status slices the helper iterates, itself or in a repository function it hands the pod to
		type iteration struct {
			x   ssa.Value
			pod ssa.Value
			fn  *ssa.Function
		}
		var iters []iteration
		var collect func(g *ssa.Function, pod ssa.Value, depth int, seen map[*ssa.Function]bool)
		collect = func(g *ssa.Function, pod ssa.Value, depth int, seen map[*ssa.Function]bool) {
			if seen[g] || depth > 3 {
				return
			}
			seen[g] = true
			found := map[ssa.Value]bool{}
			for _, b := range g.Blocks {
				for _, in := range b.Instrs {
					var x ssa.Value
					switch y := in.(type) {
					case *ssa.IndexAddr:
						x = y.X
					case *ssa.Index:
						x = y.X
					case *ssa.Range:
						x = y.X
					case ssa.CallInstruction:
						if h := staticCallee(y.Common()); h != nil && r.Prog.IsRuleSite(h) {
							for ai, a := range y.Common().Args {
								if stripConv(a) == pod && ai < len(h.Params) {
									collect(h, h.Params[ai], depth+1, seen)
								}
							}
						}
					}
					if x == nil || found[x] {
						continue
					}
					if sl, ok := x.Type().Underlying().(*types.Slice); ok && typeName(sl.Elem()) == pkgCoreV1+".ContainerStatus" {
						found[x] = true
						iters = append(iters, iteration{x, pod, g})
					}
				}
			}
		}
		collect(fn, fn.Params[0], 0, map[*ssa.Function]bool{})
		pos := r.Prog.Pos(fn.Pos())
		if len(iters) == 0 {
			r.Check("C06.R10", "container statuses examined", pos, shortFunc(fn), "the helper iterates a list of the pod's container statuses", false, "no iteration over []ContainerStatus found")
			continue
		}
		okAll, detail := true, ""
		for _, it := range iters {
			got := c06MustStatusLists(r.Prog, it.x, it.pod, 0, map[ssa.Value]bool{})
			var missing []string
			for _, w := range want {
				if !got[w] {
					missing = append(missing, "pod.Status."+w)
				}
			}
			if len(missing) > 0 {
				okAll = false
				detail = "the list iterated in " + shortFunc(it.fn) + " is not guaranteed to contain " + strings.Join(missing, ", ")
			}
		}
		r.Check("C06.R10", "container statuses examined", pos, shortFunc(fn),
			"the helper looks at every container of the pod: regular, init and ephemeral container statuses", okAll, detail)
	}
}

// ---------------------------------------------------------------------------------------------
// R11: every pod counted as current is handed to the evaluation

func c06AllCurrentEvaluated(c *c06Ctx, reach map[*ssa.Function]bool) {
	r := c.r
	// which parameter of the evaluation is the list of pods it iterates
	var podsParam *ssa.Parameter
	for _, ci := range callsIn(c.eval) {
		call, ok := ci.(*ssa.Call)
		if !ok || calleeName(&call.Call) != pkgPodUtils+".HighestRestartCount" {
			continue
		}
		ps := pathsOf(stripConv(call.Call.Args[0]))
		if len(ps) == 1 {
			if ia, ok := ps[0].root.(*ssa.IndexAddr); ok {
				podsParam, _ = stripConv(ia.X).(*ssa.Parameter)
			}
		}
	}
	if podsParam == nil {
		r.Undecided("C06.R11", "evaluated pods", r.Prog.Pos(c.eval.Pos()), shortFunc(c.eval), "the evaluated pod is not an element of a slice parameter")
		return
	}
	n := 0
	for _, fn := range sortedFuncs(reach) {
		for _, ci := range callsIn(fn) {
			if staticCallee(ci.Common()) != c.eval {
				continue
			}
			n++
			c06EvaluatedAt(c, fn, ci, ci.Common().Args[paramIndex(podsParam)])
		}
	}
	if n == 0 {
		r.Check("C06.R11", "evaluated pods", r.Prog.Pos(c.eval.Pos()), shortFunc(c.eval), "the evaluation is called", false, "no call site")
	}
}

func c06EvaluatedAt(c *c06Ctx, fn *ssa.Function, ci ssa.CallInstruction, pods ssa.Value) {
	r := c.r
	pos := r.Prog.Pos(ci.Pos())
	fname := shortFunc(fn)
	construct := "every pod counted as current is evaluated"
	podsPhi, ok := stripConv(pods).(*ssa.Phi)
	if !ok {
		r.Undecided("C06.R11", construct, pos, fname, "the list of pods handed to the evaluation is not built by a loop in this function")
		return
	}
	// the counter stored into NewStatus.Current
	var curPhi *ssa.Phi
	for _, st := range storesToFieldOf(fn, pkgAPI, "ExtendedDaemonSetReplicaSetStatus", "Current") {
		if ph, isPhi := stripConv(st.Val).(*ssa.Phi); isPhi {
			curPhi = ph
		}
	}
	header := podsPhi.Block()
	// or a field of a local counter object that helper methods increment and write out
	var countInstrs map[ssa.Instruction]bool
	if curPhi == nil {
		countInstrs = c06CellCountEvents(r.Prog, fn)
	}
	if (curPhi == nil || curPhi.Block() != header) && len(countInstrs) == 0 {
		r.Undecided("C06.R11", construct, pos, fname, "the counter stored into NewStatus.Current is neither a loop variable of the loop that builds the list of evaluated pods nor a field of a local counter incremented in it")
		return
	}
	k := newKeyer(fn)
	paths, okp := loopBodyPaths(fn, k, header, 20000)
	r.paths += len(paths)
	if !okp {
		r.Undecided("C06.R11", construct, pos, fname, "path cap exceeded")
		return
	}
	edgeOf := func(phi *ssa.Phi, pred *ssa.BasicBlock) ssa.Value {
		for j, pb := range phi.Block().Preds {
			if pb == pred {
				return phi.Edges[j]
			}
		}
		return nil
	}
	// resolve phis inside the body along the path; phis of the loop header are the loop variables
	resolve := func(p *Path, v ssa.Value) ssa.Value {
		for i := 0; i < 32; i++ {
			ph, isPhi := v.(*ssa.Phi)
			if !isPhi || ph.Block() == header {
				return v
			}
			nv := p.ResolveOnce(v)
			if nv == v {
				return v
			}
			v = nv
		}
		return v
	}
	okAll, detail, nCounted := true, "", 0
	for _, p := range paths {
		if len(p.Blocks) < 2 || p.Blocks[len(p.Blocks)-1] != header {
			continue
		}
		pred := p.Blocks[len(p.Blocks)-2]
		if curPhi != nil && curPhi.Block() == header {
			cv := edgeOf(curPhi, pred)
			if cv == nil {
				continue
			}
			cv = resolve(p, cv)
			if stripConv(cv) == ssa.Value(curPhi) {
				continue // not counted as current on this path
			}
		} else {
			counted := false
			for _, b := range p.Blocks {
				for _, in := range b.Instrs {
					if countInstrs[in] {
						counted = true
					}
				}
			}
			if !counted {
				continue
			}
		}
		nCounted++
		pv := edgeOf(podsPhi, pred)
		if pv != nil {
			pv = resolve(p, pv)
		}
		appended := false
		if call, isC := pv.(*ssa.Call); isC {
			if b, isB := call.Call.Value.(*ssa.Builtin); isB && b.Name() == "append" && len(call.Call.Args) == 2 && resolve(p, call.Call.Args[0]) == ssa.Value(podsPhi) {
				elems, complete := varargElems(call.Call.Args[1])
				if complete {
					for _, e := range elems {
						e := e
						if p.Has(false, func(v ssa.Value, _ string) bool {
							return isNilCompareOf(v, func(x ssa.Value) bool { return x == e })
						}) {
							appended = true
						}
					}
				}
			}
		}
		if !appended && okAll {
			okAll = false
			detail = "an iteration counts the pod as current but does not append it to the pods handed to the evaluation: " + shortFacts(p)
		}
	}
	if nCounted == 0 {
		okAll, detail = false, "no iteration path counts a pod as current"
	}
	r.Check("C06.R11", construct, pos, fname,
		"on every iteration of the canary-node loop that counts the pod in NewStatus.Current (up to date, not terminating) the pod is appended to the list passed to the evaluation", okAll, detail)
}

// ---------------------------------------------------------------------------------------------
// stickiness across roles (C06.R3 / C07.R5): constant-False writes of the Canary-Failed condition

// failedConditionWrites checks every write of the condition type that the canary evaluation writes
// from Result.IsFailed, reachable from the replica-set Reconcile: the status is either derived
// from IsFailed, the constant True, or the constant False under the must-fact role == active.
func failedConditionWrites(r *Run, rule string) {
	eval := c06FindEval(r)
	rec := r.Prog.Method(pkgERS, "Reconciler", "Reconcile")
	if eval == nil || rec == nil {
		r.Fatal("anchor (%s.Reconciler).Reconcile or the canary evaluation function not found", pkgERS)
		return
	}
	w := c06FlagConditionWrite(eval, "IsFailed")
	if w == nil || w.typ == "" {
		r.Check(rule, "Canary-Failed writes", r.Prog.Pos(eval.Pos()), shortFunc(eval), "the canary evaluation writes a condition from IsFailed", false, "not found")
		return
	}
	active, okA := r.Prog.constStr(pkgStrategy, "ReplicaSetStatusActive")
	if !okA {
		r.Fatal("constant %s.ReplicaSetStatusActive not found", pkgStrategy)
		return
	}
	isRole := func(v ssa.Value) bool {
		v = stripConv(v)
		return allPathsEnd(v, "ReplicaSetStatus") || (isNamedType(v.Type(), pkgStrategy, "ReplicaSetStatus") && dependsOn(v, func(x ssa.Value) bool { return allPathsEnd(x, "ReplicaSetStatus") }))
	}
	n := 0
	for _, site := range condWriteSites(r.Prog.reachableFuncs(rec)) {
		fn := site.fn()
		pos := r.Prog.Pos(site.outer.Pos())
		if !site.typOK {
			r.Undecided(rule, "condition write with a computed type", pos, shortFunc(fn), "the condition type is not a constant, it may be "+w.typ)
			continue
		}
		if site.typ != w.typ {
			continue
		}
		n++
		if site.call == w.call && site.env == nil {
			r.Check(rule, w.typ+" written from IsFailed", pos, shortFunc(fn), "the canary strategy writes the condition from the sticky flag", true, "")
			continue
		}
		st, isConst := constString(site.status())
		if !isConst {
			r.Undecided(rule, w.typ+" written with a computed status", pos, shortFunc(fn), "the status is neither a constant nor BoolToCondition(Result.IsFailed)")
			continue
		}
		if st == "True" {
			o := r.Check(rule, w.typ+"=True", pos, shortFunc(fn), "writing True never un-fails a canary", true, "")
			o.Trivial = true
			continue
		}
		ff := c06FactsOf(fn)
		// role == active: a fact at the write, the key of the dispatch table the function is stored
		// under, or the condition under which every caller calls it
		okRole := underDispatchFact(r.Prog, fn, site.outer.Block(), isRole, active, 0)
		detail := ""
		if !okRole {
			detail = "the reset is not dominated by the fact role == \"" + active + "\"; must-facts: " + shortSet(ff.At(site.outer.Block()))
		}
		r.Check(rule, w.typ+"="+st+" reset", pos, shortFunc(fn),
			"the failure verdict is reset only for the replica set that has become the active one (a failed canary turns 'unknown' once status.canary is cleared and must keep its verdict: retention, rollback retry)", okRole, detail)
	}
	if n == 0 {
		r.Check(rule, "Canary-Failed writes", "-", "-", "the condition is written somewhere under the replica-set Reconcile", false, "none found")
	}
}

var c06FactsCache = map[*ssa.Function]*FuncFacts{}

func c06FactsOf(fn *ssa.Function) *FuncFacts {
	if ff, ok := c06FactsCache[fn]; ok {
		return ff
	}
	ff := computeFacts(fn)
	c06FactsCache[fn] = ff
	return ff
}

// c06EmptyLists returns the pod.Status.<X> lists that the facts show to be empty
// (len(X) == 0, !(len(X) > 0), X == nil).
func c06EmptyLists(facts factSet, pod ssa.Value) map[string]bool {
	out := map[string]bool{}
	listOf := func(v ssa.Value) string {
		ps := pathsOf(stripConv(v))
		if len(ps) == 1 && ps[0].root == pod && len(ps[0].fields) == 2 && ps[0].fields[0] == "Status" {
			return ps[0].fields[1]
		}
		return ""
	}
	lenOf := func(v ssa.Value) string {
		call, ok := stripConv(v).(*ssa.Call)
		if !ok || len(call.Call.Args) != 1 {
			return ""
		}
		if b, isB := call.Call.Value.(*ssa.Builtin); !isB || b.Name() != "len" {
			return ""
		}
		return listOf(call.Call.Args[0])
	}
	isZero := func(v ssa.Value) bool { z, ok := constInt(v); return ok && z == 0 }
	for _, f := range facts {
		if x, y, ok := eqOperands(f.V); ok && f.Pol {
			switch {
			case isZero(y) && lenOf(x) != "":
				out[lenOf(x)] = true
			case isZero(x) && lenOf(y) != "":
				out[lenOf(y)] = true
			case isNilConst(y) && listOf(x) != "":
				out[listOf(x)] = true
			case isNilConst(x) && listOf(y) != "":
				out[listOf(y)] = true
			}
			continue
		}
		if big, small, _, ok := factOrder(f); ok && isZero(big) && lenOf(small) != "" {
			out[lenOf(small)] = true // 0 >= len(X)
		}
	}
	return out
}

// ---------------------------------------------------------------------------------------------
// replica-set condition writes, seen through local wrappers

// condWriteSite is one write of a replica-set condition as seen from the function that decides it:
// the UpdateExtendedDaemonSetReplicaSetStatusCondition call itself, or — when the call sits in a
// wrapper (a closure or helper whose parameters carry the type and status) — the call of the wrapper.
type condWriteSite struct {
	outer ssa.CallInstruction // the call in the deciding function
	call  *ssa.Call           // the underlying condition update
	env   *envT               // wrapper parameters bound to the outer call's arguments
	typ   string
	typOK bool
}

func (s condWriteSite) fn() *ssa.Function { return s.outer.Parent() }

// status returns the status argument as seen at the outer call.
func (s condWriteSite) status() ssa.Value {
	v, _ := stripConvE(s.call.Call.Args[3], s.env)
	return v
}

func (s condWriteSite) target() ssa.Value { return s.call.Call.Args[0] }

// condWriteSites lists the condition writes inside the given functions.
func condWriteSites(fns map[*ssa.Function]bool) []condWriteSite {
	var out []condWriteSite
	var expand func(outer ssa.CallInstruction, call *ssa.Call, env *envT, depth int)
	expand = func(outer ssa.CallInstruction, call *ssa.Call, env *envT, depth int) {
		tv, tenv := stripConvE(call.Call.Args[2], env)
		if t, ok := constString(tv); ok {
			out = append(out, condWriteSite{outer: outer, call: call, env: env, typ: t, typOK: true})
			return
		}
		// the type is a parameter of the enclosing wrapper: instantiate at the wrapper's call sites
		if p, isP := tv.(*ssa.Parameter); isP && tenv == env && depth < 3 {
			w := p.Parent()
			cs := callSitesOf(w, fns)
			if len(cs) > 0 {
				for _, c := range cs {
					expand(c, call, bindArgs(w, c.Common().Args, env), depth+1)
				}
				return
			}
		}
		// the type is a column of a local table of {type, …} rows driving a loop: one site per row
		if rows, okR := rowAlternatives(tv); okR {
			allConst := true
			for _, rv := range rows {
				if _, isC := constString(rv); !isC {
					allConst = false
				}
			}
			if allConst {
				for _, rv := range rows {
					t, _ := constString(rv)
					out = append(out, condWriteSite{outer: outer, call: call, env: env, typ: t, typOK: true})
				}
				return
			}
		}
		out = append(out, condWriteSite{outer: outer, call: call, env: env})
	}
	for _, fn := range sortedFuncs(fns) {
		for _, ci := range callsIn(fn) {
			call, ok := ci.(*ssa.Call)
			if !ok || calleeName(&call.Call) != pkgERSCond+".UpdateExtendedDaemonSetReplicaSetStatusCondition" || len(call.Call.Args) < 8 {
				continue
			}
			expand(call, call, nil, 0)
		}
	}
	return out
}

// ---------------------------------------------------------------------------------------------
// R12: HighestRestartCount is the running maximum over all container statuses

// c06RunningMax checks that the count returned by HighestRestartCount is a running maximum: the
// result is a loop variable of the scan over the container statuses; every iteration compares the
// element's RestartCount with it (no container is skipped before the comparison) and the variable
// is replaced by the element's RestartCount exactly when that is larger.
func c06RunningMax(r *Run) {
	fn := r.Prog.Func(pkgPodUtils, "HighestRestartCount")
	if fn == nil {
		r.Fatal("anchor %s.HighestRestartCount not found", pkgPodUtils)
		return
	}
	pos := r.Prog.Pos(fn.Pos())
	construct := "highest restart count is a running maximum over every container"
	var phi *ssa.Phi
	for _, b := range fn.Blocks {
		ret := returnOf(b)
		if ret == nil || len(ret.Results) == 0 {
			continue
		}
		ph, ok := stripConv(ret.Results[0]).(*ssa.Phi)
		if !ok || (phi != nil && ph != phi) {
			r.Undecided("C06.R12", construct, pos, shortFunc(fn), "the returned count is not one loop variable of a scan over the container statuses")
			return
		}
		phi = ph
	}
	if phi == nil {
		r.Undecided("C06.R12", construct, pos, shortFunc(fn), "no return found")
		return
	}
	header := phi.Block()
	k := newKeyer(fn)
	paths, ok := loopBodyPaths(fn, k, header, 20000)
	r.paths += len(paths)
	if !ok || len(paths) == 0 {
		r.Undecided("C06.R12", construct, pos, shortFunc(fn), "the returned count is not a loop variable (or path cap exceeded)")
		return
	}
	isRC := func(v ssa.Value) bool { return allPathsEnd(stripConv(v), "RestartCount") }
	isMax := func(v ssa.Value) bool { return stripConv(v) == ssa.Value(phi) }
	resolve := func(p *Path, v ssa.Value) ssa.Value {
		for i := 0; i < 32; i++ {
			ph, isPhi := v.(*ssa.Phi)
			if !isPhi || ph.Block() == header {
				return v
			}
			nv := p.ResolveOnce(v)
			if nv == v {
				return v
			}
			v = nv
		}
		return v
	}
	okAll, detail, n := true, "", 0
	bad := func(s string) {
		if okAll {
			okAll, detail = false, s
		}
	}
	for _, p := range paths {
		if len(p.Blocks) < 2 || p.Blocks[len(p.Blocks)-1] != header {
			bad("an iteration leaves the scan early (return inside the loop)")
			continue
		}
		n++
		pred := p.Blocks[len(p.Blocks)-2]
		var e ssa.Value
		for j, pb := range header.Preds {
			if pb == pred {
				e = resolve(p, phi.Edges[j])
			}
		}
		if e == nil {
			continue
		}
		// max(old, element) written with the builtin needs no comparison
		if call, isC := stripConv(e).(*ssa.Call); isC {
			if b, isB := call.Call.Value.(*ssa.Builtin); isB && b.Name() == "max" && len(call.Call.Args) == 2 &&
				(isMax(call.Call.Args[0]) && isRC(call.Call.Args[1]) || isMax(call.Call.Args[1]) && isRC(call.Call.Args[0])) {
				continue
			}
		}
		larger, notLarger, geq := false, false, false
		for _, f := range p.Facts {
			big, small, strict, okO := factOrder(f)
			if !okO {
				continue
			}
			switch {
			case isRC(big) && isMax(small) && strict:
				larger = true
			case isRC(big) && isMax(small) && !strict:
				geq = true
			case isMax(big) && isRC(small):
				notLarger = true
			}
		}
		switch {
		case larger || geq:
			if !isRC(e) {
				bad("an iteration finds a container with more restarts but does not take its RestartCount as the new maximum: " + shortFacts(p))
			}
		case notLarger:
			if !isMax(e) {
				bad("an iteration changes the maximum although the container has no more restarts: " + shortFacts(p))
			}
		default:
			bad("an iteration skips the container without comparing its RestartCount with the running maximum: " + shortFacts(p))
		}
	}
	if n == 0 {
		bad("no iteration path")
	}
	r.Check("C06.R12", construct, pos, shortFunc(fn),
		"every container status is compared with the running maximum and replaces it exactly when it has more restarts (so the trigger comparisons see the pod's highest container restart count)", okAll, detail)
}

// c06CanaryReaders (R13): the readers that feed IsPaused / IsUnpaused have exactly their documented
// sources (decided by the reader tables of C08.R3, recorded here under C06: auto-pause fires unless
// the canary-unpaused annotation is "true"; a canary paused by annotation or condition stays paused).
func c06CanaryReaders(r *Run) {
	trueVal, okT := r.Prog.constStr(pkgAPI, "ValueStringTrue")
	if !okT {
		r.Fatal("constant %s.ValueStringTrue not found", pkgAPI)
		return
	}
	for _, rd := range []struct{ fn, key, cond string }{
		{"IsCanaryDeploymentUnpaused", "ExtendedDaemonSetCanaryUnpausedAnnotationKey", ""},
		{"IsCanaryDeploymentPaused", "ExtendedDaemonSetCanaryPausedAnnotationKey", "ConditionTypeCanaryPaused"},
	} {
		fn := r.Prog.Func(pkgEDS, rd.fn)
		key, okK := r.Prog.constStr(pkgAPI, rd.key)
		if fn == nil || !okK {
			r.Fatal("anchor %s.%s or constant %s not found", pkgEDS, rd.fn, rd.key)
			continue
		}
		condType := ""
		if rd.cond != "" {
			condType, _ = r.Prog.constStr(pkgAPI, rd.cond)
		}
		c08ReaderTableAs(r, "C06.R13", fn, key, trueVal, condType)
	}
}

// ---------------------------------------------------------------------------------------------
// R14: optional container-state records are dereferenced only where a recorded state is established

// c06PodHelperFuncs lists the exported extraction helpers of the pod package that the evaluation
// uses, with the repository functions they call.
func c06PodHelperFuncs(r *Run) []*ssa.Function {
	seen := map[*ssa.Function]bool{}
	var out []*ssa.Function
	for _, name := range []string{"HighestRestartCount", "MostRecentRestart", "CannotStart", "PendingCreate"} {
		fn := r.Prog.Func(pkgPodUtils, name)
		if fn == nil {
			r.Fatal("anchor %s.%s not found", pkgPodUtils, name)
			continue
		}
		for _, g := range r.Prog.calleesWithin(fn, 3) {
			if !seen[g] {
				seen[g] = true
				out = append(out, g)
			}
		}
	}
	return out
}

func isZeroStructConst(v ssa.Value) bool {
	c, ok := v.(*ssa.Const)
	if !ok || c.Value != nil {
		return false
	}
	_, isStruct := c.Type().Underlying().(*types.Struct)
	return isStruct
}

// c06OptionalStateDerefs (R14): a container's Waiting / Running / Terminated record is optional (a
// restarted container may report an empty last state). Every dereference of such a pointer in the
// extraction helpers is dominated by a fact that establishes a record: the pointer itself != nil,
// or the enclosing ContainerState != ContainerState{} (the repository's idiom). Otherwise the
// canary evaluation panics on that pod instead of evaluating its triggers.
func c06OptionalStateDerefs(r *Run) {
	n := 0
	for _, fn := range c06PodHelperFuncs(r) {
		var ff *FuncFacts
		k := newKeyer(fn)
		reported := map[string]bool{}
		for _, b := range fn.Blocks {
			for _, in := range b.Instrs {
				var ptr ssa.Value
				switch x := in.(type) {
				case *ssa.FieldAddr:
					ptr = x.X
				case *ssa.UnOp:
					if x.Op == token.MUL {
						ptr = x.X
					}
				}
				ld, isLoad := ptr.(*ssa.UnOp)
				if !isLoad || ld.Op != token.MUL {
					continue
				}
				fa, isFA := ld.X.(*ssa.FieldAddr)
				if !isFA || !isNamedType(fa.X.Type(), pkgCoreV1, "ContainerState") {
					continue
				}
				if _, isPtr := ld.Type().Underlying().(*types.Pointer); !isPtr {
					continue
				}
				// a dereference of <state>.<Record>
				n++
				if ff == nil {
					ff = computeFacts(fn)
				}
				ptrKey := k.key(ld)
				structKey := strings.TrimPrefix(k.key(fa.X), "&")
				guarded := false
				for _, f := range ff.AtExpanded(b) {
					x, y, okE := eqOperands(f.V)
					if !okE || f.Pol {
						continue
					}
					for _, pair := range [][2]ssa.Value{{x, y}, {y, x}} {
						if isNilConst(pair[1]) && k.key(pair[0]) == ptrKey {
							guarded = true
						}
						if isZeroStructConst(pair[1]) && k.key(pair[0]) == structKey {
							guarded = true
						}
					}
				}
				construct := "dereference of " + fieldName(fa.X) + "." + fieldName(fa)
				if fieldName(fa.X) == "?" {
					construct = "dereference of " + fieldName(fa)
				}
				if guarded && reported[construct] {
					continue
				}
				reported[construct] = true
				detail := ""
				if !guarded {
					detail = "neither the record != nil nor the enclosing ContainerState != ContainerState{} is established where it is dereferenced; must-facts: " + shortSet(ff.At(b))
				}
				r.Check("C06.R14", construct, r.Prog.Pos(instrPos(in)), shortFunc(fn),
					"an optional container-state record is dereferenced only where a recorded state is established (a restarted container may report an empty last state)", guarded, detail)
			}
		}
	}
	if n == 0 {
		r.Check("C06.R14", "optional container-state records", "-", "-", "the extraction helpers read the containers' waiting / last-termination records", false, "no dereference found")
	}
}

// ---------------------------------------------------------------------------------------------
// R15: MostRecentRestart is the latest termination time among the containers that restarted

func c06LatestRestart(r *Run) {
	fn := r.Prog.Func(pkgPodUtils, "MostRecentRestart")
	if fn == nil {
		r.Fatal("anchor %s.MostRecentRestart not found", pkgPodUtils)
		return
	}
	pos := r.Prog.Pos(fn.Pos())
	construct := "most recent restart is the latest termination among restarted containers"
	var phi *ssa.Phi
	for _, b := range fn.Blocks {
		ret := returnOf(b)
		if ret == nil || len(ret.Results) == 0 {
			continue
		}
		ph, ok := stripConv(ret.Results[0]).(*ssa.Phi)
		if !ok || (phi != nil && ph != phi) {
			r.Undecided("C06.R15", construct, pos, shortFunc(fn), "the returned time is not one loop variable of a scan over the container statuses")
			return
		}
		phi = ph
	}
	if phi == nil {
		r.Undecided("C06.R15", construct, pos, shortFunc(fn), "no return found")
		return
	}
	header := phi.Block()
	k := newKeyer(fn)
	paths, ok := loopBodyPaths(fn, k, header, 20000)
	r.paths += len(paths)
	if !ok || len(paths) == 0 {
		r.Undecided("C06.R15", construct, pos, shortFunc(fn), "the returned time is not a loop variable (or path cap exceeded)")
		return
	}
	isVar := func(v ssa.Value) bool { return stripConv(v) == ssa.Value(phi) }
	isFinished := func(v ssa.Value) bool {
		v = stripConv(v)
		return allPathsEnd(v, "LastTerminationState", "Terminated", "FinishedAt", "Time") || allPathsEnd(v, "LastTerminationState", "Terminated", "FinishedAt")
	}
	isRC := func(v ssa.Value) bool { return allPathsEnd(stripConv(v), "RestartCount") }
	isZero := func(v ssa.Value) bool { z, okz := constInt(v); return okz && z == 0 }
	resolve := func(p *Path, v ssa.Value) ssa.Value {
		for i := 0; i < 32; i++ {
			ph, isPhi := v.(*ssa.Phi)
			if !isPhi || ph.Block() == header {
				return v
			}
			nv := p.ResolveOnce(v)
			if nv == v {
				return v
			}
			v = nv
		}
		return v
	}
	okAll, detail, nUpd := true, "", 0
	bad := func(s string) {
		if okAll {
			okAll, detail = false, s
		}
	}
	for _, p := range paths {
		if len(p.Blocks) < 2 || p.Blocks[len(p.Blocks)-1] != header {
			bad("an iteration leaves the scan early (return inside the loop)")
			continue
		}
		restarted, later, noRecord := triUnknown, triUnknown, false
		infeasible := false
		for _, f := range p.Facts {
			if x, y, okE := eqOperands(f.V); okE {
				for _, pair := range [][2]ssa.Value{{x, y}, {y, x}} {
					a, b := pair[0], pair[1]
					switch {
					case isRC(a) && isZero(b):
						restarted = triOf(!f.Pol) // fact key is (rc == 0)
					case isZeroStructConst(b) && allPathsEnd(stripConv(a), "LastTerminationState") && f.Pol:
						noRecord = true
					case isNilConst(b) && allPathsEnd(stripConv(a), "LastTerminationState", "Terminated") && f.Pol:
						noRecord = true
					}
					// a pointer never equals a freshly allocated object: such a path does not exist
					if al, isA := stripConv(b).(*ssa.Alloc); isA && al.Heap && f.Pol {
						if _, isPtr := a.Type().Underlying().(*types.Pointer); isPtr {
							infeasible = true
						}
					}
				}
				continue
			}
			if big, small, strict, okO := factOrder(f); okO {
				if isRC(big) && isZero(small) && strict {
					restarted = triTrue
				}
				if isZero(big) && isRC(small) {
					restarted = triFalse
				}
				continue
			}
			if call, isC := f.V.(*ssa.Call); isC && len(call.Call.Args) == 2 {
				switch calleeName(&call.Call) {
				case "(time.Time).After":
					if isFinished(call.Call.Args[0]) && isVar(call.Call.Args[1]) {
						later = triOf(f.Pol)
					}
				case "(time.Time).Before":
					if isVar(call.Call.Args[0]) && isFinished(call.Call.Args[1]) {
						later = triOf(f.Pol)
					}
				}
			}
		}
		if infeasible {
			continue
		}
		pred := p.Blocks[len(p.Blocks)-2]
		var e ssa.Value
		for j, pb := range header.Preds {
			if pb == pred {
				e = resolve(p, phi.Edges[j])
			}
		}
		if e == nil {
			continue
		}
		if isVar(e) {
			if !(restarted == triFalse || noRecord || later == triFalse) {
				bad("an iteration keeps the previous time although the container restarted, has a recorded termination and it is not shown to be earlier: " + shortFacts(p))
			}
			continue
		}
		nUpd++
		switch {
		case !isFinished(e):
			bad("the time is replaced by something else than the container's last termination time: " + describeVal(e))
		case restarted != triTrue:
			bad("the termination record of a container is taken without the fact RestartCount != 0 (a record of a container that never restarted is not a restart): " + shortFacts(p))
		case later != triTrue:
			bad("the time is replaced without the container's termination being later than the time found so far: " + shortFacts(p))
		}
	}
	if nUpd == 0 {
		bad("no iteration path takes a container's termination time")
	}
	r.Check("C06.R15", construct, pos, shortFunc(fn),
		"the returned time is replaced exactly by the FinishedAt of a container with RestartCount != 0 whose termination is later than the time found so far (the 'latest observed restart' of the restart-span trigger)", okAll, detail)
}

// ---------------------------------------------------------------------------------------------
// R9 (addition): the verdict conditions do not outlive the canary episode

// c06ActiveResets: a replica set that becomes the active one starts from a clean slate: for each
// condition type that the canary evaluation writes from a Result flag (Canary-Failed from IsFailed,
// Canary-Paused from IsPaused) the replica-set controller writes constant False under role ==
// active, before the rolling-update strategy runs. Otherwise the persisted-condition readers see a
// verdict of an episode that is over (a validated canary stays 'paused' / 'failed' for ever).
func c06ActiveResets(c *c06Ctx) {
	r := c.r
	rec := r.Prog.Method(pkgERS, "Reconciler", "Reconcile")
	entry := r.Prog.Func(pkgStrategy, "ManageDeployment")
	active, okA := r.Prog.constStr(pkgStrategy, "ReplicaSetStatusActive")
	if rec == nil || entry == nil || !okA {
		r.Fatal("anchor (%s.Reconciler).Reconcile, %s.ManageDeployment or ReplicaSetStatusActive not found", pkgERS, pkgStrategy)
		return
	}
	reach := r.Prog.reachableFuncs(rec)
	sites := condWriteSites(reach)
	calls := callSitesOf(entry, reach)
	isRole := func(v ssa.Value) bool {
		v = stripConv(v)
		return allPathsEnd(v, "ReplicaSetStatus") || (isNamedType(v.Type(), pkgStrategy, "ReplicaSetStatus") && dependsOn(v, func(x ssa.Value) bool { return allPathsEnd(x, "ReplicaSetStatus") }))
	}
	for _, flag := range []string{"IsFailed", "IsPaused"} {
		w := c06FlagConditionWrite(c.eval, flag)
		if w == nil || w.typ == "" {
			continue // reported elsewhere
		}
		ok, detail := len(calls) > 0, ""
		if len(calls) == 0 {
			detail = "no call of the rolling-update strategy under the replica-set Reconcile"
		}
		for _, ci := range calls {
			found := false
			for _, s := range sites {
				if !s.typOK || s.typ != w.typ {
					continue
				}
				if st, _ := constString(s.status()); st != "False" {
					continue
				}
				// the write itself, or the call of a helper that performs it on each of its paths
				positions := []ssa.Instruction{s.outer}
				if s.fn() != ci.Parent() {
					positions = nil
					always := true
					for _, rb := range s.fn().Blocks {
						if isReturnBlock(rb) && !s.outer.Block().Dominates(rb) {
							always = false
						}
					}
					if always {
						for _, hc := range callsIn(ci.Parent()) {
							if staticCallee(hc.Common()) == s.fn() {
								positions = append(positions, hc)
							}
						}
					}
				}
				for _, at := range positions {
					ob := at.Block()
					before := ob == ci.Block() && instrIndex(at) < instrIndex(ci) || ob != ci.Block() && ob.Dominates(ci.Block())
					if before && underDispatchFact(r.Prog, ci.Parent(), ob, isRole, active, 0) {
						found = true
					}
				}
			}
			if !found {
				ok = false
				detail = "no write " + w.typ + "=False under role == \"" + active + "\" before the rolling-update strategy is run at " + r.Prog.Pos(ci.Pos())
			}
		}
		r.Check("C06.R9", "active role resets "+w.typ, r.Prog.Pos(entry.Pos()), "-",
			"a replica set that becomes active has the condition written from "+flag+" reset to False (the verdict of a finished canary episode is not read again)", ok, detail)
	}
}

// c06CopyOrigins returns root and, when root is a local struct cell initialised by copying another
// struct value (`refreshed := current`, a by-value parameter spilled to a cell), the roots it was
// copied from, transitively.
func c06CopyOrigins(root ssa.Value) []ssa.Value {
	out := []ssa.Value{root}
	seen := map[ssa.Value]bool{root: true}
	for i := 0; i < len(out) && i < 8; i++ {
		a, ok := out[i].(*ssa.Alloc)
		if !ok {
			continue
		}
		for _, rf := range refs(a) {
			st, isSt := rf.(*ssa.Store)
			if !isSt || st.Addr != ssa.Value(a) {
				continue
			}
			for _, p := range pathsOf(stripConv(st.Val)) {
				if len(p.fields) == 0 && p.root != nil && !seen[p.root] {
					seen[p.root] = true
					out = append(out, p.root)
				}
			}
		}
	}
	return out
}

// c06CellCountEvents: when NewStatus.Current is written from field f of a local counter object
// (directly, or by a helper that receives the object and the status), it returns the instructions
// of fn that increment that field by one: a direct store cell.f = cell.f + 1, or a call of a
// repository function that receives the object and performs that increment on each of its paths.
func c06CellCountEvents(prog *Prog, fn *ssa.Function) map[ssa.Instruction]bool {
	type loc struct {
		cell  *ssa.Alloc
		field string
	}
	var locs []loc
	cellField := func(v ssa.Value, bind func(*ssa.Parameter) ssa.Value) (loc, bool) {
		ps := pathsOf(stripConv(v))
		if len(ps) != 1 || len(ps[0].fields) != 1 {
			return loc{}, false
		}
		root := ps[0].root
		if p, isP := root.(*ssa.Parameter); isP && bind != nil {
			root = stripConv(bind(p))
		}
		a, isA := root.(*ssa.Alloc)
		if !isA {
			return loc{}, false
		}
		return loc{a, ps[0].fields[0]}, true
	}
	// where does NewStatus.Current come from
	for _, st := range storesToFieldOf(fn, pkgAPI, "ExtendedDaemonSetReplicaSetStatus", "Current") {
		if l, ok := cellField(st.Val, nil); ok {
			locs = append(locs, l)
		}
	}
	for _, ci := range callsIn(fn) {
		g := staticCallee(ci.Common())
		if g == nil || !prog.IsRuleSite(g) {
			continue
		}
		bind := func(p *ssa.Parameter) ssa.Value {
			if i := paramIndex(p); i >= 0 && i < len(ci.Common().Args) {
				return ci.Common().Args[i]
			}
			return p
		}
		for _, st := range storesToFieldOf(g, pkgAPI, "ExtendedDaemonSetReplicaSetStatus", "Current") {
			if l, ok := cellField(st.Val, bind); ok {
				locs = append(locs, l)
			}
		}
	}
	out := map[ssa.Instruction]bool{}
	isIncrement := func(st *ssa.Store, field string) bool {
		fa, ok := st.Addr.(*ssa.FieldAddr)
		if !ok || fieldName(fa) != field {
			return false
		}
		bo, isB := st.Val.(*ssa.BinOp)
		if !isB || bo.Op != token.ADD {
			return false
		}
		one, isOne := constInt(bo.Y)
		ld, isLd := bo.X.(*ssa.UnOp)
		if !isOne || one != 1 || !isLd {
			return false
		}
		lfa, isFA := ld.X.(*ssa.FieldAddr)
		return isFA && fieldName(lfa) == field && lfa.X == fa.X
	}
	for _, l := range locs {
		for _, b := range fn.Blocks {
			for _, in := range b.Instrs {
				switch x := in.(type) {
				case *ssa.Store:
					if fa, ok := x.Addr.(*ssa.FieldAddr); ok && fa.X == ssa.Value(l.cell) && isIncrement(x, l.field) {
						out[in] = true
					}
				case ssa.CallInstruction:
					g := staticCallee(x.Common())
					if g == nil || !prog.IsRuleSite(g) || len(g.Blocks) == 0 {
						continue
					}
					for ai, a := range x.Common().Args {
						if stripConv(a) != ssa.Value(l.cell) || ai >= len(g.Params) {
							continue
						}
						// the callee increments param.field on every path: the store's block dominates every return
						for _, gb := range g.Blocks {
							for _, gin := range gb.Instrs {
								st, isSt := gin.(*ssa.Store)
								if !isSt || !isIncrement(st, l.field) {
									continue
								}
								if fa := st.Addr.(*ssa.FieldAddr); fa.X != ssa.Value(g.Params[ai]) {
									continue
								}
								always := true
								for _, rb := range g.Blocks {
									if isReturnBlock(rb) && !gb.Dominates(rb) {
										always = false
									}
								}
								if always {
									out[in] = true
								}
							}
						}
					}
				}
			}
		}
	}
	return out
}
