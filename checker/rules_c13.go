package main

// C13 — one replica set per template, faithful to it, never collected while in use.

import (
	"fmt"
	"go/token"
	"go/types"
	"sort"
	"strings"

	"golang.org/x/tools/go/ssa"
)

func init() {
	register("C13", "Decides the structural conditions of replica-set identity and clean-up: (R1) every Create(ExtendedDaemonSetReplicaSet) reachable from the ExtendedDaemonSet Reconcile is reached only under `X == nil`, X being a loop variable that, in a loop over every index of the Items of a list object whose List call's error was checked, is tested on every iteration path with IsReplicaSetUpToDate(item, ds), becomes provably non-nil on every path where the test is true and is left unchanged where it is false, the loop having no other exit that reaches the creation, and ds being the very object the new replica set is built from; (R2) hash chain: the constructor of the created replica set copies ds.Spec.Template, writes the template-hash annotation and Spec.TemplateGeneration from one call of the hash function over &ds.Spec.Template (on every success path of the stamping function), and the creation is reached only when that constructor returned no error; IsReplicaSetUpToDate returns true only when the same annotation key of the replica set equals the hash of &ds.Spec.Template; the hash function feeds its hash with exactly encoding/json.Marshal of its argument; pods are stamped from and compared with Spec.TemplateGeneration under the same key (shared with C10.R4); (R3) every Delete(ExtendedDaemonSetReplicaSet) is reached, on every path of its loop iteration, only with current != nil, name != current.Name, (upToDate == nil or name != upToDate.Name) and a true result of a predicate that returns true only for a nil object or when desired+current+ready+available are all zero; at the call site `current` is the result of the promotion decision (the value status.activeReplicaSet is stored from) and `upToDate` is the R1 variable; (R4) the PodTemplate constructor takes name, namespace and a copy of Spec.Template from the ExtendedDaemonSet and stamps the hash of &eds.Spec.Template under the hash key on every success path; the object handed to Create/Update is that constructor's result for the reconciled object; the update is skipped (nil error without Update) only when the stored annotation equals the computed hash of the same object. In R2 and R4 the constructor may be wrapped (a function that returns the inner constructor's object unchanged in identity, Spec/Template and hash annotation, and only when the inner call reported no error or together with that error); the annotation may be written by a map update or by installing a fresh map literal that holds the key; in R4 the hash may be handed to the constructor, provided that at every call it is the hash of the template of the ExtendedDaemonSet handed in with it; in R3 the all-zero predicate may delegate to a boolean repository helper over (a part of) the replica set, which then counts for the counters that are zero on every path on which it returns true. R2 also requires that no write which can execute after the hash stamp replaces the new replica set's annotation map or updates it under a key that may be the template-hash key (a copied stale hash would overwrite the fresh one).", runC13)
}

type c13Ctx struct {
	r      *Run
	rec    *ssa.Function
	reach  map[*ssa.Function]bool
	md5Key string
	pred   *ssa.Function // IsReplicaSetUpToDate
	// results of R1
	matchVar ssa.Value // the value tested `== nil` before the creation: the match loop's variable, or a helper result that returns it
	matchFn  *ssa.Function
	listObj  ssa.Value
	decSite  *decisionSite
	decDone  bool
}

func runC13(r *Run) {
	r.RuleDoc("C13.R1", "Create(replica set) only when no listed replica set matches the template hash (full loop, every iteration tested, error-checked list)")
	r.RuleDoc("C13.R2", "hash chain: constructor copies the template and stamps annotation + TemplateGeneration from one hash of it; the matcher compares the same key with the same hash; json.Marshal is the hash input")
	r.RuleDoc("C13.R3", "Delete(replica set) guarded by current/up-to-date name tests and an all-zero status predicate; roles of current/upToDate at the call")
	r.RuleDoc("C13.R4", "PodTemplate mirror: name/namespace/template copy/hash from the ExtendedDaemonSet; update skipped only on equal hash")
	r.Floor("C13.R1", 6)
	r.Floor("C13.R2", 9)
	r.Floor("C13.R3", 5) // delete guards, roles, status store, and the predicate's nil and all-zero returns (further returns can be merged)
	r.Floor("C13.R4", 6)
	r.NotCovered("histories of template edits and interleavings of reconciles (two reconciles racing on a stale cache can both see no match); collisions of the MD5 hash; that the API server persists the annotation; the 2-minute retention of failed canaries (C07); the promotion decision itself (C05)")

	rec, reach := edsReconcile(r)
	if rec == nil {
		return
	}
	c := &c13Ctx{r: r, rec: rec, reach: reach}
	var ok bool
	if c.md5Key, ok = r.Prog.constStr(pkgAPI, "MD5ExtendedDaemonSetAnnotationKey"); !ok {
		r.Fatal("anchor constant %s.MD5ExtendedDaemonSetAnnotationKey not found", pkgAPI)
		return
	}
	c.pred = r.Prog.Func(pkgComparison, "IsReplicaSetUpToDate")
	if c.pred == nil {
		r.Fatal("anchor %s.IsReplicaSetUpToDate not found", pkgComparison)
		return
	}
	effs := effectsOf(reach)
	nCreate, nDelete := 0, 0
	for _, e := range effs {
		if e.Kind != pkgAPI+".ExtendedDaemonSetReplicaSet" {
			continue
		}
		switch e.Verb {
		case "Create":
			nCreate++
			c.createSite(e)
		}
	}
	for _, e := range effs {
		if e.Kind == pkgAPI+".ExtendedDaemonSetReplicaSet" && e.Verb == "Delete" {
			nDelete++
			c.deleteSite(e)
		}
	}
	if nCreate == 0 {
		r.Check("C13.R1", "create site", "-", "-", "a Create(ExtendedDaemonSetReplicaSet) reachable from the ExtendedDaemonSet Reconcile", false, "none found")
	}
	if nDelete == 0 {
		r.Check("C13.R3", "delete site", "-", "-", "a Delete(ExtendedDaemonSetReplicaSet) reachable from the ExtendedDaemonSet Reconcile", false, "none found")
	}
	c.matcher()
	c13HashFunction(r)
	c10HashChainPod(r, "C13.R2", true)
	c13PodTemplate(r, c.md5Key)
	c13Imports(r)
	// the list whose elements the promotion decision and the clean-up hold pointers to (activeRS = &Items[i])
	// must not be compacted or reordered in place: otherwise `current` names another replica set and the
	// really active one loses the protection of the clean-up guards (decided once, under C05)
	r.ImportFrom(runC05, map[string]string{"C05.R9": "C13.R7"}, map[string]string{
		"C13.R7": "no reordering/overwriting of the listed replica sets while element addresses (the active replica set) are kept: the object the clean-up protects is the one the decision chose"})
}

// ---------------------------------------------------------------------------------------------
// R1 + R2(a)

func isERSPtr(v ssa.Value) bool { return isPtrToNamed(v.Type(), pkgAPI, "ExtendedDaemonSetReplicaSet") }

// createSite handles one Create(ERS) effect.
func (c *c13Ctx) createSite(e *Effect) {
	r := c.r
	pos := r.Prog.Pos(e.Call.Pos())
	sf := shortFunc(e.Fn)
	// the created object comes from a constructor call
	var ctorCall *ssa.Call
	for _, o := range origins(unwrap(e.Obj)) {
		var call *ssa.Call
		switch x := o.(type) {
		case *ssa.Extract:
			call, _ = x.Tuple.(*ssa.Call)
			if x.Index != 0 {
				call = nil
			}
		case *ssa.Call:
			call = x
		}
		if call == nil || staticCallee(&call.Call) == nil || !r.Prog.IsRuleSite(staticCallee(&call.Call)) || (ctorCall != nil && ctorCall != call) {
			r.Undecided("C13.R2", "created replica set constructor", pos, sf, "the created object is not the result of one repository constructor call: "+o.String())
			return
		}
		ctorCall = call
	}
	if ctorCall == nil {
		r.Undecided("C13.R2", "created replica set constructor", pos, sf, "no origin of the created object")
		return
	}
	ctor := staticCallee(&ctorCall.Call)
	var ds ssa.Value
	dsIdx := -1
	for i, a := range ctorCall.Call.Args {
		if isPtrToNamed(a.Type(), pkgAPI, "ExtendedDaemonSet") {
			ds, dsIdx = a, i
		}
	}
	if ds == nil {
		r.Undecided("C13.R2", "created replica set constructor", pos, sf, "constructor takes no ExtendedDaemonSet")
		return
	}
	// creation only when the constructor reported no error
	if ctor.Signature.Results().Len() == 2 {
		ff := computeFacts(e.Fn)
		okErr := ff.Holds(e.Call.Block(), true, func(v ssa.Value, _ string) bool {
			return isNilCompareOf(v, func(x ssa.Value) bool {
				for _, o := range origins(x) {
					ex, isE := o.(*ssa.Extract)
					if !isE || ex.Index != 1 || ex.Tuple != ssa.Value(ctorCall) {
						return false
					}
				}
				return true
			})
		})
		r.Check("C13.R2", "create only after a successful constructor", pos, sf, "the constructor's error is nil where Create is called (a failed hash would create a replica set that never matches)", okErr, "must-facts: "+ff.At(e.Call.Block()).String())
	}
	c.constructor(ctor, dsIdx)

	// R1: climb from the create call to the guard
	c.guard(e.Fn, e.Call, ds, 0, pos, sf)
}

func (c *c13Ctx) guard(fn *ssa.Function, site ssa.CallInstruction, ds ssa.Value, depth int, cpos, csf string) {
	r := c.r
	ff := computeFacts(fn)
	// the value X tested `== nil`: a loop variable of this function, or the result of a repository helper
	// that returns its own loop variable on every return
	var x *ssa.Phi
	var top ssa.Value
	loopFn := fn
	sites := []*ssa.BasicBlock{site.Block()}
	dsIn := ds
	for _, f := range ff.At(site.Block()) {
		if !f.Pol {
			continue
		}
		a, b, ok := eqOperands(f.V)
		if !ok {
			continue
		}
		for _, pair := range [][2]ssa.Value{{a, b}, {b, a}} {
			if !isNilConst(pair[1]) || !isERSPtr(pair[0]) {
				continue
			}
			if ph, isPhi := pair[0].(*ssa.Phi); isPhi {
				x, top, loopFn, sites, dsIn = ph, ph, fn, []*ssa.BasicBlock{site.Block()}, ds
				continue
			}
			var call *ssa.Call
			idx := 0
			switch y := pair[0].(type) {
			case *ssa.Extract:
				call, _ = y.Tuple.(*ssa.Call)
				idx = y.Index
			case *ssa.Call:
				call = y
			}
			if call == nil {
				continue
			}
			G := staticCallee(&call.Call)
			if G == nil || !r.Prog.IsRuleSite(G) {
				continue
			}
			ph, isPhi := singleReturn(G, idx).(*ssa.Phi)
			if !isPhi {
				continue
			}
			var dsPar ssa.Value
			for i, arg := range call.Call.Args {
				if unwrap(arg) == unwrap(ds) && i < len(G.Params) {
					dsPar = G.Params[i]
				}
			}
			if dsPar == nil {
				dsPar = ds // reported by "tested object is the one created for"
			}
			var rets []*ssa.BasicBlock
			for _, b := range G.Blocks {
				if returnOf(b) != nil {
					rets = append(rets, b)
				}
			}
			x, top, loopFn, sites, dsIn = ph, pair[0], G, rets, dsPar
		}
	}
	if x == nil {
		par, isPar := unwrap(ds).(*ssa.Parameter)
		if fn == c.rec || depth >= 3 || !isPar {
			r.Check("C13.R1", "create guarded by no-match", cpos, csf, "Create is reached only under `X == nil` for the match variable X of the list loop", false,
				"no such fact at "+r.Prog.Pos(site.Pos())+" in "+shortFunc(fn)+": "+ff.At(site.Block()).String())
			return
		}
		csites := callSitesOf(fn, c.reach)
		if len(csites) == 0 {
			r.Check("C13.R1", "create guarded by no-match", cpos, csf, "Create is reached only under `X == nil`", false, shortFunc(fn)+" has no static call site reachable from Reconcile")
			return
		}
		for _, s := range csites {
			c.guard(s.Parent(), s, s.Common().Args[paramIndex(par)], depth+1, cpos, csf)
		}
		return
	}
	r.Check("C13.R1", "create guarded by no-match", cpos, csf, "Create is reached only under `X == nil` for the match variable X of the list loop", true,
		"guard at "+r.Prog.Pos(site.Pos())+" in "+shortFunc(fn))
	c.matchVar, c.matchFn = top, fn
	lff := ff
	if loopFn != fn {
		lff = computeFacts(loopFn)
	}
	c.loop(loopFn, lff, x, sites, dsIn)
}

// listed: the list object v (as seen at block use of fn) was filled by a List call whose error is known
// to be nil there — in fn itself, in the callers when v is a parameter, or in the repository helper
// that returned it (which may also return nil for the failure case).
func (c *c13Ctx) listed(fn *ssa.Function, v ssa.Value, use *ssa.BasicBlock, depth int) (bool, string) {
	r := c.r
	if depth > 3 {
		return false, "undecided: list provenance too deep"
	}
	os := origins(unwrap(v))
	if len(os) == 0 {
		return false, "no origin of the list object"
	}
	okAny := false
	for _, o := range os {
		if isNilConst(o) {
			continue
		}
		switch x := o.(type) {
		case *ssa.Alloc:
			ff := computeFacts(fn)
			found := false
			for _, ci := range callsIn(fn) {
				e := clientEffect(fn, ci)
				if e == nil || e.Verb != "List" {
					continue
				}
				// the listed object is this allocation (also when the variable holding it lives in a cell
				// because a closure captures it)
				if eo := origins(unwrap(e.Obj)); len(eo) != 1 || eo[0] != ssa.Value(x) {
					continue
				}
				call, isCall := ci.(*ssa.Call)
				if !isCall || !call.Block().Dominates(use) {
					return false, "the List call does not dominate the use of the list"
				}
				if !ff.Holds(use, true, func(cv ssa.Value, _ string) bool {
					return isNilCompareOf(cv, func(y ssa.Value) bool { return y == ssa.Value(call) })
				}) {
					return false, "the error of the List call at " + r.Prog.Pos(call.Pos()) + " is not known to be nil where the list is used (an empty list after a failed List would create a duplicate)"
				}
				found = true
				c.listObj = x
			}
			if !found {
				return false, "the list object is not filled by a List call in " + shortFunc(fn)
			}
			okAny = true
		case *ssa.Parameter:
			sites := callSitesOf(fn, c.reach)
			if len(sites) == 0 {
				return false, shortFunc(fn) + " has no static call site"
			}
			for _, s := range sites {
				if ok, why := c.listed(s.Parent(), s.Common().Args[paramIndex(x)], s.Block(), depth+1); !ok {
					return false, why
				}
			}
			okAny = true
		case *ssa.Extract, *ssa.Call:
			var call *ssa.Call
			idx := 0
			if ex, isE := x.(*ssa.Extract); isE {
				call, _ = ex.Tuple.(*ssa.Call)
				idx = ex.Index
			} else {
				call = x.(*ssa.Call)
			}
			var H *ssa.Function
			if call != nil {
				H = staticCallee(&call.Call)
			}
			if H == nil || !r.Prog.IsRuleSite(H) {
				return false, "the list object comes from " + o.String()
			}
			n := 0
			for _, b := range H.Blocks {
				ret := returnOf(b)
				if ret == nil || idx >= len(ret.Results) {
					continue
				}
				allNil := true
				for _, ro := range origins(ret.Results[idx]) {
					if !isNilConst(ro) {
						allNil = false
					}
				}
				if allNil {
					continue // the failure return: a nil list can not be ranged over without a crash, never silently empty
				}
				n++
				if ok, why := c.listed(H, ret.Results[idx], b, depth+1); !ok {
					return false, why
				}
			}
			if n == 0 {
				return false, shortFunc(H) + " never returns"
			}
			okAny = true
		default:
			return false, "the list object comes from " + o.String()
		}
	}
	if !okAny {
		return false, "the list object is always nil"
	}
	return true, "listed"
}

// c13Elem identifies a slice element: v is &S[i], or a local copy `e := S[i]`.
func c13Elem(k *keyer, v ssa.Value) (S ssa.Value, idx ssa.Value, ok bool) {
	v = unwrap(v)
	if ia, isIA := v.(*ssa.IndexAddr); isIA {
		return ia.X, ia.Index, true
	}
	if a, isA := v.(*ssa.Alloc); isA {
		sts := cellStores(a)
		if len(sts) != 1 {
			return nil, nil, false
		}
		if u, isL := sts[0].Val.(*ssa.UnOp); isL && u.Op == token.MUL {
			if ia, isIA := u.X.(*ssa.IndexAddr); isIA {
				// the copy must not be modified through field stores
				if len(refsFieldStores(a)) > 0 {
					return nil, nil, false
				}
				return ia.X, ia.Index, true
			}
		}
	}
	return nil, nil, false
}

func refsFieldStores(a *ssa.Alloc) []*ssa.Store {
	var out []*ssa.Store
	var rec func(v ssa.Value)
	rec = func(v ssa.Value) {
		for _, rr := range refs(v) {
			if fa, ok := rr.(*ssa.FieldAddr); ok {
				for _, r2 := range refs(fa) {
					if st, isSt := r2.(*ssa.Store); isSt && st.Addr == ssa.Value(fa) {
						out = append(out, st)
					}
				}
				rec(fa)
			}
		}
	}
	rec(a)
	return out
}

func (c *c13Ctx) loop(fn *ssa.Function, ff *FuncFacts, x *ssa.Phi, sites []*ssa.BasicBlock, ds ssa.Value) {
	r := c.r
	sf := shortFunc(fn)
	H := x.Block()
	pos := r.Prog.Pos(x.Pos())
	loop := loopBlocks(H)
	k := ff.K
	fail := func(construct, need, why string) { r.Check("C13.R1", construct, pos, sf, need, false, why) }

	const (
		cCover = "loop covers all listed items"
		cTest  = "every iteration tests the item"
		cVar   = "match variable assignments"
		cList  = "list error checked"
		cSame  = "tested object is the one created for"
		nCover = "the match loop enumerates every index of the Items of the listed replica sets and cannot leave early towards the creation"
		nTest  = "IsReplicaSetUpToDate(item, ds) is evaluated on every path of an iteration"
		nVar   = "X becomes provably non-nil on every path where the test is true and keeps its value where it is false"
		nList  = "the Items come from a List call of this function whose error was checked before the loop"
		nSame  = "the ExtendedDaemonSet tested against is the object the new replica set is built from"
	)
	if len(loop) < 2 {
		for _, cc := range []string{cCover, cTest, cVar, cList, cSame} {
			r.Undecided("C13.R1", cc, pos, sf, "the match variable is not a loop variable")
		}
		return
	}
	var preds []*ssa.Call
	for b := range loop {
		for _, in := range b.Instrs {
			if call, ok := in.(*ssa.Call); ok && staticCallee(&call.Call) == c.pred {
				preds = append(preds, call)
			}
		}
	}
	if len(preds) != 1 {
		for _, cc := range []string{cCover, cTest, cVar, cList, cSame} {
			r.Undecided("C13.R1", cc, pos, sf, fmt.Sprintf("%d calls of IsReplicaSetUpToDate in the loop (need exactly one)", len(preds)))
		}
		return
	}
	pred := preds[0]

	// tested object
	r.Check("C13.R1", cSame, r.Prog.Pos(pred.Pos()), sf, nSame, unwrap(pred.Call.Args[1]) == unwrap(ds),
		fmt.Sprintf("tested %s, created for %s", pred.Call.Args[1].Name(), ds.Name()))

	// item, slice, index
	S, idx, okE := c13Elem(k, pred.Call.Args[0])
	if !okE {
		fail(cCover, nCover, "undecided: the tested replica set is not an element (or element copy) of a slice")
		fail(cList, nList, "undecided: no list")
	} else {
		hdr, why := indexLoopOver(k, idx, S)
		okCover := hdr == H
		if hdr != nil && hdr != H {
			why = "the index belongs to a different loop than the match variable"
		}
		if okCover {
			for b := range loop {
				if b == H {
					continue
				}
				for _, s := range b.Succs {
					for _, site := range sites {
						if !loop[s] && reaches(s, site) {
							okCover, why = false, "the loop can be left early (break) on a path that reaches the creation"
						}
					}
				}
			}
		}
		r.Check("C13.R1", cCover, pos, sf, nCover, okCover, why)

		// listed and error-checked
		okList, whyList := false, "the slice is not the Items of a listed object"
		if u, isL := S.(*ssa.UnOp); isL && u.Op == token.MUL {
			if fa, isFA := u.X.(*ssa.FieldAddr); isFA && fieldName(fa) == "Items" {
				okList, whyList = c.listed(fn, fa.X, H, 0)
			}
		}
		r.Check("C13.R1", cList, pos, sf, nList, okList, whyList)
	}

	// per-iteration paths
	body := H.Succs[0]
	if !loop[body] {
		body = H.Succs[1]
	}
	paths, okP := enumPaths(fn, k, body, func(b *ssa.BasicBlock) bool { return b == H }, func(b *ssa.BasicBlock) bool { return b == H || !loop[b] }, 5000)
	r.paths += len(paths)
	if !okP || len(paths) == 0 {
		r.Undecided("C13.R1", cTest, pos, sf, "path cap exceeded or no iteration path")
		r.Undecided("C13.R1", cVar, pos, sf, "path cap exceeded or no iteration path")
		return
	}
	okTest, okVar := true, true
	whyTest, whyVar := "", ""
	for _, p := range paths {
		if !loop[p.Blocks[len(p.Blocks)-2]] {
			continue
		}
		isPred := func(v ssa.Value, _ string) bool { return v == ssa.Value(pred) }
		t, f := p.Has(true, isPred), p.Has(false, isPred)
		last := p.Blocks[len(p.Blocks)-2]
		var edge ssa.Value
		for j, pb := range H.Preds {
			if pb == last {
				edge = x.Edges[j]
			}
		}
		val := resolveInLoop(p, edge, H)
		switch {
		case !t && !f:
			okTest, whyTest = false, "an iteration path skips the test: ["+shortFacts(p)+"]"
		case t:
			if !provablyNonNil(val) {
				okVar, whyVar = false, "on a path where the test is true X becomes "+val.String()
			}
		case f:
			if val != ssa.Value(x) {
				okVar, whyVar = false, "on a path where the test is false X is assigned "+val.String()
			}
		}
	}
	r.Check("C13.R1", cTest, r.Prog.Pos(pred.Pos()), sf, nTest, okTest, whyTest)
	r.Check("C13.R1", cVar, r.Prog.Pos(pred.Pos()), sf, nVar, okVar, whyVar)
}

// constructor checks R2(a) on the function that builds the created replica set.
// c13WrappedCtor: w returns, as its object, result #0 of one call of a repository function that is
// given w's ExtendedDaemonSet: w wraps the real constructor. The wrapper must hand the object on
// unchanged in what the rules look at (identity, Spec / Template, the hash annotation) and only when
// the inner call reported no error.
func c13WrappedCtor(r *Run, w *ssa.Function, dsIdx int, key string) (inner *ssa.Function, innerDs int, why string) {
	var call *ssa.Call
	var obj ssa.Value
	for _, b := range w.Blocks {
		ret := returnOf(b)
		if ret == nil || len(ret.Results) == 0 {
			continue
		}
		for _, o := range origins(ret.Results[0]) {
			if isNilConst(o) {
				continue
			}
			var cl *ssa.Call
			switch x := o.(type) {
			case *ssa.Extract:
				if x.Index == 0 {
					cl, _ = x.Tuple.(*ssa.Call)
				}
			case *ssa.Call:
				cl = x
			}
			if cl == nil || (call != nil && call != cl) {
				return nil, 0, ""
			}
			call, obj = cl, o
		}
	}
	if call == nil {
		return nil, 0, ""
	}
	inner = staticCallee(&call.Call)
	if inner == nil || !r.Prog.IsRuleSite(inner) || len(inner.Blocks) == 0 {
		return nil, 0, ""
	}
	innerDs = -1
	for i, a := range call.Call.Args {
		if unwrap(a) == ssa.Value(w.Params[dsIdx]) {
			innerDs = i
		}
	}
	if innerDs < 0 {
		return inner, 0, shortFunc(w) + " does not hand its ExtendedDaemonSet to " + shortFunc(inner)
	}
	// unchanged
	for _, b := range w.Blocks {
		for _, in := range b.Instrs {
			if st, ok := in.(*ssa.Store); ok {
				if root, p := deepPath(st.Addr); root == obj {
					if sp := stripMeta(p); len(sp) > 0 && (sp[0] == "Spec" || sp[0] == "Template" || sp[0] == "Name" || sp[0] == "Namespace" || sp[0] == "Annotations") {
						return inner, 0, shortFunc(w) + " rewrites " + strings.Join(sp, ".") + " of the object " + shortFunc(inner) + " built"
					}
				}
			}
		}
	}
	if ws, _ := annotationWrites(r.Prog, w, func(v ssa.Value) bool { return v == obj }, key); len(ws) > 0 {
		return inner, 0, shortFunc(w) + " rewrites the hash annotation of the object " + shortFunc(inner) + " built"
	}
	// only after success
	if inner.Signature.Results().Len() == 2 {
		paths, _, ok := funcPaths(w, 5000)
		r.paths += len(paths)
		if !ok {
			return inner, 0, "undecided: path cap exceeded"
		}
		for _, p := range paths {
			ret := returnOf(p.Blocks[len(p.Blocks)-1])
			if ret == nil || isNilConst(p.Resolve(ret.Results[0])) {
				continue
			}
			// the inner error is handed on with the object: the wrapper's caller tests it
			if len(ret.Results) == 2 {
				if ex, isE := p.Resolve(ret.Results[1]).(*ssa.Extract); isE && ex.Index == 1 && ex.Tuple == ssa.Value(call) {
					continue
				}
			}
			if !p.Has(true, func(v ssa.Value, _ string) bool {
				return isNilCompareOf(v, func(x ssa.Value) bool {
					for _, o := range origins(x) {
						ex, isE := o.(*ssa.Extract)
						if !isE || ex.Index != 1 || ex.Tuple != ssa.Value(call) {
							return false
						}
					}
					return true
				})
			}) {
				return inner, 0, shortFunc(w) + " returns the object although " + shortFunc(inner) + " reported an error: [" + shortFacts(p) + "]"
			}
		}
	}
	return inner, innerDs, ""
}

func (c *c13Ctx) constructor(ctor *ssa.Function, dsIdx int) {
	r := c.r
	for depth := 0; depth < 3; depth++ {
		inner, innerDs, why := c13WrappedCtor(r, ctor, dsIdx, c.md5Key)
		if inner == nil {
			break
		}
		if why != "" {
			for _, cc := range []string{"template copy", "hash stamp"} {
				r.Undecided("C13.R2", cc, r.Prog.Pos(ctor.Pos()), shortFunc(ctor), why)
			}
			return
		}
		ctor, dsIdx = inner, innerDs
	}
	sf := shortFunc(ctor)
	pos := r.Prog.Pos(ctor.Pos())
	ds := ctor.Params[dsIdx]
	// the returned object
	var rs *ssa.Alloc
	okRet := true
	for _, b := range ctor.Blocks {
		ret := returnOf(b)
		if ret == nil {
			continue
		}
		for _, o := range origins(ret.Results[0]) {
			if isNilConst(o) {
				continue
			}
			a, isA := o.(*ssa.Alloc)
			if !isA || (rs != nil && rs != a) {
				okRet = false
				continue
			}
			rs = a
		}
	}
	if rs == nil || !okRet {
		for _, cc := range []string{"template copy", "hash stamp"} {
			r.Undecided("C13.R2", cc, pos, sf, "the constructor does not return one locally built object")
		}
		return
	}
	isTplOfDS := func(v ssa.Value) bool {
		root, p := accessPath(v)
		return root == ssa.Value(ds) && samePath(p, []string{"Spec", "Template"})
	}
	// Spec.Template = *ds.Spec.Template.DeepCopy()
	vals, opaque := fieldVals(rs, "Spec", "Template")
	okT := len(vals) == 1 && !opaque
	whyT := fmt.Sprintf("%d stores to Spec.Template (opaque=%v)", len(vals), opaque)
	if okT {
		okT = false
		whyT = "Spec.Template is stored from " + vals[0].String()
		if u, isL := vals[0].(*ssa.UnOp); isL && u.Op == token.MUL {
			if call, isC := u.X.(*ssa.Call); isC {
				if cal := staticCallee(&call.Call); cal != nil && cal.Name() == "DeepCopy" && len(call.Call.Args) == 1 && isTplOfDS(call.Call.Args[0]) {
					okT, whyT = true, "deep copy of "+ds.Name()+".Spec.Template"
				}
			} else if _, isFA := u.X.(*ssa.FieldAddr); isFA && isTplOfDS(u.X) {
				okT, whyT = true, "copy of "+ds.Name()+".Spec.Template"
			}
		}
	}
	r.Check("C13.R2", "template copy", pos, sf, "the replica set's Spec.Template is a (deep) copy of the ExtendedDaemonSet's Spec.Template", okT, whyT)

	// hash stamp
	gvals, gop := fieldVals(rs, "Spec", "TemplateGeneration")
	okG := len(gvals) == 1 && !gop
	whyG := fmt.Sprintf("%d stores to Spec.TemplateGeneration", len(gvals))
	var stampVal ssa.Value
	if okG {
		stampVal = gvals[0]
		h, why := templateHashSource(r.Prog, stampVal, 0)
		okG = h != nil && h.root == ssa.Value(ds) && samePath(h.path, []string{"Spec", "Template"})
		whyG = why
		if h != nil {
			whyG = h.String()
		}
	}
	r.Check("C13.R2", "TemplateGeneration from the template hash", pos, sf, "Spec.TemplateGeneration is the hash of &ds.Spec.Template (the field that is copied)", okG, whyG)

	// annotation written from the same hash value
	okA, whyA := c13AnnotationStamp(r, ctor, rs, ds, stampVal, c.md5Key)
	r.Check("C13.R2", "hash annotation from the same hash", pos, sf,
		"the template-hash annotation of the new replica set is written, on every success path, with the same hash value that becomes Spec.TemplateGeneration", okA, whyA)

	// nothing that can execute after the stamp rewrites the annotation (a copy of other annotations
	// into the new object's map, or a replaced map, can carry a stale template hash over the fresh one)
	okC, whyC := c13NoClobberAfterStamp(r, ctor, rs, c.md5Key)
	r.Check("C13.R2", "hash annotation not overwritten after the stamp", pos, sf,
		"no write that can execute after the hash stamp replaces the new replica set's annotation map or updates it under a key that may be the template-hash key", okC, whyC)
}

// c13NoClobberAfterStamp: see the obligation text. Stamps are map updates of obj.Annotations with the
// constant hash key, inline or inside a repository callee that receives obj.
func c13NoClobberAfterStamp(r *Run, fn *ssa.Function, obj ssa.Value, key string) (bool, string) {
	isObjAnn := func(m ssa.Value) bool {
		root, p := accessPath(m)
		return root == obj && len(p) > 0 && p[len(p)-1] == "Annotations"
	}
	writesKey := func(f *ssa.Function) bool {
		for g := range r.Prog.reachableFuncs(f) {
			for _, b := range g.Blocks {
				for _, in := range b.Instrs {
					if mu, ok := in.(*ssa.MapUpdate); ok {
						if s, isC := constString(mu.Key); isC && s == key {
							return true
						}
					}
				}
			}
		}
		return false
	}
	var stamps, clobbers []ssa.Instruction
	for _, b := range fn.Blocks {
		for _, in := range b.Instrs {
			switch x := in.(type) {
			case *ssa.MapUpdate:
				if !isObjAnn(x.Map) {
					continue
				}
				if s, isC := constString(x.Key); isC {
					if s == key {
						stamps = append(stamps, in)
					}
					continue
				}
				clobbers = append(clobbers, in)
			case *ssa.Store:
				if _, isFA := x.Addr.(*ssa.FieldAddr); isFA && isObjAnn(x.Addr) {
					clobbers = append(clobbers, in)
				}
			case *ssa.Call:
				cal := staticCallee(&x.Call)
				gets := false
				for _, a := range x.Call.Args {
					if root, _ := accessPath(a); root == obj || unwrap(a) == obj {
						gets = true
					}
				}
				if !gets {
					continue
				}
				if cal != nil && r.Prog.IsRuleSite(cal) && writesKey(cal) {
					stamps = append(stamps, in)
				} else if cal != nil && cal.Name() == "SetAnnotations" {
					clobbers = append(clobbers, in)
				}
			}
		}
	}
	if len(stamps) == 0 {
		return false, "no stamp of the hash annotation found in the constructor"
	}
	for _, s := range stamps {
		for _, c := range clobbers {
			if canExecuteAfter(s, c) {
				return false, "the write at " + r.Prog.Pos(instrPos(c)) + " can execute after the hash stamp at " + r.Prog.Pos(instrPos(s))
			}
		}
	}
	return true, fmt.Sprintf("%d stamp(s), %d other annotation write(s), none after a stamp", len(stamps), len(clobbers))
}

// c13AnnotationStamp: the annotation key is written into obj.Annotations with value `stamp` — inline
// in fn, or inside one repository callee H(obj, ds) whose first result is the written value.
func c13AnnotationStamp(r *Run, fn *ssa.Function, obj ssa.Value, ds ssa.Value, stamp ssa.Value, key string) (bool, string) {
	if stamp == nil {
		return false, "no stamped value"
	}
	updates := func(f *ssa.Function, isObj func(ssa.Value) bool) []annWrite {
		ws, lost := annotationWrites(r.Prog, f, isObj, key)
		if lost != "" {
			return nil
		}
		return ws
	}
	// inline
	if mus := updates(fn, func(v ssa.Value) bool { return v == obj }); len(mus) > 0 {
		for _, mu := range mus {
			if mu.val != stamp {
				return false, "the annotation is written with a different value than Spec.TemplateGeneration"
			}
		}
		paths, _, ok := funcPaths(fn, 5000)
		if !ok {
			return false, "undecided: path cap exceeded"
		}
		for _, p := range paths {
			ret := returnOf(p.Blocks[len(p.Blocks)-1])
			if len(ret.Results) == 2 && !isNilConst(p.Resolve(ret.Results[1])) {
				continue
			}
			found := false
			for _, mu := range mus {
				if p.Contains(mu.in.Block()) {
					found = true
				}
			}
			if !found {
				return false, "a success path does not write the annotation"
			}
		}
		return true, "written inline"
	}
	// through a helper whose result #0 is the stamp
	ex, ok := stamp.(*ssa.Extract)
	if !ok || ex.Index != 0 {
		return false, "the hash annotation is not written for the new replica set"
	}
	call, ok := ex.Tuple.(*ssa.Call)
	if !ok {
		return false, "the hash annotation is not written for the new replica set"
	}
	H := staticCallee(&call.Call)
	if H == nil || !r.Prog.IsRuleSite(H) {
		return false, "the hash annotation is not written for the new replica set"
	}
	objIdx := -1
	for i, a := range call.Call.Args {
		if unwrap(a) == obj {
			objIdx = i
		}
	}
	if objIdx < 0 {
		return false, shortFunc(H) + " is not given the new replica set"
	}
	mus := updates(H, func(v ssa.Value) bool { return v == ssa.Value(H.Params[objIdx]) })
	if len(mus) == 0 {
		return false, shortFunc(H) + " does not write the hash annotation of its replica set argument"
	}
	paths, _, okp := funcPaths(H, 5000)
	if !okp {
		return false, "undecided: path cap exceeded"
	}
	for _, p := range paths {
		ret := returnOf(p.Blocks[len(p.Blocks)-1])
		res := p.Resolve(ret.Results[0])
		if s, isC := constString(res); isC && s == "" {
			if len(ret.Results) == 2 && isNilConst(p.Resolve(ret.Results[1])) {
				return false, shortFunc(H) + " returns an empty hash without an error"
			}
			continue
		}
		found := false
		for _, mu := range mus {
			if p.Contains(mu.in.Block()) {
				found = true
				if mu.val != res {
					return false, shortFunc(H) + " writes a different value into the annotation than it returns"
				}
			}
		}
		if !found {
			return false, shortFunc(H) + " returns a hash on a path that does not write the annotation"
		}
	}
	return true, "written by " + shortFunc(H)
}

// matcher checks R2(b): IsReplicaSetUpToDate is true only when annotation[key] == hash(ds.Spec.Template).
func (c *c13Ctx) matcher() {
	fn := c.pred
	if len(fn.Params) != 2 {
		c.r.Undecided("C13.R2", "matcher", c.r.Prog.Pos(fn.Pos()), shortFunc(fn), "unexpected signature")
		return
	}
	rsP, dsP := fn.Params[0], fn.Params[1]
	isHash := func(v ssa.Value) bool {
		h, _ := templateHashSource(c.r.Prog, v, 0)
		return h != nil && h.root == ssa.Value(dsP) && samePath(h.path, []string{"Spec", "Template"})
	}
	c13AnnotEq(c.r, "C13.R2", "matcher", fn, isParam(rsP), isHash, c.md5Key, 0)
}

// c13AnnotEq: every path of fn returning true establishes obj.Annotations[key] == hash.
func c13AnnotEq(r *Run, rule, label string, fn *ssa.Function, isObj, isHash func(ssa.Value) bool, key string, depth int) {
	sf := shortFunc(fn)
	paths, _, ok := funcPaths(fn, 5000)
	r.paths += len(paths)
	if !ok {
		r.Undecided(rule, label+" table", r.Prog.Pos(fn.Pos()), sf, "path cap exceeded")
		return
	}
	isAnnVal := func(v ssa.Value) bool {
		if e, isE := v.(*ssa.Extract); isE && e.Index == 0 {
			v = e.Tuple
		}
		l, isL := v.(*ssa.Lookup)
		if !isL {
			return false
		}
		if s, isC := constString(l.Index); !isC || s != key {
			return false
		}
		root, p := accessPath(l.X)
		return len(p) > 0 && p[len(p)-1] == "Annotations" && isObj(root)
	}
	n := 0
	for _, p := range paths {
		ret := returnOf(p.Blocks[len(p.Blocks)-1])
		res := p.Resolve(ret.Results[0])
		pos := r.Prog.Pos(instrPos(ret))
		if b, isC := constBool(res); isC {
			if !b {
				continue
			}
			n++
			okEq := p.Has(true, func(v ssa.Value, _ string) bool { return isEqCompare(v, isAnnVal, isHash) })
			r.Check(rule, fmt.Sprintf("%s true-return %d", label, n), pos, sf, "true only when the replica set's template-hash annotation equals the hash of the ExtendedDaemonSet's template", okEq, "path facts: "+shortFacts(p))
			continue
		}
		n++
		construct := fmt.Sprintf("%s return %d", label, n)
		if bo, isB := res.(*ssa.BinOp); isB && bo.Op == token.EQL && isEqCompare(res, isAnnVal, isHash) {
			r.Check(rule, construct, pos, sf, "result is the comparison annotation == hash", true, "")
			continue
		}
		if call, isCall := res.(*ssa.Call); isCall && depth < 2 {
			if G := staticCallee(&call.Call); G != nil && r.Prog.IsRuleSite(G) {
				oi, hi := -1, -1
				for i, a := range call.Call.Args {
					if isObj(unwrap(a)) {
						oi = i
					}
					if isHash(a) {
						hi = i
					}
				}
				if oi >= 0 && hi >= 0 {
					r.Check(rule, construct, pos, sf, "result is the comparison of the replica set's annotation with the template hash", true, "delegates to "+shortFunc(G))
					c13AnnotEq(r, rule, label+"/"+G.Name(), G, isParam(G.Params[oi]), isParam(G.Params[hi]), key, depth+1)
					continue
				}
				r.Check(rule, construct, pos, sf, "result is the comparison of the replica set's annotation with the hash of &ds.Spec.Template", false,
					fmt.Sprintf("%s is called without the replica set (arg %d) or without a hash of the ExtendedDaemonSet's Spec.Template (arg %d)", shortFunc(G), oi, hi))
				continue
			}
		}
		r.Undecided(rule, construct, pos, sf, "result is neither a constant, the annotation comparison nor a repository comparison call: "+res.String())
	}
	if n == 0 {
		r.Check(rule, label+" table", r.Prog.Pos(fn.Pos()), sf, "the matcher can return true", false, "no path returns true")
	}
}

// c13HashFunction checks R2(d): the hash is fed with exactly json.Marshal(argument).
func c13HashFunction(r *Run) {
	fn := r.Prog.Func(pkgComparison, "GenerateMD5PodTemplateSpec")
	if fn == nil {
		r.Fatal("anchor %s.GenerateMD5PodTemplateSpec not found", pkgComparison)
		return
	}
	sf := shortFunc(fn)
	pos := r.Prog.Pos(fn.Pos())
	var marshal *ssa.Call
	nMarshal := 0
	for _, ci := range callsIn(fn) {
		if call, ok := ci.(*ssa.Call); ok && calleeName(&call.Call) == "encoding/json.Marshal" {
			nMarshal++
			if len(call.Call.Args) == 1 && unwrap(call.Call.Args[0]) == ssa.Value(fn.Params[0]) {
				marshal = call
			}
		}
	}
	okIn := marshal != nil && nMarshal == 1
	why := fmt.Sprintf("%d json.Marshal calls", nMarshal)
	okOut := okIn
	if okIn {
		F := newFrames(r.Prog)
		F.enterCalls = true
		top := F.top(fn)
		// the marshalled bytes, also when seen through the parameters of repository helpers
		isBytes := func(x fval) bool {
			x = F.resolve(x)
			if x.fr != top {
				return false
			}
			// exactly the marshalled bytes: no sub-slice, no concatenation
			seen := map[ssa.Value]bool{}
			var whole func(v ssa.Value) bool
			whole = func(v ssa.Value) bool {
				if seen[v] {
					return true
				}
				seen[v] = true
				switch y := v.(type) {
				case *ssa.Extract:
					return y.Index == 0 && y.Tuple == ssa.Value(marshal)
				case *ssa.Phi:
					for _, e := range y.Edges {
						if !whole(e) {
							return false
						}
					}
					return len(y.Edges) > 0
				case *ssa.ChangeType:
					return whole(y.X)
				case *ssa.Slice:
					return y.Low == nil && y.High == nil && y.Max == nil && whole(y.X)
				case *ssa.UnOp:
					if a, ok := y.X.(*ssa.Alloc); ok && y.Op == token.MUL {
						sts := cellStores(a)
						for _, st := range sts {
							if !whole(st.Val) {
								return false
							}
						}
						return len(sts) > 0 && len(sts) == len(refsStores(a))
					}
				}
				return false
			}
			return whole(x.v)
		}
		for _, b := range fn.Blocks {
			ret := returnOf(b)
			if ret == nil {
				continue
			}
			for _, o := range origins(ret.Results[0]) {
				if s, isC := constString(o); isC && s == "" {
					continue
				}
				if ok, w := c13DigestOf(F, fval{v: o, fr: top}, isBytes); !ok {
					okOut, why = false, w
				}
			}
		}
	}
	r.Check("C13.R2", "hash input", pos, sf, "the template hash is a crypto digest fed with exactly encoding/json.Marshal(template) (map keys are marshalled in sorted order, so reordering them keeps the identity)", okIn && okOut, why)
}

// c13DigestOf: the string x is (an encoding of) a crypto digest whose only input is data accepted by
// isBytes — computed in x's function or in a repository helper that returns it.
func c13DigestOf(F *frames, x fval, isBytes func(fval) bool) (bool, string) {
	x = F.resolve(x) // enters helpers that return one value
	okOut, why := true, ""
	var digests []ssa.Value
	nSum := 0
	dependsOnV(x.v, func(v ssa.Value) bool {
		call, isCall := v.(*ssa.Call)
		if !isCall {
			return false
		}
		n := calleeName(&call.Call)
		if strings.HasPrefix(n, "crypto/") && strings.Contains(n, ".New") {
			digests = append(digests, v)
		}
		if !call.Call.IsInvoke() && strings.HasPrefix(n, "crypto/") && strings.Contains(n, ".Sum") {
			nSum++
			if len(call.Call.Args) != 1 || !isBytes(fval{v: call.Call.Args[0], fr: x.fr}) {
				okOut, why = false, "digest of something other than the marshalled template"
			}
		}
		return false
	})
	if len(digests) == 0 && nSum == 0 {
		return false, "the returned string does not derive from a crypto digest: " + x.v.String()
	}
	for _, d := range digests {
		var uses func(v ssa.Value)
		uses = func(v ssa.Value) {
			for _, rr := range refs(v) {
				switch u := rr.(type) {
				case *ssa.ChangeInterface, *ssa.MakeInterface:
					uses(u.(ssa.Value))
				case *ssa.Call:
					name := calleeName(&u.Call)
					switch {
					case u.Call.IsInvoke() && u.Call.Value == v && u.Call.Method.Name() == "Sum":
					case u.Call.IsInvoke() && u.Call.Value == v && u.Call.Method.Name() == "Write":
						if !isBytes(fval{v: u.Call.Args[0], fr: x.fr}) {
							okOut, why = false, "the digest is written with data other than json.Marshal(template)"
						}
					case name == "io.Copy" && len(u.Call.Args) == 2 && u.Call.Args[0] == v:
						src := unwrap(u.Call.Args[1])
						rd, isCall := src.(*ssa.Call)
						if !isCall || calleeName(&rd.Call) != "bytes.NewReader" || !isBytes(fval{v: rd.Call.Args[0], fr: x.fr}) {
							okOut, why = false, "the digest is fed from a reader that is not over json.Marshal(template)"
						}
					default:
						okOut, why = false, "the digest object is passed to "+name
					}
				case *ssa.DebugRef:
				default:
					okOut, why = false, "unexpected use of the digest object: "+rr.String()
				}
			}
		}
		uses(d)
	}
	return okOut, why
}

// ---------------------------------------------------------------------------------------------
// R3

// deleteSite handles one Delete(ERS) effect. The guards are checked where the deletion is decided: at
// the Delete call when the deleted object is an element of the list being iterated, or — collect then
// act — at every append that fills the slice of pointers the Delete loop ranges over (in this
// function or in the repository function that returns that slice).
func (c *c13Ctx) deleteSite(e *Effect) {
	r := c.r
	fn := e.Fn
	sf := shortFunc(fn)
	pos := r.Prog.Pos(e.Call.Pos())
	const cGuard = "delete guards"
	dcall, _ := e.Call.(*ssa.Call)
	if dcall == nil {
		r.Undecided("C13.R3", cGuard, pos, sf, "Delete is deferred or spawned")
		return
	}
	k := newKeyer(fn)
	if _, _, okE := c13Elem(k, e.Obj); okE {
		c.deleteGuards(fn, dcall.Block(), e.Obj, pos, "")
		return
	}
	// element of a slice of pointers?
	var T ssa.Value
	if u, ok := unwrap(e.Obj).(*ssa.UnOp); ok && u.Op == token.MUL {
		if ia, ok := u.X.(*ssa.IndexAddr); ok {
			T = ia.X
		}
	}
	if T == nil {
		r.Undecided("C13.R3", cGuard, pos, sf, "the deleted object is neither an element of the list being iterated nor an element of a collected slice")
		return
	}
	type cand struct {
		fn  *ssa.Function
		b   *ssa.BasicBlock
		obj ssa.Value
		pos string
	}
	var cands []cand
	undec := ""
	addSteps := func(in *ssa.Function, rep ssa.Value) {
		inits, steps, blocks := c20Accum(rep)
		for _, iv := range inits {
			if !c20IsEmptySlice(iv) {
				undec = "the collected slice does not start empty"
			}
		}
		if len(steps) == 0 {
			undec = "the collected slice is not filled by appends"
		}
		for i, ap := range steps {
			el, ok := c20AppendedElem(ap)
			if !ok || el.val == nil {
				undec = "an append to the collected slice does not add exactly one object"
				continue
			}
			cands = append(cands, cand{in, blocks[i], el.val, r.Prog.Pos(ap.Pos())})
		}
	}
	rep := c20RepOf(T)
	switch {
	case rep != nil:
		addSteps(fn, rep)
	default:
		for _, o := range origins(T) {
			var call *ssa.Call
			idx := 0
			switch y := o.(type) {
			case *ssa.Extract:
				call, _ = y.Tuple.(*ssa.Call)
				idx = y.Index
			case *ssa.Call:
				call = y
			}
			var G *ssa.Function
			if call != nil {
				G = staticCallee(&call.Call)
			}
			if G == nil || !r.Prog.IsRuleSite(G) {
				undec = "the slice of objects to delete comes from " + o.String()
				continue
			}
			rv := singleReturn(G, idx)
			if rv == nil || c20RepOf(rv) == nil {
				undec = shortFunc(G) + " does not return one slice variable"
				continue
			}
			addSteps(G, c20RepOf(rv))
		}
	}
	if undec != "" || len(cands) == 0 {
		if undec == "" {
			undec = "no append fills the slice of objects to delete"
		}
		r.Undecided("C13.R3", cGuard, pos, sf, undec)
		return
	}
	for i, cd := range cands {
		suffix := ""
		if i > 0 {
			suffix = fmt.Sprintf(" (collect site %d)", i+1)
		}
		c.deleteGuards(cd.fn, cd.b, cd.obj, cd.pos, suffix)
	}
}

// deleteGuards: block `at` of fn (the Delete call, or the append that selects obj for deletion) is
// reached, within an iteration over the listed replica sets, only under the clean-up guards for obj.
func (c *c13Ctx) deleteGuards(fn *ssa.Function, at *ssa.BasicBlock, obj ssa.Value, pos, suffix string) {
	r := c.r
	sf := shortFunc(fn)
	ff := computeFacts(fn)
	k := ff.K
	cGuard := "delete guards" + suffix
	const nGuard = "on every path of the iteration that reaches the deletion (or the selection for deletion): current != nil, item.Name != current.Name, upToDate == nil or item.Name != upToDate.Name, and the all-zero predicate returned true for the deleted object"
	S, idx, okE := c13Elem(k, obj)
	if !okE {
		r.Undecided("C13.R3", cGuard, pos, sf, "the deleted object is not an element of a list being iterated")
		return
	}
	if len(storesTo(fn, "Items")) > 0 {
		r.Undecided("C13.R3", cGuard, pos, sf, "the function reassigns an Items field")
		return
	}
	H, why := indexLoopOver(k, idx, S)
	if H == nil {
		r.Undecided("C13.R3", cGuard, pos, sf, why)
		return
	}
	loop := loopBlocks(H)
	body := H.Succs[0]
	if !loop[body] {
		body = H.Succs[1]
	}
	// roles: the two *ERS values compared by name that are not the item
	sameElem := func(v ssa.Value) bool {
		S2, i2, ok := c13Elem(k, v)
		return ok && i2 == idx && k.key(S2) == k.key(S)
	}
	itemName := func(v ssa.Value) bool {
		v = unwrap(v)
		root, p := accessPath(v)
		if len(p) == 0 || p[len(p)-1] != "Name" {
			if call, isC := v.(*ssa.Call); isC && strings.HasSuffix(calleeName(&call.Call), ".GetName") && len(call.Call.Args) == 1 {
				rr, _ := accessPath(call.Call.Args[0])
				return sameElem(rr)
			}
			return false
		}
		for _, f := range p[:len(p)-1] {
			if f != "ObjectMeta" {
				return false
			}
		}
		return sameElem(root)
	}
	// role values from the call site(s)
	type roles struct{ current, upToDate ssa.Value }
	var rl roles
	okRoles, whyRoles := c.cleanupRoles(fn, &rl.current, &rl.upToDate)
	r.Check("C13.R3", "roles of current and upToDate"+suffix, pos, sf,
		"the clean-up receives the promotion decision's result as `current` and the R1 match variable as `upToDate`", okRoles, whyRoles)
	if !okRoles {
		return
	}
	isCur := func(v ssa.Value) bool { return unwrap(v) == rl.current }
	isUTD := func(v ssa.Value) bool { return unwrap(v) == rl.upToDate }

	paths, okP := enumPaths(fn, k, body, func(b *ssa.BasicBlock) bool { return b == at }, func(b *ssa.BasicBlock) bool { return b == H || b == at }, 5000)
	r.paths += len(paths)
	if !okP || len(paths) == 0 {
		r.Undecided("C13.R3", cGuard, pos, sf, "path cap exceeded or Delete not reachable from the loop body")
		return
	}
	// facts established before the loop is entered (e.g. `if current == nil { return }` hoisted out of
	// the loop): the must-facts on every edge that enters the header from outside the loop. They are about
	// values defined before the loop, which no iteration can change, so they hold on every iteration path.
	var pre factSet
	for _, pb := range H.Preds {
		if loop[pb] {
			continue
		}
		fs := ff.FactsAtEdge(pb, H)
		if pre == nil {
			pre = fs
			continue
		}
		for kk := range pre {
			if _, ok := fs[kk]; !ok {
				delete(pre, kk)
			}
		}
	}
	for _, p := range paths {
		for kk, f := range pre {
			if _, ok := p.Facts[kk]; !ok {
				p.Facts[kk] = f
			}
		}
	}
	var zeroPred *ssa.Function
	okG, whyG := true, ""
	for _, p := range paths {
		a := p.Has(false, func(v ssa.Value, _ string) bool { return isNilCompareOf(v, isCur) })
		b := p.Has(false, func(v ssa.Value, _ string) bool { return isEqCompare(v, itemName, nameOf(isCur)) })
		cc := p.Has(true, func(v ssa.Value, _ string) bool { return isNilCompareOf(v, isUTD) }) ||
			p.Has(false, func(v ssa.Value, _ string) bool { return isEqCompare(v, itemName, nameOf(isUTD)) })
		d := p.Has(true, func(v ssa.Value, _ string) bool {
			call, ok := v.(*ssa.Call)
			if !ok {
				return false
			}
			cal := staticCallee(&call.Call)
			if cal == nil || !r.Prog.IsRuleSite(cal) {
				return false
			}
			for i, arg := range call.Call.Args {
				if isERSPtr(arg) && (unwrap(arg) == unwrap(obj) || sameElem(arg)) {
					zeroPred = cal
					_ = i
					return true
				}
			}
			return false
		})
		if !(a && b && cc && d) {
			okG = false
			whyG = fmt.Sprintf("path [%s]: current!=nil=%v name!=current=%v (upToDate==nil ∨ name!=upToDate)=%v zero-status predicate true=%v", shortFacts(p), a, b, cc, d)
		}
	}
	r.Check("C13.R3", cGuard, pos, sf, nGuard, okG, whyG)
	if zeroPred != nil {
		c13ZeroPredicate(r, zeroPred)
	} else {
		r.Check("C13.R3", "zero-status predicate"+suffix, pos, sf, "a predicate over the deleted object's status guards Delete", false, "none found")
	}
}

// cleanupRoles maps the clean-up function's parameters to the decision result and the match variable.
func (c *c13Ctx) cleanupRoles(fn *ssa.Function, current, upToDate *ssa.Value) (bool, string) {
	r := c.r
	if c.matchVar == nil {
		return false, "no match variable (R1 failed)"
	}
	if !c.decDone {
		c.decDone = true
		c.decSite = findDecision(r, "C13.R3")
	}
	site := c.decSite
	if site == nil {
		return false, "the promotion decision feeding status.activeReplicaSet was not found"
	}
	utdSeen := false
	for _, a := range site.call.Call.Args {
		if unwrap(a) == ssa.Value(c.matchVar) {
			utdSeen = true
		}
	}
	if !utdSeen {
		return false, "the promotion decision does not receive the R1 match variable as its up-to-date replica set"
	}
	return c.rolesIn(fn, site, current, upToDate, 0)
}

// rolesIn finds the values that stand, inside fn, for the decision's result and for the match variable:
// the values themselves in the function that takes the decision, parameters bound to them further down.
func (c *c13Ctx) rolesIn(fn *ssa.Function, site *decisionSite, current, upToDate *ssa.Value, depth int) (bool, string) {
	r := c.r
	if fn == site.caller {
		var cur ssa.Value
		for _, rr := range refs(site.call) {
			if ex, ok := rr.(*ssa.Extract); ok && ex.Index == 0 {
				cur = ex
			}
		}
		if cur == nil {
			return false, "the decision's result is not used"
		}
		*current, *upToDate = cur, c.matchVar
		return true, "inline"
	}
	if depth > 3 {
		return false, "the clean-up is too far from the function taking the promotion decision"
	}
	sites := callSitesOf(fn, c.reach)
	if len(sites) == 0 {
		return false, shortFunc(fn) + " has no static call site"
	}
	ci, ui := -1, -1
	for _, s := range sites {
		var curC, utdC ssa.Value
		if ok, why := c.rolesIn(s.Parent(), site, &curC, &utdC, depth+1); !ok {
			return false, why
		}
		isCur := func(v ssa.Value) bool {
			os := origins(v)
			if len(os) == 0 {
				return false
			}
			for _, o := range os {
				if o != curC {
					return false
				}
			}
			return true
		}
		ci2, ui2 := -1, -1
		for i, a := range s.Common().Args {
			if !isERSPtr(a) {
				continue
			}
			switch {
			case isCur(a):
				ci2 = i
			case unwrap(a) == utdC:
				ui2 = i
			}
		}
		if ci2 < 0 || ui2 < 0 || (ci >= 0 && (ci != ci2 || ui != ui2)) {
			return false, fmt.Sprintf("call at %s does not pass (decision result, match variable): current arg=%d upToDate arg=%d", r.Prog.Pos(s.Pos()), ci2, ui2)
		}
		ci, ui = ci2, ui2
	}
	*current, *upToDate = fn.Params[ci], fn.Params[ui]
	return true, fmt.Sprintf("current=%s upToDate=%s", fn.Params[ci].Name(), fn.Params[ui].Name())
}

var c13ZeroSeen = map[*ssa.Function]bool{}

// c13BoolHelper: the call is a static call of a repository function with a body and one boolean result.
func c13BoolHelper(r *Run, call *ssa.Call) *ssa.Function {
	cal := staticCallee(&call.Call)
	if cal == nil || !r.Prog.IsRuleSite(cal) || len(cal.Blocks) == 0 || cal.Signature.Results().Len() != 1 {
		return nil
	}
	if b, ok := cal.Signature.Results().At(0).Type().Underlying().(*types.Basic); !ok || b.Kind() != types.Bool {
		return nil
	}
	return cal
}

// c13ZeroFields: the status counters of the replica set that are zero whenever the condition value v is
// true. obj stands for the replica set or a part of it: the field path from the replica set to obj is
// prefix. v is a `sum == 0` comparison over loads of obj's fields, or the verdict of a repository
// helper that is handed (a part of) obj: then the counters that are zero on EVERY path on which the
// helper returns true.
func c13ZeroFields(r *Run, v ssa.Value, obj ssa.Value, prefix []string, depth int) map[string]bool {
	out := map[string]bool{}
	if call, isCall := v.(*ssa.Call); isCall {
		H := c13BoolHelper(r, call)
		if H == nil || depth > 3 {
			return out
		}
		for i, a := range call.Call.Args {
			root, p := accessPath(unwrap(a))
			if root != obj || i >= len(H.Params) {
				continue
			}
			if _, isPtr := H.Params[i].Type().Underlying().(*types.Pointer); !isPtr {
				continue
			}
			sub := append(append([]string{}, prefix...), p...)
			paths, _, ok := funcPaths(H, 5000)
			r.paths += len(paths)
			if !ok {
				continue
			}
			var inter map[string]bool
			for _, hp := range paths {
				ret := returnOf(hp.Blocks[len(hp.Blocks)-1])
				res := hp.Resolve(ret.Results[0])
				if b, isC := constBool(res); isC && !b {
					continue
				}
				proven := map[string]bool{}
				for _, f := range hp.Facts {
					if f.Pol {
						for fld := range c13ZeroFields(r, f.V, H.Params[i], sub, depth+1) {
							proven[fld] = true
						}
					}
				}
				if _, isC := constBool(res); !isC {
					bo, isB := res.(*ssa.BinOp)
					_, isCl := res.(*ssa.Call)
					if (isB && bo.Op == token.EQL) || isCl {
						for fld := range c13ZeroFields(r, res, H.Params[i], sub, depth+1) {
							proven[fld] = true
						}
					}
				}
				if inter == nil {
					inter = proven
				} else {
					for k := range inter {
						if !proven[k] {
							delete(inter, k)
						}
					}
				}
			}
			for k := range inter {
				out[k] = true
			}
		}
		return out
	}
	bo, isB := v.(*ssa.BinOp)
	if !isB || (bo.Op != token.EQL && bo.Op != token.NEQ) {
		return out
	}
	var sum ssa.Value
	if z, isC := constInt(bo.Y); isC && z == 0 {
		sum = bo.X
	} else if z, isC := constInt(bo.X); isC && z == 0 {
		sum = bo.Y
	}
	if sum == nil {
		return out
	}
	okAll := true
	var leaves func(v ssa.Value)
	leaves = func(v ssa.Value) {
		v = unwrap(v)
		if b, isAdd := v.(*ssa.BinOp); isAdd && b.Op == token.ADD {
			leaves(b.X)
			leaves(b.Y)
			return
		}
		root, p := accessPath(v)
		full := append(append([]string{}, prefix...), p...)
		if _, isLoad := v.(*ssa.UnOp); isLoad && root == obj && len(full) == 2 && full[0] == "Status" {
			out[full[1]] = true
			return
		}
		okAll = false
	}
	leaves(sum)
	if !okAll {
		return map[string]bool{}
	}
	return out
}

// c13ZeroPredicate: true only for a nil object or when all four counters are zero.
func c13ZeroPredicate(r *Run, fn *ssa.Function) {
	sf := shortFunc(fn)
	paths, _, ok := funcPaths(fn, 5000)
	r.paths += len(paths)
	var ers *ssa.Parameter
	for _, p := range fn.Params {
		if isERSPtr(p) {
			ers = p
		}
	}
	if !ok || ers == nil {
		r.Undecided("C13.R3", "zero-status predicate", r.Prog.Pos(fn.Pos()), sf, "path cap exceeded or no replica-set parameter")
		return
	}
	want := []string{"Available", "Current", "Desired", "Ready"}
	zeroFields := func(v ssa.Value) map[string]bool { return c13ZeroFields(r, v, ers, nil, 0) }
	n := 0
	for _, p := range paths {
		ret := returnOf(p.Blocks[len(p.Blocks)-1])
		res := p.Resolve(ret.Results[0])
		pos := r.Prog.Pos(instrPos(ret))
		proven := map[string]bool{}
		for _, f := range p.Facts {
			if f.Pol {
				for fld := range zeroFields(f.V) {
					proven[fld] = true
				}
			}
		}
		isNil := p.Has(true, func(v ssa.Value, _ string) bool { return isNilCompareOf(v, isParam(ers)) })
		if b, isC := constBool(res); isC {
			if !b {
				continue
			}
		} else if bo, isB := res.(*ssa.BinOp); isB && bo.Op == token.EQL {
			for fld := range zeroFields(res) {
				proven[fld] = true
			}
		} else if call, isCall := res.(*ssa.Call); isCall && c13BoolHelper(r, call) != nil {
			for fld := range zeroFields(res) {
				proven[fld] = true
			}
		} else {
			n++
			r.Undecided("C13.R3", fmt.Sprintf("zero-status predicate return %d", n), pos, sf, "result is neither a constant, a `sum == 0` comparison nor the verdict of a repository helper: "+res.String())
			continue
		}
		n++
		var missing []string
		for _, w := range want {
			if !proven[w] {
				missing = append(missing, w)
			}
		}
		r.Check("C13.R3", fmt.Sprintf("zero-status predicate return %d", n), pos, sf,
			"true only for a nil object or when status desired, current, ready and available are all zero", isNil || len(missing) == 0,
			func() string {
				if isNil || len(missing) == 0 {
					return ""
				}
				return "counters not shown to be zero: " + strings.Join(missing, ", ")
			}())
	}
	if n == 0 {
		r.Check("C13.R3", "zero-status predicate", r.Prog.Pos(fn.Pos()), sf, "the predicate can return true", false, "no path returns true")
	}
}

// ---------------------------------------------------------------------------------------------
// R4

func c13PodTemplate(r *Run, key string) {
	rec := r.Prog.Method(pkgPodTpl, "Reconciler", "Reconcile")
	if rec == nil {
		r.Fatal("anchor (%s.Reconciler).Reconcile not found", pkgPodTpl)
		return
	}
	reach := r.Prog.reachableFuncs(rec)
	effs := effectsOf(reach)
	seenCtor := map[*ssa.Function]bool{}
	n := 0
	for _, e := range effs {
		if e.Kind != pkgCoreV1+".PodTemplate" || (e.Verb != "Create" && e.Verb != "Update") {
			continue
		}
		n++
		sf := shortFunc(e.Fn)
		pos := r.Prog.Pos(e.Call.Pos())
		construct := e.Verb + "(PodTemplate) object"
		var ctorCall *ssa.Call
		okObj := true
		for _, o := range origins(unwrap(e.Obj)) {
			ex, isE := o.(*ssa.Extract)
			if !isE || ex.Index != 0 {
				okObj = false
				continue
			}
			call, isC := ex.Tuple.(*ssa.Call)
			if !isC || staticCallee(&call.Call) == nil || !r.Prog.IsRuleSite(staticCallee(&call.Call)) || (ctorCall != nil && ctorCall != call) {
				okObj = false
				continue
			}
			ctorCall = call
		}
		if !okObj || ctorCall == nil {
			r.Undecided("C13.R4", construct, pos, sf, "the written PodTemplate is not the result of one repository constructor call")
			continue
		}
		ctor := staticCallee(&ctorCall.Call)
		var edsArg ssa.Value
		edsIdx := -1
		for i, a := range ctorCall.Call.Args {
			if isPtrToNamed(a.Type(), pkgAPI, "ExtendedDaemonSet") {
				edsArg, edsIdx = a, i
			}
		}
		ff := computeFacts(e.Fn)
		okErr := ff.Holds(e.Call.Block(), true, func(v ssa.Value, _ string) bool {
			return isNilCompareOf(v, func(x ssa.Value) bool {
				ex, isE := x.(*ssa.Extract)
				return isE && ex.Index == 1 && ex.Tuple == ssa.Value(ctorCall)
			})
		})
		r.Check("C13.R4", construct, pos, sf, "the written object is the PodTemplate constructor's result for an ExtendedDaemonSet, used only when the constructor returned no error",
			edsArg != nil && okErr, fmt.Sprintf("constructor %s, error checked=%v", shortFunc(ctor), okErr))
		if edsArg == nil {
			continue
		}
		c13PodTemplateCtor(r, ctor, edsIdx, key, seenCtor)
		if e.Verb == "Update" {
			c13PodTemplateSkip(r, e, edsArg, key)
		}
	}
	if n == 0 {
		r.Check("C13.R4", "PodTemplate writes", "-", "-", "Create/Update(PodTemplate) reachable from the PodTemplate Reconcile", false, "none found")
	}
}

func c13PodTemplateCtor(r *Run, ctor *ssa.Function, edsIdx int, key string, seen map[*ssa.Function]bool) {
	for depth := 0; depth < 3; depth++ {
		inner, innerDs, why := c13WrappedCtor(r, ctor, edsIdx, key)
		if inner == nil {
			break
		}
		if why != "" {
			if !seen[ctor] {
				seen[ctor] = true
				r.Undecided("C13.R4", "constructor identity", r.Prog.Pos(ctor.Pos()), shortFunc(ctor), why)
			}
			return
		}
		ctor, edsIdx = inner, innerDs
	}
	if seen[ctor] {
		return
	}
	seen[ctor] = true
	sf := shortFunc(ctor)
	pos := r.Prog.Pos(ctor.Pos())
	eds := ctor.Params[edsIdx]
	var obj *ssa.Alloc
	okRet := true
	for _, b := range ctor.Blocks {
		ret := returnOf(b)
		if ret == nil {
			continue
		}
		for _, o := range origins(ret.Results[0]) {
			if isNilConst(o) {
				continue
			}
			a, isA := o.(*ssa.Alloc)
			if !isA || (obj != nil && obj != a) {
				okRet = false
				continue
			}
			obj = a
		}
	}
	if obj == nil || !okRet {
		r.Undecided("C13.R4", "constructor identity", pos, sf, "the constructor does not return one locally built object")
		return
	}
	isEDS := isParam(eds)
	one := func(path ...string) (ssa.Value, string) {
		vals, opaque := fieldVals(obj, path...)
		if len(vals) != 1 || opaque {
			return nil, fmt.Sprintf("%d stores to %s", len(vals), strings.Join(path, "."))
		}
		return vals[0], ""
	}
	nameV, w1 := one("ObjectMeta", "Name")
	nsV, w2 := one("ObjectMeta", "Namespace")
	okID := nameV != nil && nsV != nil && nameOf(isEDS)(nameV) && namespaceOf(isEDS)(nsV)
	r.Check("C13.R4", "constructor identity", pos, sf, "the PodTemplate takes the ExtendedDaemonSet's name and namespace", okID, w1+" "+w2)

	tv, w3 := one("Template")
	okT := false
	if tv != nil {
		w3 = "Template is stored from " + tv.String()
		if u, isL := tv.(*ssa.UnOp); isL && u.Op == token.MUL {
			if call, isC := u.X.(*ssa.Call); isC {
				if cal := staticCallee(&call.Call); cal != nil && cal.Name() == "DeepCopy" && len(call.Call.Args) == 1 {
					root, p := accessPath(call.Call.Args[0])
					okT = root == ssa.Value(eds) && samePath(p, []string{"Spec", "Template"})
				}
			} else if _, isFA := u.X.(*ssa.FieldAddr); isFA {
				root, p := accessPath(u.X)
				okT = root == ssa.Value(eds) && samePath(p, []string{"Spec", "Template"})
			}
		}
	}
	r.Check("C13.R4", "constructor template copy", pos, sf, "the PodTemplate's Template is a (deep) copy of the ExtendedDaemonSet's Spec.Template", okT, w3)

	// hash annotation on every success path
	okH, whyH := true, ""
	ws, lost := annotationWrites(r.Prog, ctor, func(v ssa.Value) bool { return v == ssa.Value(obj) }, key)
	for _, w := range ws {
		// the hash is handed in: at every call of the constructor it is the hash of the template of the
		// ExtendedDaemonSet handed in with it
		if hp, isPar := unwrap(w.val).(*ssa.Parameter); isPar && hp.Parent() == ctor {
			sites := r.Prog.callSitesAll(ctor)
			if len(sites) == 0 {
				okH, whyH = false, "the hash is a parameter of a constructor without a static call"
			}
			for _, s := range sites {
				args := s.Common().Args
				h, why := templateHashSource(r.Prog, args[paramIndex(hp)], 0)
				if h == nil || h.root != unwrap(args[edsIdx]) || !samePath(h.path, []string{"Spec", "Template"}) {
					okH = false
					whyH = "annotation value handed in at " + r.Prog.Pos(s.Pos()) + ": " + why
					if h != nil {
						whyH = "annotation value handed in at " + r.Prog.Pos(s.Pos()) + " is " + h.String()
					}
				}
			}
			continue
		}
		h, why := templateHashSource(r.Prog, w.val, 0)
		if h == nil || h.root != ssa.Value(eds) || !samePath(h.path, []string{"Spec", "Template"}) {
			okH = false
			whyH = "annotation value: " + why
			if h != nil {
				whyH = "annotation value is " + h.String()
			}
		}
	}
	if len(ws) == 0 {
		okH, whyH = false, "the hash annotation is never written"
	}
	if lost != "" {
		okH, whyH = false, lost
	}
	if okH {
		paths, _, ok := funcPaths(ctor, 5000)
		if !ok {
			okH, whyH = false, "undecided: path cap exceeded"
		}
		for _, p := range paths {
			ret := returnOf(p.Blocks[len(p.Blocks)-1])
			if isNilConst(p.Resolve(ret.Results[0])) {
				continue
			}
			found := false
			for _, w := range ws {
				if p.Contains(w.in.Block()) {
					found = true
				}
			}
			if !found {
				okH, whyH = false, "a path returns the object without the hash annotation"
			}
		}
	}
	r.Check("C13.R4", "constructor hash annotation", pos, sf, "the hash annotation is written with the hash of &eds.Spec.Template on every path that returns the object", okH, whyH)
}

// c13PodTemplateSkip: in the function that updates, every path that returns a nil error without
// reaching Update establishes stored annotation == computed hash of the same ExtendedDaemonSet.
func c13PodTemplateSkip(r *Run, e *Effect, eds ssa.Value, key string) {
	fn := e.Fn
	sf := shortFunc(fn)
	paths, _, ok := funcPaths(fn, 5000)
	r.paths += len(paths)
	pos := r.Prog.Pos(e.Call.Pos())
	if !ok {
		r.Undecided("C13.R4", "update skipped only on equal hash", pos, sf, "path cap exceeded")
		return
	}
	ucall, _ := e.Call.(*ssa.Call)
	isHash := func(v ssa.Value) bool {
		h, _ := templateHashSource(r.Prog, v, 0)
		return h != nil && h.root == unwrap(eds) && samePath(h.path, []string{"Spec", "Template"})
	}
	isStored := func(v ssa.Value) bool {
		if ex, isE := v.(*ssa.Extract); isE && ex.Index == 0 {
			v = ex.Tuple
		}
		l, isL := v.(*ssa.Lookup)
		if !isL {
			return false
		}
		if s, isC := constString(l.Index); !isC || s != key {
			return false
		}
		root, p := accessPath(l.X)
		_, isPar := root.(*ssa.Parameter)
		return isPar && root != unwrap(eds) && len(p) > 0 && p[len(p)-1] == "Annotations" && isPtrToNamed(root.Type(), pkgCoreV1, "PodTemplate")
	}
	good, why := true, ""
	nSkip := 0
	for _, p := range paths {
		if ucall != nil && p.Contains(ucall.Block()) {
			continue
		}
		ret := returnOf(p.Blocks[len(p.Blocks)-1])
		errRes := ret.Results[len(ret.Results)-1]
		if !isNilConst(p.Resolve(errRes)) {
			continue
		}
		nSkip++
		if !p.Has(true, func(v ssa.Value, _ string) bool { return isEqCompare(v, isStored, isHash) }) {
			good, why = false, "a path skips the update without the fact stored-hash == computed-hash: ["+shortFacts(p)+"]"
		}
	}
	o := r.Check("C13.R4", "update skipped only on equal hash", pos, sf,
		"every path that returns success without calling Update has podTemplate.Annotations[hash key] == hash(&eds.Spec.Template)", good, why)
	o.Trivial = nSkip == 0
}

var _ = sort.Strings
