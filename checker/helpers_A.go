package main

// Generic helpers added for the C06/C07/C08 rules: type-aware field matching, expansion of access
// paths through phis and local cells, ordering relations read off comparison facts, CFG
// reachability (freshness of heap flag loads, natural loops), and pruning of caller paths by the
// path table of a boolean repository callee.

import (
	"go/token"
	"go/types"
	"sort"
	"strings"

	"golang.org/x/tools/go/ssa"
)

// ---------------------------------------------------------------------------------------------
// type-aware field matching

// namedOf returns the named type behind t (through one pointer), or nil.
func namedOf(t types.Type) *types.Named {
	if p, ok := t.Underlying().(*types.Pointer); ok {
		t = p.Elem()
	}
	if p, ok := t.(*types.Pointer); ok {
		t = p.Elem()
	}
	n, _ := t.(*types.Named)
	return n
}

func isNamedType(t types.Type, pkg, name string) bool {
	n := namedOf(t)
	return n != nil && n.Obj().Name() == name && n.Obj().Pkg() != nil && n.Obj().Pkg().Path() == pkg
}

// isFieldAddrOf reports whether v is &x.field with x of (pointer to) the named struct pkg.typ.
func isFieldAddrOf(v ssa.Value, pkg, typ, field string) bool {
	fa, ok := v.(*ssa.FieldAddr)
	if !ok || fieldName(fa) != field {
		return false
	}
	return isNamedType(fa.X.Type(), pkg, typ)
}

// isLoadOfField reports whether v is a load *(&x.field) with x of the named struct type.
func isLoadOfField(v ssa.Value, pkg, typ, field string) bool {
	u, ok := v.(*ssa.UnOp)
	if !ok || u.Op != token.MUL {
		return false
	}
	return isFieldAddrOf(u.X, pkg, typ, field)
}

// storesToFieldOf lists the stores in fn to field `field` of the named struct pkg.typ.
func storesToFieldOf(fn *ssa.Function, pkg, typ, field string) []*ssa.Store {
	var out []*ssa.Store
	for _, b := range fn.Blocks {
		for _, in := range b.Instrs {
			if st, ok := in.(*ssa.Store); ok && isFieldAddrOf(st.Addr, pkg, typ, field) {
				out = append(out, st)
			}
		}
	}
	return out
}

// ---------------------------------------------------------------------------------------------
// access paths expanded through phis and local variable cells

type valPath struct {
	root   ssa.Value
	fields []string
}

func (p valPath) endsWith(suffix ...string) bool {
	if len(p.fields) < len(suffix) {
		return false
	}
	q := p.fields[len(p.fields)-len(suffix):]
	for i := range suffix {
		if q[i] != suffix[i] {
			return false
		}
	}
	return true
}

func (p valPath) String() string {
	name := "?"
	if p.root != nil {
		name = p.root.Name()
	}
	if len(p.fields) == 0 {
		return name
	}
	return name + "." + strings.Join(p.fields, ".")
}

// pathsOf expands v into (root, field chain) alternatives: it looks through loads, field
// selections and conversions like accessPath, and additionally through phis (nil edges are
// skipped: `var d *T; if x.F != nil { d = x.F }`) and loads of local variable cells (every value
// stored into the cell).
func pathsOf(v ssa.Value) []valPath {
	var out []valPath
	seen := map[ssa.Value]bool{}
	var rec func(v ssa.Value, suffix []string, depth int)
	rec = func(v ssa.Value, suffix []string, depth int) {
		if v == nil || depth > 40 {
			return
		}
		switch x := v.(type) {
		case *ssa.UnOp:
			if x.Op == token.MUL {
				if a, ok := x.X.(*ssa.Alloc); ok {
					n := 0
					for _, r := range refs(a) {
						if st, ok := r.(*ssa.Store); ok && st.Addr == ssa.Value(a) {
							n++
							rec(st.Val, suffix, depth+1)
						}
					}
					if n > 0 {
						return
					}
				}
				rec(x.X, suffix, depth+1)
				return
			}
		case *ssa.FieldAddr:
			rec(x.X, append([]string{fieldName(x)}, suffix...), depth+1)
			return
		case *ssa.Field:
			rec(x.X, append([]string{fieldName(x)}, suffix...), depth+1)
			return
		case *ssa.ChangeType:
			rec(x.X, suffix, depth+1)
			return
		case *ssa.Convert:
			rec(x.X, suffix, depth+1)
			return
		case *ssa.MakeInterface:
			rec(x.X, suffix, depth+1)
			return
		case *ssa.Phi:
			if seen[x] {
				return
			}
			seen[x] = true
			for _, e := range x.Edges {
				if isNilConst(e) {
					continue
				}
				rec(e, suffix, depth+1)
			}
			return
		}
		out = append(out, valPath{root: v, fields: append([]string(nil), suffix...)})
	}
	rec(v, nil, 0)
	return out
}

// allPathsEnd reports whether v has at least one expansion and every expansion ends with suffix.
func allPathsEnd(v ssa.Value, suffix ...string) bool {
	ps := pathsOf(v)
	if len(ps) == 0 {
		return false
	}
	for _, p := range ps {
		if !p.endsWith(suffix...) {
			return false
		}
	}
	return true
}

// singleRootWithSuffix returns the common root of all expansions of v when they all end with
// suffix and share one root.
func singleRootWithSuffix(v ssa.Value, suffix ...string) (ssa.Value, bool) {
	ps := pathsOf(v)
	if len(ps) == 0 {
		return nil, false
	}
	root := ps[0].root
	for _, p := range ps {
		if !p.endsWith(suffix...) || p.root != root {
			return nil, false
		}
	}
	return root, true
}

// ---------------------------------------------------------------------------------------------
// ordering relations asserted by comparison facts

// factOrder reads the ordering a fact asserts: "big > small" (strict) or "big >= small".
// ok=false when the fact is not an ordered comparison.
func factOrder(f Fact) (big, small ssa.Value, strict, ok bool) {
	b, isB := f.V.(*ssa.BinOp)
	if !isB {
		return nil, nil, false, false
	}
	var truth bool
	switch b.Op {
	case token.LSS, token.GTR:
		truth = f.Pol
	case token.GEQ, token.LEQ:
		truth = !f.Pol // normCond rewrites >= and <= to the negated < atom
	default:
		return nil, nil, false, false
	}
	x, y := b.X, b.Y
	switch b.Op {
	case token.LSS:
		if truth {
			return y, x, true, true
		}
		return x, y, false, true
	case token.GTR:
		if truth {
			return x, y, true, true
		}
		return y, x, false, true
	case token.GEQ:
		if truth {
			return x, y, false, true
		}
		return y, x, true, true
	case token.LEQ:
		if truth {
			return y, x, false, true
		}
		return x, y, true, true
	}
	return nil, nil, false, false
}

// ---------------------------------------------------------------------------------------------
// CFG reachability

// reachFrom returns the blocks reachable from b through at least one edge.
func reachFrom(b *ssa.BasicBlock) map[*ssa.BasicBlock]bool {
	seen := map[*ssa.BasicBlock]bool{}
	var stack []*ssa.BasicBlock
	stack = append(stack, b.Succs...)
	for len(stack) > 0 {
		x := stack[len(stack)-1]
		stack = stack[:len(stack)-1]
		if seen[x] {
			continue
		}
		seen[x] = true
		stack = append(stack, x.Succs...)
	}
	return seen
}

// reachFromAvoiding returns the blocks reachable from b (b included) without entering `avoid`.
func reachFromAvoiding(b *ssa.BasicBlock, avoid map[*ssa.BasicBlock]bool) map[*ssa.BasicBlock]bool {
	seen := map[*ssa.BasicBlock]bool{}
	stack := []*ssa.BasicBlock{b}
	for len(stack) > 0 {
		x := stack[len(stack)-1]
		stack = stack[:len(stack)-1]
		if seen[x] || avoid[x] {
			continue
		}
		seen[x] = true
		stack = append(stack, x.Succs...)
	}
	return seen
}

// mayFollow reports whether instruction b can execute after instruction a on some CFG path.
func mayFollow(a, b ssa.Instruction) bool {
	if a.Block() == b.Block() && instrIndex(a) < instrIndex(b) {
		return true
	}
	return reachFrom(a.Block())[b.Block()]
}

// mayExecBetween reports whether k can execute after a and before b on some path.
func mayExecBetween(a, k, b ssa.Instruction) bool {
	return mayFollow(a, k) && mayFollow(k, b)
}

// flagKillers lists the instructions of fn that may change field `field` of a struct of the named
// type: stores to that field, and calls that receive a pointer to such a struct (or a closure).
func flagKillers(fn *ssa.Function, pkg, typ, field string) []ssa.Instruction {
	var out []ssa.Instruction
	for _, b := range fn.Blocks {
		for _, in := range b.Instrs {
			switch x := in.(type) {
			case *ssa.Store:
				if isFieldAddrOf(x.Addr, pkg, typ, field) {
					out = append(out, in)
				}
			case ssa.CallInstruction:
				c := x.Common()
				args := append([]ssa.Value{}, c.Args...)
				if !c.IsInvoke() {
					args = append(args, c.Value)
				}
				for _, a := range args {
					if _, isPtr := a.Type().Underlying().(*types.Pointer); isPtr && isNamedType(a.Type(), pkg, typ) {
						out = append(out, in)
						break
					}
					if _, isClosure := a.(*ssa.MakeClosure); isClosure {
						out = append(out, in)
						break
					}
				}
			}
		}
	}
	return out
}

// freshAt reports whether the heap load `load` of a flag field still describes memory when `site`
// executes: no killer can run after the load and before the site.
func freshAt(load ssa.Instruction, site ssa.Instruction, killers []ssa.Instruction) bool {
	for _, k := range killers {
		if k == site {
			continue
		}
		if mayExecBetween(load, k, site) {
			return false
		}
	}
	return true
}

// innermostLoopHeader returns the header of the innermost natural loop containing b (nil if b is
// in no loop): a block that dominates b and is reachable from b.
func innermostLoopHeader(b *ssa.BasicBlock) *ssa.BasicBlock {
	var best *ssa.BasicBlock
	for _, h := range b.Parent().Blocks {
		if !h.Dominates(b) {
			continue
		}
		in := false
		for _, p := range h.Preds {
			if !h.Dominates(p) {
				continue // not a back edge
			}
			if p == b || b == h || reachFromAvoiding(b, map[*ssa.BasicBlock]bool{h: true})[p] {
				in = true
			}
		}
		if !in {
			continue
		}
		if best == nil || best.Dominates(h) {
			best = h
		}
	}
	return best
}

// loopBodyPaths enumerates the acyclic paths of one iteration of the loop with header h: from each
// successor of h that can come back to h, to h again (or to a return inside the loop).
func loopBodyPaths(fn *ssa.Function, k *keyer, h *ssa.BasicBlock, cap int) ([]*Path, bool) {
	var out []*Path
	okAll := true
	for _, s := range h.Succs {
		if s != h && !reachFrom(s)[h] {
			continue
		}
		if s == h {
			continue
		}
		ps, ok := enumPaths(fn, k, s, func(b *ssa.BasicBlock) bool { return b == h || isReturnBlock(b) },
			func(b *ssa.BasicBlock) bool { return b == h }, cap)
		out = append(out, ps...)
		if !ok {
			okAll = false
		}
	}
	return out, okAll
}

// ---------------------------------------------------------------------------------------------
// callee path tables

// boolCalleeCanReturn reports whether the repository function g (single bool result) has a
// return path yielding `want` that is compatible with the known truth values of its boolean
// parameters (index -> value). Non-constant results are treated as possibly `want`.
func boolCalleeCanReturn(g *ssa.Function, want bool, known map[int]bool) bool {
	paths, _, ok := funcPaths(g, 5000)
	if !ok {
		return true
	}
	for _, p := range paths {
		ret := returnOf(p.Blocks[len(p.Blocks)-1])
		if ret == nil || len(ret.Results) != 1 {
			return true
		}
		res := p.Resolve(ret.Results[0])
		if b, isC := constBool(res); isC && b != want {
			continue
		}
		compatible := true
		for _, f := range p.Facts {
			if pr, isP := f.V.(*ssa.Parameter); isP {
				if v, okk := known[paramIndex(pr)]; okk && v != f.Pol {
					compatible = false
				}
			}
		}
		if compatible {
			return true
		}
	}
	return false
}

// pathFeasibleByCallees reports whether the facts of p about results of boolean repository
// callees are compatible with what the path knows about their boolean arguments.
func pathFeasibleByCallees(prog *Prog, p *Path, k *keyer) bool {
	for _, f := range p.Facts {
		c, ok := f.V.(*ssa.Call)
		if !ok {
			continue
		}
		g := staticCallee(&c.Call)
		if g == nil || !prog.IsRuleSite(g) || g.Signature.Results().Len() != 1 {
			continue
		}
		if bt, isB := g.Signature.Results().At(0).Type().Underlying().(*types.Basic); !isB || bt.Kind() != types.Bool {
			continue
		}
		known := map[int]bool{}
		for i, a := range c.Call.Args {
			if bt, isB := a.Type().Underlying().(*types.Basic); !isB || bt.Kind() != types.Bool {
				continue
			}
			if cb, isC := constBool(a); isC {
				known[i] = cb
				continue
			}
			ka := k.key(a)
			if p.Facts.has(ka, true) {
				known[i] = true
			} else if p.Facts.has(ka, false) {
				known[i] = false
			}
		}
		if len(known) == 0 {
			continue
		}
		if !boolCalleeCanReturn(g, f.Pol, known) {
			return false
		}
	}
	return true
}

// ---------------------------------------------------------------------------------------------
// misc

// stripConv strips conversions and follows loads of local variable cells that have exactly one
// store.
func stripConv(v ssa.Value) ssa.Value {
	for i := 0; i < 16; i++ {
		v = unwrap(v)
		u, ok := v.(*ssa.UnOp)
		if !ok || u.Op != token.MUL {
			return v
		}
		a, ok := u.X.(*ssa.Alloc)
		if !ok {
			return v
		}
		var only ssa.Value
		n := 0
		for _, r := range refs(a) {
			if st, ok := r.(*ssa.Store); ok && st.Addr == ssa.Value(a) {
				n++
				only = st.Val
			}
		}
		if n != 1 {
			return v
		}
		v = only
	}
	return v
}

// condTypeConst returns the constant condition-type string passed to a replica-set condition
// helper (second or third argument of Get…/IsConditionTrue/GetIndex…/Update…).
func condTypeConst(c *ssa.Call) (string, bool) {
	for _, a := range c.Call.Args {
		if isNamedType(a.Type(), pkgAPI, "ExtendedDaemonSetReplicaSetConditionType") {
			return constString(a)
		}
	}
	return "", false
}

// sortedBlocks renders block indices (diagnostics).
func blockList(bs []*ssa.BasicBlock) string {
	var idx []int
	for _, b := range bs {
		idx = append(idx, b.Index)
	}
	sort.Ints(idx)
	var s []string
	for _, i := range idx {
		s = append(s, "b"+itoa(i))
	}
	return strings.Join(s, ",")
}

func itoa(i int) string {
	if i == 0 {
		return "0"
	}
	neg := i < 0
	if neg {
		i = -i
	}
	var b []byte
	for i > 0 {
		b = append([]byte{byte('0' + i%10)}, b...)
		i /= 10
	}
	if neg {
		b = append([]byte{'-'}, b...)
	}
	return string(b)
}

// constOfNamedType collects the string values of all constants of the named type declared in pkg.
func (p *Prog) constsOfNamedType(pkg, typ string) map[string]string {
	out := map[string]string{}
	pk := p.All[pkg]
	if pk == nil || pk.Types == nil {
		return out
	}
	sc := pk.Types.Scope()
	for _, n := range sc.Names() {
		c, ok := sc.Lookup(n).(*types.Const)
		if !ok {
			continue
		}
		if nt, isN := c.Type().(*types.Named); isN && nt.Obj().Name() == typ {
			if s, okc := p.constStr(pkg, n); okc {
				out[s] = n
			}
		}
	}
	return out
}

// ---------------------------------------------------------------------------------------------
// boolean flag variables (`ok := true; if c1 { ok = false }; if c2 { ok = false }; if ok { … }`)

// impliedByFlag returns facts that must have held on the way to a point where the boolean phi v
// has value `val`: the intersection, over the phi edges that can carry `val`, of the facts on that
// edge plus (recursively) what the edge's own phi value implies.
func (ff *FuncFacts) impliedByFlag(v ssa.Value, val bool, depth int) factSet {
	phi, ok := v.(*ssa.Phi)
	if !ok || depth > 8 {
		return factSet{}
	}
	var acc factSet
	for i, e := range phi.Edges {
		if b, isC := constBool(e); isC && b != val {
			continue
		}
		s := ff.FactsAtEdge(phi.Block().Preds[i], phi.Block())
		if _, isC := constBool(e); !isC {
			if _, isPhi := e.(*ssa.Phi); isPhi {
				for k, f := range ff.impliedByFlag(e, val, depth+1) {
					s[k] = f
				}
			} else {
				for _, f := range ff.K.normCond(e, val) {
					s[fkey(f)] = f
				}
			}
		}
		if acc == nil {
			acc = s
		} else {
			for k := range acc {
				if _, ok := s[k]; !ok {
					delete(acc, k)
				}
			}
		}
	}
	if acc == nil {
		return factSet{}
	}
	return acc
}

// AtExpanded returns the must-facts at block b, extended by what boolean flag phis among them imply.
func (ff *FuncFacts) AtExpanded(b *ssa.BasicBlock) factSet {
	out := factSet{}
	for k, f := range ff.At(b) {
		out[k] = f
	}
	for _, f := range ff.At(b) {
		if _, isPhi := f.V.(*ssa.Phi); isPhi {
			for k, g := range ff.impliedByFlag(f.V, f.Pol, 0) {
				out[k] = g
			}
		}
	}
	return out
}

// repoFuncs caches Prog.RepoFuncs (which walks the whole program) per loaded program.
var repoFuncsCache = map[*Prog][]*ssa.Function{}

func repoFuncs(p *Prog) []*ssa.Function {
	if fs, ok := repoFuncsCache[p]; ok {
		return fs
	}
	fs := p.RepoFuncs()
	repoFuncsCache[p] = fs
	return fs
}

func repoFuncSet(p *Prog) map[*ssa.Function]bool {
	out := map[*ssa.Function]bool{}
	for _, f := range repoFuncs(p) {
		out[f] = true
	}
	return out
}
