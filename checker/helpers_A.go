package main

// Generic helpers added for the C06/C07/C08 rules: type-aware field matching, expansion of access
// paths through phis and local cells, ordering relations read off comparison facts, CFG
// reachability (freshness of heap flag loads, natural loops), and pruning of caller paths by the
// path table of a boolean repository callee.

import (
	"fmt"
	"go/token"
	"go/types"
	"sort"
	"strings"

	"golang.org/x/tools/go/ssa"
	"golang.org/x/tools/go/ssa/ssautil"
)

// ---------------------------------------------------------------------------------------------
// type-aware field matching

// namedOf returns the named type behind t (through one pointer), or nil.
func namedOf(t types.Type) *types.Named {
	if p, ok := t.Underlying().(*types.Pointer); ok {
		t = p.Elem()
	}
	if p, ok := t.(*types.Pointer); ok {
		t = p.Elem()
	}
	n, _ := t.(*types.Named)
	return n
}

func isNamedType(t types.Type, pkg, name string) bool {
	n := namedOf(t)
	return n != nil && n.Obj().Name() == name && n.Obj().Pkg() != nil && n.Obj().Pkg().Path() == pkg
}

// isFieldAddrOf reports whether v is &x.field with x of (pointer to) the named struct pkg.typ.
func isFieldAddrOf(v ssa.Value, pkg, typ, field string) bool {
	fa, ok := v.(*ssa.FieldAddr)
	if !ok || fieldName(fa) != field {
		return false
	}
	return isNamedType(fa.X.Type(), pkg, typ)
}

// isLoadOfField reports whether v is a load *(&x.field) with x of the named struct type.
func isLoadOfField(v ssa.Value, pkg, typ, field string) bool {
	u, ok := v.(*ssa.UnOp)
	if !ok || u.Op != token.MUL {
		return false
	}
	return isFieldAddrOf(u.X, pkg, typ, field)
}

// storesToFieldOf lists the stores in fn to field `field` of the named struct pkg.typ.
func storesToFieldOf(fn *ssa.Function, pkg, typ, field string) []*ssa.Store {
	var out []*ssa.Store
	for _, b := range fn.Blocks {
		for _, in := range b.Instrs {
			if st, ok := in.(*ssa.Store); ok && isFieldAddrOf(st.Addr, pkg, typ, field) {
				out = append(out, st)
			}
		}
	}
	return out
}

// ---------------------------------------------------------------------------------------------
// access paths expanded through phis and local variable cells

type valPath struct {
	root   ssa.Value
	fields []string
}

func (p valPath) endsWith(suffix ...string) bool {
	if len(p.fields) < len(suffix) {
		return false
	}
	q := p.fields[len(p.fields)-len(suffix):]
	for i := range suffix {
		if q[i] != suffix[i] {
			return false
		}
	}
	return true
}

func (p valPath) String() string {
	name := "?"
	if p.root != nil {
		name = p.root.Name()
	}
	if len(p.fields) == 0 {
		return name
	}
	return name + "." + strings.Join(p.fields, ".")
}

// pathsOf expands v into (root, field chain) alternatives: it looks through loads, field
// selections and conversions like accessPath, and additionally through phis (nil edges are
// skipped: `var d *T; if x.F != nil { d = x.F }`) and loads of local variable cells (every value
// stored into the cell).
func pathsOf(v ssa.Value) []valPath {
	var out []valPath
	seen := map[ssa.Value]bool{}
	var rec func(v ssa.Value, suffix []string, depth int)
	rec = func(v ssa.Value, suffix []string, depth int) {
		if v == nil || depth > 40 {
			return
		}
		switch x := v.(type) {
		case *ssa.UnOp:
			if x.Op == token.MUL {
				if a, ok := x.X.(*ssa.Alloc); ok {
					n := 0
					for _, r := range refs(a) {
						if st, ok := r.(*ssa.Store); ok && st.Addr == ssa.Value(a) {
							n++
							rec(st.Val, suffix, depth+1)
						}
					}
					if n > 0 {
						return
					}
				}
				rec(x.X, suffix, depth+1)
				return
			}
		case *ssa.FieldAddr:
			rec(x.X, append([]string{fieldName(x)}, suffix...), depth+1)
			return
		case *ssa.Field:
			rec(x.X, append([]string{fieldName(x)}, suffix...), depth+1)
			return
		case *ssa.ChangeType:
			rec(x.X, suffix, depth+1)
			return
		case *ssa.Convert:
			rec(x.X, suffix, depth+1)
			return
		case *ssa.MakeInterface:
			rec(x.X, suffix, depth+1)
			return
		case *ssa.Phi:
			if seen[x] {
				return
			}
			seen[x] = true
			for _, e := range x.Edges {
				if isNilConst(e) {
					continue
				}
				rec(e, suffix, depth+1)
			}
			return
		}
		// a struct-typed local cell that only receives one whole value (a by-value parameter or a
		// range element copied into a variable): its fields are the fields of that value
		if a, ok := v.(*ssa.Alloc); ok && len(suffix) > 0 && !seen[a] {
			if w := wholeStoreOf(a); w != nil {
				seen[a] = true
				rec(w, suffix, depth+1)
				return
			}
		}
		out = append(out, valPath{root: v, fields: append([]string(nil), suffix...)})
	}
	rec(v, nil, 0)
	return out
}

// wholeStoreOf returns the value stored into the struct cell a when a is written exactly once, as
// a whole (never field by field, never through an escaping pointer).
func wholeStoreOf(a *ssa.Alloc) ssa.Value {
	var whole ssa.Value
	n := 0
	var fieldWritten func(v ssa.Value) bool
	fieldWritten = func(v ssa.Value) bool {
		for _, r := range refs(v) {
			switch x := r.(type) {
			case *ssa.FieldAddr:
				if fieldWritten(x) {
					return true
				}
			case *ssa.IndexAddr:
				if fieldWritten(x) {
					return true
				}
			case *ssa.Store:
				if x.Addr == v && v != ssa.Value(a) {
					return true
				}
				if x.Val == v {
					return true // the address escapes
				}
			case *ssa.UnOp, *ssa.DebugRef:
			default:
				if v != ssa.Value(a) {
					return true // address of a field handed to something else
				}
				if _, isCall := r.(ssa.CallInstruction); isCall {
					return true
				}
			}
		}
		return false
	}
	for _, r := range refs(a) {
		if st, ok := r.(*ssa.Store); ok && st.Addr == ssa.Value(a) {
			n++
			whole = st.Val
		}
	}
	if n != 1 || fieldWritten(a) {
		return nil
	}
	return whole
}

// allPathsEnd reports whether v has at least one expansion and every expansion ends with suffix.
func allPathsEnd(v ssa.Value, suffix ...string) bool {
	ps := pathsOf(v)
	if len(ps) == 0 {
		return false
	}
	for _, p := range ps {
		if !p.endsWith(suffix...) {
			return false
		}
	}
	return true
}

// singleRootWithSuffix returns the common root of all expansions of v when they all end with
// suffix and share one root.
func singleRootWithSuffix(v ssa.Value, suffix ...string) (ssa.Value, bool) {
	ps := pathsOf(v)
	if len(ps) == 0 {
		return nil, false
	}
	root := ps[0].root
	for _, p := range ps {
		if !p.endsWith(suffix...) || p.root != root {
			return nil, false
		}
	}
	return root, true
}

// ---------------------------------------------------------------------------------------------
// ordering relations asserted by comparison facts

// factOrder reads the ordering a fact asserts: "big > small" (strict) or "big >= small".
// ok=false when the fact is not an ordered comparison.
func factOrder(f Fact) (big, small ssa.Value, strict, ok bool) {
	b, isB := f.V.(*ssa.BinOp)
	if !isB {
		return nil, nil, false, false
	}
	var truth bool
	switch b.Op {
	case token.LSS, token.GTR:
		truth = f.Pol
	case token.GEQ, token.LEQ:
		truth = !f.Pol // normCond rewrites >= and <= to the negated < atom
	default:
		return nil, nil, false, false
	}
	x, y := b.X, b.Y
	switch b.Op {
	case token.LSS:
		if truth {
			return y, x, true, true
		}
		return x, y, false, true
	case token.GTR:
		if truth {
			return x, y, true, true
		}
		return y, x, false, true
	case token.GEQ:
		if truth {
			return x, y, false, true
		}
		return y, x, true, true
	case token.LEQ:
		if truth {
			return y, x, false, true
		}
		return x, y, true, true
	}
	return nil, nil, false, false
}

// ---------------------------------------------------------------------------------------------
// CFG reachability

// reachFrom returns the blocks reachable from b through at least one edge.
func reachFrom(b *ssa.BasicBlock) map[*ssa.BasicBlock]bool {
	seen := map[*ssa.BasicBlock]bool{}
	var stack []*ssa.BasicBlock
	stack = append(stack, b.Succs...)
	for len(stack) > 0 {
		x := stack[len(stack)-1]
		stack = stack[:len(stack)-1]
		if seen[x] {
			continue
		}
		seen[x] = true
		stack = append(stack, x.Succs...)
	}
	return seen
}

// reachFromAvoiding returns the blocks reachable from b (b included) without entering `avoid`.
func reachFromAvoiding(b *ssa.BasicBlock, avoid map[*ssa.BasicBlock]bool) map[*ssa.BasicBlock]bool {
	seen := map[*ssa.BasicBlock]bool{}
	stack := []*ssa.BasicBlock{b}
	for len(stack) > 0 {
		x := stack[len(stack)-1]
		stack = stack[:len(stack)-1]
		if seen[x] || avoid[x] {
			continue
		}
		seen[x] = true
		stack = append(stack, x.Succs...)
	}
	return seen
}

// mayFollow reports whether instruction b can execute after instruction a on some CFG path.
func mayFollow(a, b ssa.Instruction) bool {
	if a.Block() == b.Block() && instrIndex(a) < instrIndex(b) {
		return true
	}
	return reachFrom(a.Block())[b.Block()]
}

// mayExecBetween reports whether k can execute after a and before b on some path.
func mayExecBetween(a, k, b ssa.Instruction) bool {
	return mayFollow(a, k) && mayFollow(k, b)
}

// flagKillers lists the instructions of fn that may change field `field` of a struct of the named
// type: stores to that field, and calls that receive a pointer to such a struct (or a closure).
func flagKillers(fn *ssa.Function, pkg, typ, field string) []ssa.Instruction {
	var out []ssa.Instruction
	for _, b := range fn.Blocks {
		for _, in := range b.Instrs {
			switch x := in.(type) {
			case *ssa.Store:
				if isFieldAddrOf(x.Addr, pkg, typ, field) {
					out = append(out, in)
				}
			case ssa.CallInstruction:
				c := x.Common()
				args := append([]ssa.Value{}, c.Args...)
				if !c.IsInvoke() {
					args = append(args, c.Value)
				}
				for _, a := range args {
					if _, isPtr := a.Type().Underlying().(*types.Pointer); isPtr && isNamedType(a.Type(), pkg, typ) {
						if g := staticCallee(c); g != nil && !calleeMayStoreField(g, pkg, typ, field, 0, map[*ssa.Function]bool{}) {
							continue // the callee is visible and never writes the flag
						}
						out = append(out, in)
						break
					}
					if _, isClosure := a.(*ssa.MakeClosure); isClosure {
						out = append(out, in)
						break
					}
				}
			}
		}
	}
	return out
}

// freshAt reports whether the heap load `load` of a flag field still describes memory when `site`
// executes: no killer can run after the load and before the site.
func freshAt(load ssa.Instruction, site ssa.Instruction, killers []ssa.Instruction) bool {
	for _, k := range killers {
		if k == site {
			continue
		}
		if mayExecBetween(load, k, site) {
			return false
		}
	}
	return true
}

// innermostLoopHeader returns the header of the innermost natural loop containing b (nil if b is
// in no loop): a block that dominates b and is reachable from b.
func innermostLoopHeader(b *ssa.BasicBlock) *ssa.BasicBlock {
	var best *ssa.BasicBlock
	for _, h := range b.Parent().Blocks {
		if !h.Dominates(b) {
			continue
		}
		in := false
		for _, p := range h.Preds {
			if !h.Dominates(p) {
				continue // not a back edge
			}
			if p == b || b == h || reachFromAvoiding(b, map[*ssa.BasicBlock]bool{h: true})[p] {
				in = true
			}
		}
		if !in {
			continue
		}
		if best == nil || best.Dominates(h) {
			best = h
		}
	}
	return best
}

// loopBodyPaths enumerates the acyclic paths of one iteration of the loop with header h: from each
// successor of h that can come back to h, to h again (or to a return inside the loop).
func loopBodyPaths(fn *ssa.Function, k *keyer, h *ssa.BasicBlock, cap int) ([]*Path, bool) {
	var out []*Path
	okAll := true
	for _, s := range h.Succs {
		if s != h && !reachFrom(s)[h] {
			continue
		}
		if s == h {
			continue
		}
		ps, ok := enumPaths(fn, k, s, func(b *ssa.BasicBlock) bool { return b == h || isReturnBlock(b) },
			func(b *ssa.BasicBlock) bool { return b == h }, cap)
		out = append(out, ps...)
		if !ok {
			okAll = false
		}
	}
	return out, okAll
}

// ---------------------------------------------------------------------------------------------
// callee path tables

// boolCalleeCanReturn reports whether the repository function g (single bool result) has a
// return path yielding `want` that is compatible with the known truth values of its boolean
// parameters (index -> value). Non-constant results are treated as possibly `want`.
func boolCalleeCanReturn(g *ssa.Function, want bool, known map[int]bool) bool {
	paths, _, ok := funcPaths(g, 5000)
	if !ok {
		return true
	}
	for _, p := range paths {
		ret := returnOf(p.Blocks[len(p.Blocks)-1])
		if ret == nil || len(ret.Results) != 1 {
			return true
		}
		res := p.Resolve(ret.Results[0])
		if b, isC := constBool(res); isC && b != want {
			continue
		}
		compatible := true
		for _, f := range p.Facts {
			if pr, isP := f.V.(*ssa.Parameter); isP {
				if v, okk := known[paramIndex(pr)]; okk && v != f.Pol {
					compatible = false
				}
			}
		}
		if compatible {
			return true
		}
	}
	return false
}

// pathFeasibleByCallees reports whether the facts of p about results of boolean repository
// callees are compatible with what the path knows about their boolean arguments.
func pathFeasibleByCallees(prog *Prog, p *Path, k *keyer) bool {
	for _, f := range p.Facts {
		c, ok := f.V.(*ssa.Call)
		if !ok {
			continue
		}
		g := staticCallee(&c.Call)
		if g == nil || !prog.IsRuleSite(g) || g.Signature.Results().Len() != 1 {
			continue
		}
		if bt, isB := g.Signature.Results().At(0).Type().Underlying().(*types.Basic); !isB || bt.Kind() != types.Bool {
			continue
		}
		known := map[int]bool{}
		for i, a := range c.Call.Args {
			if bt, isB := a.Type().Underlying().(*types.Basic); !isB || bt.Kind() != types.Bool {
				continue
			}
			if cb, isC := constBool(a); isC {
				known[i] = cb
				continue
			}
			ka := k.key(a)
			if p.Facts.has(ka, true) {
				known[i] = true
			} else if p.Facts.has(ka, false) {
				known[i] = false
			}
		}
		if len(known) == 0 {
			continue
		}
		if !boolCalleeCanReturn(g, f.Pol, known) {
			return false
		}
	}
	return true
}

// ---------------------------------------------------------------------------------------------
// misc

// stripConv strips conversions and follows loads of local variable cells that have exactly one
// store.
func stripConv(v ssa.Value) ssa.Value {
	for i := 0; i < 16; i++ {
		v = unwrap(v)
		u, ok := v.(*ssa.UnOp)
		if !ok || u.Op != token.MUL {
			return v
		}
		a, ok := u.X.(*ssa.Alloc)
		if !ok {
			return v
		}
		var only ssa.Value
		n := 0
		for _, r := range refs(a) {
			if st, ok := r.(*ssa.Store); ok && st.Addr == ssa.Value(a) {
				n++
				only = st.Val
			}
		}
		if n != 1 {
			return v
		}
		v = only
	}
	return v
}

// condTypeConst returns the constant condition-type string passed to a replica-set condition
// helper (second or third argument of Get…/IsConditionTrue/GetIndex…/Update…).
func condTypeConst(c *ssa.Call) (string, bool) {
	for _, a := range c.Call.Args {
		if isNamedType(a.Type(), pkgAPI, "ExtendedDaemonSetReplicaSetConditionType") {
			return constString(a)
		}
	}
	return "", false
}

// sortedBlocks renders block indices (diagnostics).
func blockList(bs []*ssa.BasicBlock) string {
	var idx []int
	for _, b := range bs {
		idx = append(idx, b.Index)
	}
	sort.Ints(idx)
	var s []string
	for _, i := range idx {
		s = append(s, "b"+itoa(i))
	}
	return strings.Join(s, ",")
}

func itoa(i int) string {
	if i == 0 {
		return "0"
	}
	neg := i < 0
	if neg {
		i = -i
	}
	var b []byte
	for i > 0 {
		b = append([]byte{byte('0' + i%10)}, b...)
		i /= 10
	}
	if neg {
		b = append([]byte{'-'}, b...)
	}
	return string(b)
}

// constOfNamedType collects the string values of all constants of the named type declared in pkg.
func (p *Prog) constsOfNamedType(pkg, typ string) map[string]string {
	out := map[string]string{}
	pk := p.All[pkg]
	if pk == nil || pk.Types == nil {
		return out
	}
	sc := pk.Types.Scope()
	for _, n := range sc.Names() {
		c, ok := sc.Lookup(n).(*types.Const)
		if !ok {
			continue
		}
		if nt, isN := c.Type().(*types.Named); isN && nt.Obj().Name() == typ {
			if s, okc := p.constStr(pkg, n); okc {
				out[s] = n
			}
		}
	}
	return out
}

// ---------------------------------------------------------------------------------------------
// boolean flag variables (`ok := true; if c1 { ok = false }; if c2 { ok = false }; if ok { … }`)

// impliedByFlag returns facts that must have held on the way to a point where the boolean phi v
// has value `val`: the intersection, over the phi edges that can carry `val`, of the facts on that
// edge plus (recursively) what the edge's own phi value implies.
func (ff *FuncFacts) impliedByFlag(v ssa.Value, val bool, depth int) factSet {
	phi, ok := v.(*ssa.Phi)
	if !ok || depth > 8 {
		return factSet{}
	}
	var acc factSet
	for i, e := range phi.Edges {
		if b, isC := constBool(e); isC && b != val {
			continue
		}
		s := ff.FactsAtEdge(phi.Block().Preds[i], phi.Block())
		if _, isC := constBool(e); !isC {
			if _, isPhi := e.(*ssa.Phi); isPhi {
				for k, f := range ff.impliedByFlag(e, val, depth+1) {
					s[k] = f
				}
			} else {
				for _, f := range ff.K.normCond(e, val) {
					s[fkey(f)] = f
				}
			}
		}
		if acc == nil {
			acc = s
		} else {
			for k := range acc {
				if _, ok := s[k]; !ok {
					delete(acc, k)
				}
			}
		}
	}
	if acc == nil {
		return factSet{}
	}
	return acc
}

// AtExpanded returns the must-facts at block b, extended by what boolean flag phis among them imply.
func (ff *FuncFacts) AtExpanded(b *ssa.BasicBlock) factSet {
	out := factSet{}
	for k, f := range ff.At(b) {
		out[k] = f
	}
	for _, f := range ff.At(b) {
		if _, isPhi := f.V.(*ssa.Phi); isPhi {
			for k, g := range ff.impliedByFlag(f.V, f.Pol, 0) {
				out[k] = g
			}
		}
	}
	return out
}

// repoFuncs caches Prog.RepoFuncs (which walks the whole program) per loaded program.
var repoFuncsCache = map[*Prog][]*ssa.Function{}

func repoFuncs(p *Prog) []*ssa.Function {
	if fs, ok := repoFuncsCache[p]; ok {
		return fs
	}
	fs := p.RepoFuncs()
	repoFuncsCache[p] = fs
	return fs
}

func repoFuncSet(p *Prog) map[*ssa.Function]bool {
	out := map[*ssa.Function]bool{}
	for _, f := range repoFuncs(p) {
		out[f] = true
	}
	return out
}

// ---------------------------------------------------------------------------------------------
// roles of the promotion decision's arguments, followed through a tuple-returning helper

// assignedOnlyUnderAcross is assignedOnlyUnder, looking through a repository helper that returns
// the value as one element of its result tuple: every return of the helper must assign that result
// only under the fact.
func assignedOnlyUnderAcross(prog *Prog, fn *ssa.Function, v ssa.Value, match func(c ssa.Value, key string) bool, depth int) bool {
	v = stripConv(v)
	var call *ssa.Call
	idx := 0
	if e, ok := v.(*ssa.Extract); ok {
		call, _ = e.Tuple.(*ssa.Call)
		idx = e.Index
	} else if c, ok := v.(*ssa.Call); ok {
		call = c
	}
	if call != nil && depth < 3 {
		if g := staticCallee(&call.Call); g != nil && prog.IsRuleSite(g) && len(g.Blocks) > 0 {
			n := 0
			for _, b := range g.Blocks {
				ret := returnOf(b)
				if ret == nil || idx >= len(ret.Results) {
					continue
				}
				n++
				if !assignedOnlyUnderAcross(prog, g, ret.Results[idx], match, depth+1) {
					return false
				}
			}
			return n > 0
		}
	}
	return assignedOnlyUnder(computeFacts(fn), v, match)
}

// assignRolesA determines the roles of the decision function's parameters like assignRoles
// (rules_c05.go), but follows the arguments through a helper that computes them.
func assignRolesA(r *Run, rule string, s *decisionSite) bool {
	s.roles = map[string]*ssa.Parameter{}
	var ersParams []*ssa.Parameter
	upToDate := func(c ssa.Value, _ string) bool {
		_, ok := isCallTo(c, pkgComparison+".IsReplicaSetUpToDate")
		return ok
	}
	active := func(c ssa.Value, _ string) bool {
		return isEqCompare(c, loadOfPath(nil, "Name"), loadOfPath(nil, "Status", "ActiveReplicaSet"))
	}
	for i, p := range s.decision.Params {
		switch {
		case isPtrToNamed(p.Type(), pkgAPI, "ExtendedDaemonSet"):
			s.roles["daemonset"] = p
		case isPtrToNamed(p.Type(), pkgAPI, "ExtendedDaemonSetReplicaSet"):
			ersParams = append(ersParams, p)
			if assignedOnlyUnderAcross(r.Prog, s.caller, s.call.Call.Args[i], upToDate, 0) {
				s.roles["upToDate"] = p
			}
		case typeName(p.Type()) == "time.Time":
			s.roles["now"] = p
		}
	}
	for _, p := range ersParams {
		if p != s.roles["upToDate"] && assignedOnlyUnderAcross(r.Prog, s.caller, s.call.Call.Args[paramIndex(p)], active, 0) {
			s.roles["active"] = p
		}
	}
	ok := s.roles["daemonset"] != nil && s.roles["upToDate"] != nil && s.roles["active"] != nil && len(ersParams) == 2
	var got []string
	for k, p := range s.roles {
		got = append(got, k+"="+p.Name())
	}
	sort.Strings(got)
	r.Check(rule, "argument roles of the decision call", r.Prog.Pos(s.call.Pos()), shortFunc(s.caller),
		"decision receives the reconciled object, the replica set selected under name==status.activeReplicaSet and the one selected under IsReplicaSetUpToDate", ok, strings.Join(got, " "))
	return ok
}

// ---------------------------------------------------------------------------------------------
// environments: values of a helper's parameters at a call site, so that matchers can look at an
// expression inside a repository helper as if it were written at the call site

type envT struct {
	m      map[*ssa.Parameter]ssa.Value
	parent *envT
}

func bindArgs(g *ssa.Function, args []ssa.Value, parent *envT) *envT {
	e := &envT{m: map[*ssa.Parameter]ssa.Value{}, parent: parent}
	for i, p := range g.Params {
		if i < len(args) {
			e.m[p] = args[i]
		}
	}
	return e
}

// stripConvE strips conversions and replaces bound parameters by their call-site values.
func stripConvE(v ssa.Value, env *envT) (ssa.Value, *envT) {
	for i := 0; i < 8; i++ {
		v = stripConv(v)
		p, ok := v.(*ssa.Parameter)
		if !ok || env == nil {
			return v, env
		}
		b, bound := env.m[p]
		if !bound {
			return v, env
		}
		v, env = b, env.parent
	}
	return v, env
}

// pathsOfE is pathsOf with bound parameter roots replaced by the paths of their call-site values.
func pathsOfE(v ssa.Value, env *envT) []valPath {
	v, env = stripConvE(v, env)
	var out []valPath
	for _, p := range pathsOf(v) {
		if pr, ok := p.root.(*ssa.Parameter); ok && env != nil {
			if b, bound := env.m[pr]; bound {
				for _, q := range pathsOfE(b, env.parent) {
					out = append(out, valPath{root: q.root, fields: append(append([]string(nil), q.fields...), p.fields...)})
				}
				continue
			}
		}
		out = append(out, p)
	}
	return out
}

func allPathsEndE(v ssa.Value, env *envT, suffix ...string) bool {
	ps := pathsOfE(v, env)
	if len(ps) == 0 {
		return false
	}
	for _, p := range ps {
		if !p.endsWith(suffix...) {
			return false
		}
	}
	return true
}

func singleRootWithSuffixE(v ssa.Value, env *envT, suffix ...string) (ssa.Value, bool) {
	ps := pathsOfE(v, env)
	if len(ps) == 0 {
		return nil, false
	}
	root := ps[0].root
	for _, p := range ps {
		if !p.endsWith(suffix...) || p.root != root {
			return nil, false
		}
	}
	return root, true
}

// calleeOfE resolves the callee of a call: static, or dynamic through a function-typed parameter
// that the environment binds to a function (or closure) value.
func calleeOfE(c *ssa.CallCommon, env *envT) *ssa.Function {
	if g := staticCallee(c); g != nil {
		return g
	}
	if c.IsInvoke() {
		return nil
	}
	v, _ := stripConvE(c.Value, env)
	switch x := v.(type) {
	case *ssa.Function:
		return x
	case *ssa.MakeClosure:
		f, _ := x.Fn.(*ssa.Function)
		return f
	}
	return nil
}

// xfact is a fact together with the environment in which its values are to be read.
type xfact struct {
	Fact
	env *envT
}

// expandFacts returns the facts of path p (in environment env) and, for every fact about a
// boolean result of a repository helper, the facts that hold on every path of the helper
// compatible with that result (read in the helper's environment). A non-constant boolean result
// returned by the helper contributes itself as a fact.
func expandFacts(prog *Prog, facts []Fact, env *envT, depth int) []xfact {
	var out []xfact
	for _, f := range facts {
		out = append(out, xfact{f, env})
		if depth >= 3 {
			continue
		}
		var call *ssa.Call
		idx := 0
		switch x := f.V.(type) {
		case *ssa.Call:
			call = x
		case *ssa.Extract:
			call, _ = x.Tuple.(*ssa.Call)
			idx = x.Index
		}
		if call == nil {
			continue
		}
		g := calleeOfE(&call.Call, env)
		if g == nil || !prog.IsRuleSite(g) || len(g.Blocks) == 0 || idx >= g.Signature.Results().Len() {
			continue
		}
		if bt, ok := g.Signature.Results().At(idx).Type().Underlying().(*types.Basic); !ok || bt.Kind() != types.Bool {
			continue
		}
		gpaths, gk, ok := cachedFuncPaths(g)
		if !ok {
			continue
		}
		genv := bindArgs(g, call.Call.Args, env)
		var sets [][]xfact
		for _, q := range gpaths {
			ret := returnOf(q.Blocks[len(q.Blocks)-1])
			if ret == nil || idx >= len(ret.Results) {
				continue
			}
			res := q.Resolve(ret.Results[idx])
			var qfacts []Fact
			for _, qf := range q.Facts {
				qfacts = append(qfacts, qf)
			}
			if b, isC := constBool(res); isC {
				if b != f.Pol {
					continue
				}
			} else {
				qfacts = append(qfacts, gk.normCond(res, f.Pol)...)
			}
			sets = append(sets, expandFacts(prog, qfacts, genv, depth+1))
		}
		if len(sets) == 0 {
			continue
		}
		// facts common to all compatible paths
		count := map[string]int{}
		first := map[string]xfact{}
		for _, s := range sets {
			seen := map[string]bool{}
			for _, xf := range s {
				k := fkey(xf.Fact)
				if xf.env != genv {
					k = fmt.Sprintf("%p|%s", xf.env, k)
				}
				if seen[k] {
					continue
				}
				seen[k] = true
				count[k]++
				if _, ok := first[k]; !ok {
					first[k] = xf
				}
			}
		}
		var keys []string
		for k, n := range count {
			if n == len(sets) {
				keys = append(keys, k)
			}
		}
		sort.Strings(keys)
		for _, k := range keys {
			out = append(out, first[k])
		}
	}
	return out
}

func factList(s factSet) []Fact {
	var keys []string
	for k := range s {
		keys = append(keys, k)
	}
	sort.Strings(keys)
	var out []Fact
	for _, k := range keys {
		out = append(out, s[k])
	}
	return out
}

// ---------------------------------------------------------------------------------------------
// "condition T of status S is True", in either of its forms

type condAtom struct {
	call *ssa.Call // IsConditionTrue(S, T) or GetExtendedDaemonSetReplicaSetStatusCondition(S, T)
	typ  string
	val  tri
}

// condTrueAtoms reads, from a set of facts, what is known about replica-set conditions being True:
// IsConditionTrue(S,T) = b, or c := Get…Condition(S,T) with c == nil / c.Status == "True" facts.
func condTrueAtoms(facts []Fact) []condAtom {
	var out []condAtom
	type getState struct{ notNil, statusTrue tri }
	gets := map[*ssa.Call]*getState{}
	var order []*ssa.Call
	getCall := func(v ssa.Value) *ssa.Call {
		c, ok := stripConv(v).(*ssa.Call)
		if ok && calleeName(&c.Call) == pkgERSCond+".GetExtendedDaemonSetReplicaSetStatusCondition" {
			return c
		}
		return nil
	}
	state := func(c *ssa.Call) *getState {
		if gets[c] == nil {
			gets[c] = &getState{}
			order = append(order, c)
		}
		return gets[c]
	}
	for _, f := range facts {
		if call, ok := f.V.(*ssa.Call); ok && calleeName(&call.Call) == pkgERSCond+".IsConditionTrue" {
			t, _ := condTypeConst(call)
			out = append(out, condAtom{call: call, typ: t, val: triOf(f.Pol)})
			continue
		}
		x, y, ok := eqOperands(f.V)
		if !ok {
			continue
		}
		for _, pair := range [][2]ssa.Value{{x, y}, {y, x}} {
			a, b := pair[0], pair[1]
			if isNilConst(b) {
				if c := getCall(a); c != nil {
					state(c).notNil = triOf(!f.Pol) // fact key is (c == nil)
				}
			}
			if s, isS := constString(b); isS && s == "True" {
				ps := pathsOf(stripConv(a))
				if len(ps) == 1 && len(ps[0].fields) == 1 && ps[0].fields[0] == "Status" {
					if c := getCall(ps[0].root); c != nil {
						state(c).statusTrue = triOf(f.Pol)
					}
				}
			}
		}
	}
	for _, c := range order {
		st := gets[c]
		t, _ := condTypeConst(c)
		v := triUnknown
		switch {
		case st.notNil == triTrue && st.statusTrue == triTrue:
			v = triTrue
		case st.notNil == triFalse || st.statusTrue == triFalse:
			v = triFalse
		}
		if v != triUnknown {
			out = append(out, condAtom{call: c, typ: t, val: v})
		}
	}
	return out
}

type pathsEntry struct {
	paths []*Path
	k     *keyer
	ok    bool
}

var funcPathsCache = map[*ssa.Function]pathsEntry{}

func cachedFuncPaths(g *ssa.Function) ([]*Path, *keyer, bool) {
	if e, ok := funcPathsCache[g]; ok {
		return e.paths, e.k, e.ok
	}
	ps, k, ok := funcPaths(g, 2000)
	funcPathsCache[g] = pathsEntry{ps, k, ok}
	return ps, k, ok
}

// calleeMayStoreField reports whether the function g, or anything it calls, may store into field
// `field` of a struct of the named type: a visible store, or a pointer to such a struct handed to
// code that is not visible (dynamic call, function outside the repository).
func calleeMayStoreField(g *ssa.Function, pkg, typ, field string, depth int, seen map[*ssa.Function]bool) bool {
	if seen[g] {
		return false
	}
	seen[g] = true
	root := g
	for root.Parent() != nil {
		root = root.Parent()
	}
	inRepo := root.Pkg != nil && (root.Pkg.Pkg.Path() == repoMod || strings.HasPrefix(root.Pkg.Pkg.Path(), repoMod+"/"))
	if len(g.Blocks) == 0 || !inRepo || depth > 6 {
		return true
	}
	if len(storesToFieldOf(g, pkg, typ, field)) > 0 {
		return true
	}
	for _, ci := range callsIn(g) {
		c := ci.Common()
		passes := false
		args := append([]ssa.Value{}, c.Args...)
		if !c.IsInvoke() {
			args = append(args, c.Value)
		}
		for _, a := range args {
			if _, isPtr := a.Type().Underlying().(*types.Pointer); isPtr && isNamedType(a.Type(), pkg, typ) {
				passes = true
			}
			if _, isClosure := a.(*ssa.MakeClosure); isClosure {
				passes = true
			}
		}
		h := staticCallee(c)
		if h == nil {
			if passes {
				return true
			}
			continue
		}
		if passes && calleeMayStoreField(h, pkg, typ, field, depth+1, seen) {
			return true
		}
	}
	return false
}

// rowAlternatives: when v is a field of the element of a local table (a composite literal of
// structs that is ranged over), it returns the values the literal stores into that field, one per
// row. ok=false when v is not of that shape or a row does not set the field.
func rowAlternatives(v ssa.Value) ([]ssa.Value, bool) {
	ps := pathsOf(stripConv(v))
	if len(ps) != 1 || len(ps[0].fields) > 1 {
		return nil, false
	}
	ia, ok := ps[0].root.(*ssa.IndexAddr)
	if !ok {
		return nil, false
	}
	whole := len(ps[0].fields) == 0 // a table of plain values: the element itself
	var arr *ssa.Alloc
	switch x := ia.X.(type) {
	case *ssa.Slice:
		arr, _ = x.X.(*ssa.Alloc)
	case *ssa.Alloc:
		arr = x
	}
	if arr == nil {
		return nil, false
	}
	at, isArr := arr.Type().Underlying().(*types.Pointer).Elem().Underlying().(*types.Array)
	if !isArr {
		return nil, false
	}
	rows := map[int64]ssa.Value{}
	for _, r := range refs(arr) {
		ria, isIA := r.(*ssa.IndexAddr)
		if !isIA {
			if _, isSl := r.(*ssa.Slice); isSl {
				continue
			}
			return nil, false // the array is used in another way
		}
		k, isConst := constInt(ria.Index)
		if !isConst {
			if ria == ia {
				continue
			}
			return nil, false
		}
		for _, r2 := range refs(ria) {
			if whole {
				st, isSt := r2.(*ssa.Store)
				if !isSt || st.Addr != ssa.Value(ria) {
					return nil, false
				}
				rows[k] = st.Val
				continue
			}
			fa, isFA := r2.(*ssa.FieldAddr)
			if !isFA {
				return nil, false
			}
			if fieldName(fa) != ps[0].fields[0] {
				continue
			}
			for _, r3 := range refs(fa) {
				if st, isSt := r3.(*ssa.Store); isSt && st.Addr == ssa.Value(fa) {
					rows[k] = st.Val
				}
			}
		}
	}
	if int64(len(rows)) != at.Len() || len(rows) == 0 {
		return nil, false
	}
	var out []ssa.Value
	for k := int64(0); k < at.Len(); k++ {
		out = append(out, rows[k])
	}
	return out, true
}

// ---------------------------------------------------------------------------------------------
// provenance of a struct field across function boundaries

// fieldSources returns the values that field path `fields` of the struct value v can hold,
// following v through by-value parameters (arguments at every call site), results of repository
// functions (their returned values), phis, and local struct variables / composite literals (the
// values stored into the field). ok=false when some source cannot be followed.
func fieldSources(prog *Prog, v ssa.Value, fields []string, depth int) (out []ssa.Value, ok bool) {
	if depth > 8 {
		return nil, false
	}
	if len(fields) == 0 {
		return []ssa.Value{v}, true
	}
	v = stripConv(v)
	// look through an access path first
	if ps := pathsOf(v); len(ps) == 1 && (ps[0].root != v || len(ps[0].fields) > 0) && ps[0].root != nil {
		if ps[0].root != v {
			return fieldSources(prog, ps[0].root, append(append([]string(nil), ps[0].fields...), fields...), depth+1)
		}
	}
	var structCell func(a *ssa.Alloc) ([]ssa.Value, bool)
	structCell = func(a *ssa.Alloc) ([]ssa.Value, bool) {
		var vals []ssa.Value
		for _, r := range refs(a) {
			fa, isFA := r.(*ssa.FieldAddr)
			if !isFA || fieldName(fa) != fields[0] {
				continue
			}
			for _, r2 := range refs(fa) {
				if st, isSt := r2.(*ssa.Store); isSt && st.Addr == ssa.Value(fa) {
					vals = append(vals, st.Val)
				}
			}
		}
		if w := wholeStoreOf(a); w != nil && len(vals) == 0 {
			return fieldSources(prog, w, fields, depth+1)
		}
		if len(vals) == 0 {
			return nil, false
		}
		var res []ssa.Value
		for _, x := range vals {
			sub, okS := fieldSources(prog, x, fields[1:], depth+1)
			if !okS {
				return nil, false
			}
			res = append(res, sub...)
		}
		return res, true
	}
	switch x := v.(type) {
	case *ssa.Alloc:
		return structCell(x)
	case *ssa.UnOp:
		if a, isA := x.X.(*ssa.Alloc); isA && x.Op == token.MUL {
			return structCell(a)
		}
	case *ssa.Phi:
		var res []ssa.Value
		for _, e := range x.Edges {
			sub, okS := fieldSources(prog, e, fields, depth+1)
			if !okS {
				return nil, false
			}
			res = append(res, sub...)
		}
		return res, len(res) > 0
	case *ssa.Parameter, *ssa.Call, *ssa.Extract, *ssa.FreeVar:
		outs := prog.stepOut(v)
		if len(outs) == 0 {
			return nil, false
		}
		var res []ssa.Value
		for _, o := range outs {
			sub, okS := fieldSources(prog, o, fields, depth+1)
			if !okS {
				return nil, false
			}
			res = append(res, sub...)
		}
		return res, true
	}
	return nil, false
}

// valueSources resolves a value that is a field of a struct travelling between functions to the
// values originally stored into that field; other values resolve to themselves.
func valueSources(prog *Prog, v ssa.Value) []ssa.Value {
	sv := stripConv(v)
	ps := pathsOf(sv)
	if len(ps) == 1 && len(ps[0].fields) > 0 {
		switch ps[0].root.(type) {
		case *ssa.Parameter, *ssa.Call, *ssa.Extract, *ssa.Alloc:
			if isStructLike(ps[0].root) {
				if srcs, ok := fieldSources(prog, ps[0].root, ps[0].fields, 0); ok && len(srcs) > 0 {
					return srcs
				}
			}
		}
	}
	return []ssa.Value{sv}
}

func isStructLike(v ssa.Value) bool {
	t := v.Type()
	if p, ok := t.Underlying().(*types.Pointer); ok {
		t = p.Elem()
	}
	_, ok := t.Underlying().(*types.Struct)
	return ok
}

// argSources follows a parameter to the arguments it receives at every static call site
// (repeatedly); other values resolve to themselves.
func argSources(prog *Prog, v ssa.Value, depth int) []ssa.Value {
	sv := stripConv(v)
	if p, ok := sv.(*ssa.Parameter); ok && depth < 6 {
		outs := prog.stepOut(p)
		if len(outs) > 0 {
			var res []ssa.Value
			for _, o := range outs {
				res = append(res, argSources(prog, o, depth+1)...)
			}
			return res
		}
	}
	return []ssa.Value{sv}
}

// expandAlternatives is the disjunctive counterpart of expandFacts: a fact about the boolean
// result of a repository helper is replaced by each compatible path of the helper in turn, so the
// result is a list of alternatives (one of which holds), each a conjunction of facts. stop names
// callees that are to stay atomic. The expansion is bounded; beyond the bound facts stay atomic.
func expandAlternatives(prog *Prog, facts []Fact, env *envT, depth int, stop func(*ssa.Function) bool) [][]xfact {
	alts := [][]xfact{{}}
	for _, f := range facts {
		for i := range alts {
			alts[i] = append(alts[i], xfact{f, env})
		}
		if depth >= 3 || len(alts) > 256 {
			continue
		}
		var call *ssa.Call
		idx := 0
		switch x := f.V.(type) {
		case *ssa.Call:
			call = x
		case *ssa.Extract:
			call, _ = x.Tuple.(*ssa.Call)
			idx = x.Index
		}
		if call == nil {
			continue
		}
		g := calleeOfE(&call.Call, env)
		if g == nil || !prog.IsRuleSite(g) || len(g.Blocks) == 0 || idx >= g.Signature.Results().Len() || (stop != nil && stop(g)) {
			continue
		}
		if bt, ok := g.Signature.Results().At(idx).Type().Underlying().(*types.Basic); !ok || bt.Kind() != types.Bool {
			continue
		}
		gpaths, gk, ok := cachedFuncPaths(g)
		if !ok {
			continue
		}
		genv := bindArgs(g, call.Call.Args, env)
		var sub [][]xfact
		for _, q := range gpaths {
			ret := returnOf(q.Blocks[len(q.Blocks)-1])
			if ret == nil || idx >= len(ret.Results) {
				continue
			}
			res := q.Resolve(ret.Results[idx])
			qfacts := factList(q.Facts)
			if b, isC := constBool(res); isC {
				if b != f.Pol {
					continue
				}
			} else {
				qfacts = append(qfacts, gk.normCond(res, f.Pol)...)
			}
			sub = append(sub, expandAlternatives(prog, qfacts, genv, depth+1, stop)...)
		}
		if len(sub) == 0 || len(sub)*len(alts) > 1024 {
			continue
		}
		var next [][]xfact
		for _, a := range alts {
			for _, sa := range sub {
				next = append(next, append(append([]xfact(nil), a...), sa...))
			}
		}
		alts = next
	}
	return alts
}

// ---------------------------------------------------------------------------------------------
// classification of the promotion decision's facts, through helpers and state structs

// classifyDecisionA reads the atoms of the promotion rule off one alternative of a decision path.
// Unlike c05Classify it accepts facts found in helpers of the decision (environment of the fact)
// and flags that travel in a struct (a field of a by-value struct built by another helper): each
// flag is traced back to the reader call that produced it, and the reader's arguments to the
// decision's parameters.
func classifyDecisionA(prog *Prog, s *decisionSite, alt []xfact, notes *[]string) promoAtoms {
	var a promoAtoms
	dsP, actP, utdP := s.roles["daemonset"], s.roles["active"], s.roles["upToDate"]
	// role matchers: the value, followed through parameters to the decision's own parameters
	isRole := func(p *ssa.Parameter) func(ssa.Value) bool {
		var rec func(v ssa.Value, depth int) bool
		rec = func(v ssa.Value, depth int) bool {
			v = stripConv(v)
			if p == nil || depth > 6 {
				return false
			}
			if v == ssa.Value(p) {
				return true
			}
			q, isP := v.(*ssa.Parameter)
			if !isP {
				return false
			}
			outs := prog.stepOut(q)
			if len(outs) == 0 {
				return false
			}
			for _, o := range outs {
				if !rec(o, depth+1) {
					return false
				}
			}
			return true
		}
		return func(v ssa.Value) bool { return rec(v, 0) }
	}
	ds, utd := isRole(dsP), isRole(utdP)
	canarySpec := func(v ssa.Value) bool {
		ps := pathsOf(stripConv(v))
		return len(ps) == 1 && valPath{fields: ps[0].fields}.endsWith("Spec", "Strategy", "Canary") && ds(ps[0].root)
	}
	for _, xf := range alt {
		v := xf.V
		if xf.env == nil {
			switch {
			case isEqCompare(v, isParam(actP), isParam(utdP)):
				a.eqActive = bptr(xf.Pol)
				continue
			case isNilCompareOf(v, isParam(actP)):
				a.activeNil = bptr(xf.Pol)
				continue
			case isNilCompareOf(v, canarySpec):
				a.noCanary = bptr(xf.Pol)
				continue
			}
		}
		for _, src := range valueSources(prog, v) {
			var call *ssa.Call
			idx := -1
			switch x := src.(type) {
			case *ssa.Call:
				call = x
			case *ssa.Extract:
				call, _ = x.Tuple.(*ssa.Call)
				idx = x.Index
			}
			if call == nil {
				continue
			}
			args := call.Call.Args
			switch calleeName(&call.Call) {
			case pkgEDS + ".IsCanaryDeploymentValid":
				if idx == -1 && annotationsOf(ds)(args[0]) && nameOf(utd)(args[1]) {
					a.valid = bptr(xf.Pol)
				} else {
					*notes = append(*notes, "IsCanaryDeploymentValid is not called with (daemonset annotations, up-to-date replica set name)")
				}
			case pkgEDS + ".IsCanaryDeploymentEnded":
				if idx == 0 && canarySpec(args[0]) && utd(args[1]) {
					a.ended = bptr(xf.Pol)
				} else if idx == 0 {
					*notes = append(*notes, "IsCanaryDeploymentEnded is not called with (spec canary, up-to-date replica set, now)")
				}
			case pkgEDS + ".IsCanaryDeploymentPaused":
				if idx == 0 && annotationsOf(ds)(args[0]) && utd(args[1]) {
					a.paused = bptr(xf.Pol)
				} else if idx == 0 {
					*notes = append(*notes, "IsCanaryDeploymentPaused is not called with (daemonset annotations, up-to-date replica set)")
				}
			case pkgEDS + ".IsCanaryDeploymentFailed":
				if idx == -1 && utd(args[0]) {
					a.failed = bptr(xf.Pol)
				} else {
					*notes = append(*notes, "IsCanaryDeploymentFailed is not called with the up-to-date replica set")
				}
			}
		}
	}
	return a
}

// decisionAlternatives expands the facts of a decision path through the unexported helpers of the
// decision (exported predicates are the atoms of the rule).
func decisionAlternatives(prog *Prog, p *Path) [][]xfact {
	return expandAlternatives(prog, factList(p.Facts), nil, 0, func(g *ssa.Function) bool { return token.IsExported(g.Name()) })
}

// ---------------------------------------------------------------------------------------------
// facts that hold inside a function because of how it is dispatched

// funcUses indexes, for every function value of the program's repository packages (synthetic
// wrappers included), the instructions that mention it as an operand.
func funcUses(prog *Prog) map[*ssa.Function][]ssa.Instruction {
	if u, ok := funcUsesCache[prog]; ok {
		return u
	}
	uses := map[*ssa.Function][]ssa.Instruction{}
	for fn := range ssautil.AllFunctions(prog.SSA) {
		if len(fn.Blocks) == 0 {
			continue
		}
		root := fn
		for root.Parent() != nil {
			root = root.Parent()
		}
		pkg := root.Pkg
		if pkg == nil {
			if o := root.Object(); o != nil && o.Pkg() != nil && prog.IsRepoPkg(o.Pkg().Path()) {
				// synthetic wrapper of a repository method
			} else {
				continue
			}
		} else if !prog.IsRepoPkg(pkg.Pkg.Path()) {
			continue
		}
		for _, b := range fn.Blocks {
			for _, in := range b.Instrs {
				for _, op := range in.Operands(nil) {
					if g, ok := (*op).(*ssa.Function); ok {
						uses[g] = append(uses[g], in)
					}
				}
			}
		}
	}
	funcUsesCache[prog] = uses
	return uses
}

var funcUsesCache = map[*Prog]map[*ssa.Function][]ssa.Instruction{}

// dispatchKeys: when fn is only ever reached through a package-level constant table
// `map[K]func…{k1: fn, …}` (directly, as a method expression or through a wrapper) whose every
// use is a lookup `table[idx]` with idx accepted by isIdx and the result called, it returns the
// keys under which fn is stored: inside fn, idx equals one of them. ok=false otherwise.
func dispatchKeys(prog *Prog, fn *ssa.Function, isIdx func(ssa.Value) bool, depth int) (keys []string, ok bool) {
	uses := funcUses(prog)[fn]
	if len(uses) == 0 || depth > 3 {
		return nil, false
	}
	set := map[string]bool{}
	for _, in := range uses {
		switch x := in.(type) {
		case ssa.CallInstruction:
			// a static call from a synthetic wrapper (method expression thunk, bound method)
			if staticCallee(x.Common()) == fn && x.Parent().Synthetic != "" {
				ks, okW := dispatchKeys(prog, x.Parent(), isIdx, depth+1)
				if !okW {
					return nil, false
				}
				for _, k := range ks {
					set[k] = true
				}
				continue
			}
			return nil, false
		case *ssa.MapUpdate, *ssa.ChangeType, *ssa.MakeClosure, *ssa.MakeInterface:
			ks, okM := dispatchKeysOfValueUse(prog, in, isIdx)
			if !okM {
				return nil, false
			}
			for _, k := range ks {
				set[k] = true
			}
		default:
			return nil, false
		}
	}
	for k := range set {
		keys = append(keys, k)
	}
	sort.Strings(keys)
	return keys, len(keys) > 0
}

// dispatchKeysOfValueUse follows a function value through conversions into a MapUpdate of a map
// literal that initialises a global table, and checks how the table is used.
func dispatchKeysOfValueUse(prog *Prog, in ssa.Instruction, isIdx func(ssa.Value) bool) ([]string, bool) {
	var keys []string
	switch x := in.(type) {
	case *ssa.MapUpdate:
		k, isC := constString(x.Key)
		if !isC {
			return nil, false
		}
		mm, isMM := x.Map.(*ssa.MakeMap)
		if !isMM {
			return nil, false
		}
		// the map literal is stored into one global, whose loads are only indexed and the result called
		var g *ssa.Global
		for _, rf := range refs(mm) {
			switch y := rf.(type) {
			case *ssa.MapUpdate:
			case *ssa.Store:
				gg, isG := y.Addr.(*ssa.Global)
				if !isG || y.Val != ssa.Value(mm) {
					return nil, false
				}
				g = gg
			default:
				return nil, false
			}
		}
		if g == nil {
			return nil, false
		}
		for fn := range ssautil.AllFunctions(prog.SSA) {
			if fn.Pkg != g.Pkg {
				continue
			}
			for _, b := range fn.Blocks {
				for _, ins := range b.Instrs {
					ld, isLd := ins.(*ssa.UnOp)
					if !isLd || ld.X != ssa.Value(g) {
						if st, isSt := ins.(*ssa.Store); isSt && st.Addr == ssa.Value(g) && st.Val != ssa.Value(mm) {
							return nil, false // the table is reassigned
						}
						continue
					}
					for _, rf := range refs(ld) {
						lk, isLk := rf.(*ssa.Lookup)
						if !isLk || lk.X != ssa.Value(ld) || !isIdx(lk.Index) {
							return nil, false
						}
					}
				}
			}
		}
		keys = append(keys, k)
		return keys, true
	case ssa.Value:
		// a conversion / closure of the function value: follow its uses
		rs := refs(x)
		if len(rs) == 0 {
			return nil, false
		}
		for _, rf := range rs {
			ks, ok := dispatchKeysOfValueUse(prog, rf, isIdx)
			if !ok {
				return nil, false
			}
			keys = append(keys, ks...)
		}
		return keys, true
	}
	return nil, false
}

// underDispatchFact reports whether block b of fn is only executed when the value accepted by
// isIdx equals want: by a must-fact at b, because fn is dispatched from a constant table under
// that key only, or because every static caller calls fn under that condition.
func underDispatchFact(prog *Prog, fn *ssa.Function, b *ssa.BasicBlock, isIdx func(ssa.Value) bool, want string, depth int) bool {
	if depth > 4 {
		return false
	}
	if prog.factsOf(fn).AtExpanded(b).any(true, func(v ssa.Value, _ string) bool {
		return isEqCompare(v, isIdx, isConstStringVal(want))
	}) {
		return true
	}
	if keys, ok := dispatchKeys(prog, fn, isIdx, 0); ok {
		return len(keys) == 1 && keys[0] == want
	}
	var callers []ssa.CallInstruction
	for _, in := range funcUses(prog)[fn] {
		ci, isCall := in.(ssa.CallInstruction)
		if !isCall || staticCallee(ci.Common()) != fn {
			return false // the function escapes as a value in a way that is not a constant table
		}
		callers = append(callers, ci)
	}
	if len(callers) == 0 {
		return false
	}
	for _, ci := range callers {
		if !underDispatchFact(prog, ci.Parent(), ci.Block(), isIdx, want, depth+1) {
			return false
		}
	}
	return true
}

// ---------------------------------------------------------------------------------------------
// decisions written as an ordered table of {predicate, value} rows scanned by a loop

// arrayLiteralRows reads a composite literal of structs stored in a local array: one map
// field -> stored value per row. ok=false when the array is used in any other way.
func arrayLiteralRows(arr *ssa.Alloc) ([]map[string]ssa.Value, bool) {
	at, isArr := arr.Type().Underlying().(*types.Pointer).Elem().Underlying().(*types.Array)
	if !isArr {
		return nil, false
	}
	rows := make([]map[string]ssa.Value, at.Len())
	for i := range rows {
		rows[i] = map[string]ssa.Value{}
	}
	for _, r := range refs(arr) {
		ria, isIA := r.(*ssa.IndexAddr)
		if !isIA {
			if _, isSl := r.(*ssa.Slice); isSl {
				continue
			}
			return nil, false
		}
		k, isConst := constInt(ria.Index)
		if !isConst || k < 0 || k >= at.Len() {
			return nil, false
		}
		for _, r2 := range refs(ria) {
			fa, isFA := r2.(*ssa.FieldAddr)
			if !isFA {
				return nil, false
			}
			for _, r3 := range refs(fa) {
				if st, isSt := r3.(*ssa.Store); isSt && st.Addr == ssa.Value(fa) {
					rows[k][fieldName(fa)] = st.Val
				}
			}
		}
	}
	return rows, true
}

// globalTableRows reads the rows of a package-level slice of structs that is assigned once, in
// the package initialiser, from a composite literal.
func globalTableRows(g *ssa.Global) ([]map[string]ssa.Value, bool) {
	var rows []map[string]ssa.Value
	n := 0
	for _, mem := range g.Pkg.Members {
		fn, isF := mem.(*ssa.Function)
		if !isF {
			continue
		}
		for _, f := range append([]*ssa.Function{fn}, fn.AnonFuncs...) {
			for _, b := range f.Blocks {
				for _, in := range b.Instrs {
					st, isSt := in.(*ssa.Store)
					if !isSt || st.Addr != ssa.Value(g) {
						continue
					}
					n++
					sl, isSl := st.Val.(*ssa.Slice)
					if !isSl || f.Name() != "init" {
						return nil, false
					}
					arr, isA := sl.X.(*ssa.Alloc)
					if !isA {
						return nil, false
					}
					var ok bool
					if rows, ok = arrayLiteralRows(arr); !ok {
						return nil, false
					}
				}
			}
		}
	}
	return rows, n == 1
}

// predFact: the boolean result of calling fn on args.
type predFact struct {
	fn   *ssa.Function
	args []ssa.Value
	pol  bool
}

// decisionOutcome: one way a decision function returns: the returned value and the predicate
// results it implies.
type decisionOutcome struct {
	result ssa.Value
	preds  []predFact
	pos    token.Pos
}

// tableScanOutcomes recognises `for _, row := range table { if row.pred(args…) { return row.val } };
// return dflt` over a package-level table and returns its outcomes: row k is returned when its
// predicate holds and those of the earlier rows do not; the default when none holds.
func tableScanOutcomes(prog *Prog, fn *ssa.Function) ([]decisionOutcome, bool) {
	var header *ssa.BasicBlock
	for _, b := range fn.Blocks {
		for _, p := range b.Preds {
			if b.Dominates(p) {
				if header != nil && header != b {
					return nil, false
				}
				header = b
			}
		}
	}
	if header == nil {
		return nil, false
	}
	k := newKeyer(fn)
	body, ok := loopBodyPaths(fn, k, header, 2000)
	if !ok || len(body) == 0 {
		return nil, false
	}
	// the scanned element: &table[i] with table loaded from a global
	var elemKey string
	var rows []map[string]ssa.Value
	inLoop := map[*ssa.BasicBlock]bool{}
	for _, p := range body {
		for _, b := range p.Blocks {
			inLoop[b] = true
		}
	}
	for b := range inLoop {
		for _, in := range b.Instrs {
			ia, isIA := in.(*ssa.IndexAddr)
			if !isIA {
				continue
			}
			ld, isLd := ia.X.(*ssa.UnOp)
			if !isLd {
				continue
			}
			g, isG := ld.X.(*ssa.Global)
			if !isG {
				continue
			}
			rs, okR := globalTableRows(g)
			if !okR {
				return nil, false
			}
			if rows != nil && k.key(ia) != elemKey {
				return nil, false
			}
			rows, elemKey = rs, k.key(ia)
		}
	}
	if rows == nil {
		return nil, false
	}
	elemField := func(v ssa.Value) (string, bool) {
		ps := pathsOf(stripConv(v))
		if len(ps) != 1 || len(ps[0].fields) != 1 {
			return "", false
		}
		if ia, isIA := ps[0].root.(*ssa.IndexAddr); isIA && k.key(ia) == elemKey {
			return ps[0].fields[0], true
		}
		return "", false
	}
	predField, valField := "", ""
	var args []ssa.Value
	for _, p := range body {
		var rowPred *Fact
		for _, f := range factList(p.Facts) {
			f := f
			if call, isC := f.V.(*ssa.Call); isC && !call.Call.IsInvoke() {
				if fld, okF := elemField(call.Call.Value); okF {
					if predField != "" && predField != fld {
						return nil, false
					}
					predField, rowPred, args = fld, &f, call.Call.Args
					continue
				}
				return nil, false // another condition decides as well
			}
			if bo, isB := f.V.(*ssa.BinOp); isB {
				if _, isLen := stripConv(bo.Y).(*ssa.Call); isLen || bo.Op == token.LSS {
					continue // the loop bound
				}
			}
			return nil, false
		}
		last := p.Blocks[len(p.Blocks)-1]
		if rowPred == nil {
			return nil, false
		}
		if last == header {
			if rowPred.Pol {
				return nil, false
			}
			continue
		}
		ret := returnOf(last)
		if ret == nil || len(ret.Results) != 1 || !rowPred.Pol {
			return nil, false
		}
		fld, okF := elemField(p.Resolve(ret.Results[0]))
		if !okF || (valField != "" && valField != fld) {
			return nil, false
		}
		valField = fld
	}
	if predField == "" || valField == "" {
		return nil, false
	}
	rowFn := func(i int) *ssa.Function {
		switch x := stripConv(rows[i][predField]).(type) {
		case *ssa.Function:
			return x
		case *ssa.MakeClosure:
			if f, isF := x.Fn.(*ssa.Function); isF && len(x.Bindings) == 0 {
				return f
			}
		}
		return nil
	}
	var out []decisionOutcome
	for i := range rows {
		if rowFn(i) == nil || rows[i][valField] == nil {
			return nil, false
		}
		o := decisionOutcome{result: rows[i][valField], pos: fn.Pos()}
		for j := 0; j < i; j++ {
			o.preds = append(o.preds, predFact{rowFn(j), args, false})
		}
		o.preds = append(o.preds, predFact{rowFn(i), args, true})
		out = append(out, o)
	}
	// the default: the paths from the loop exit to a return
	for _, s := range header.Succs {
		if inLoop[s] {
			continue
		}
		exits, okE := enumPaths(fn, k, s, isReturnBlock, nil, 200)
		if !okE {
			return nil, false
		}
		for _, p := range exits {
			ret := returnOf(p.Blocks[len(p.Blocks)-1])
			if ret == nil || len(ret.Results) != 1 {
				return nil, false
			}
			o := decisionOutcome{result: p.Resolve(ret.Results[0]), pos: instrPos(ret)}
			for i := range rows {
				o.preds = append(o.preds, predFact{rowFn(i), args, false})
			}
			for _, f := range factList(p.Facts) {
				if call, isC := f.V.(*ssa.Call); isC {
					if g := staticCallee(&call.Call); g != nil {
						o.preds = append(o.preds, predFact{g, call.Call.Args, f.Pol})
					}
				}
			}
			out = append(out, o)
		}
	}
	return out, true
}

// pathOutcomes: the outcomes of an ordinary decision function, one per path: the predicates are
// the static calls whose result the path branches on.
func pathOutcomes(fn *ssa.Function) ([]decisionOutcome, bool) {
	paths, _, ok := funcPaths(fn, 5000)
	if !ok {
		return nil, false
	}
	var out []decisionOutcome
	for _, p := range paths {
		ret := returnOf(p.Blocks[len(p.Blocks)-1])
		if ret == nil || len(ret.Results) == 0 {
			continue
		}
		o := decisionOutcome{result: p.Resolve(ret.Results[0]), pos: instrPos(ret)}
		for _, f := range factList(p.Facts) {
			if call, isC := f.V.(*ssa.Call); isC {
				if g := staticCallee(&call.Call); g != nil {
					o.preds = append(o.preds, predFact{g, call.Call.Args, f.Pol})
				}
			}
		}
		out = append(out, o)
	}
	return out, true
}
