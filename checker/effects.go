package main

// EFFECT: index of Kubernetes API calls made through the controller-runtime client interfaces.

import (
	"go/types"
	"strings"

	"golang.org/x/tools/go/ssa"
)

// Effect is one call to a controller-runtime client verb.
type Effect struct {
	Fn     *ssa.Function
	Call   ssa.CallInstruction
	Verb   string // Get List Create Delete Update Patch DeleteAllOf
	Status bool   // via .Status() (sub-resource writer)
	Kind   string // concrete object kind, e.g. "k8s.io/api/core/v1.Pod"; "" if unknown
	Obj    ssa.Value
}

func (e *Effect) String() string {
	v := e.Verb
	if e.Status {
		v = "Status." + v
	}
	return v + "(" + shortKind(e.Kind) + ")"
}

func shortKind(k string) string {
	if i := strings.LastIndex(k, "."); i >= 0 {
		return k[i+1:]
	}
	if k == "" {
		return "?"
	}
	return k
}

var clientVerbs = map[string]int{ // verb -> index of the object argument
	"Get": 2, "List": 1, "Create": 1, "Delete": 1, "Update": 1, "Patch": 1, "DeleteAllOf": 1,
}

func isWriteVerb(v string) bool { return v != "Get" && v != "List" }

// clientEffect classifies a call instruction as a client verb call.
func clientEffect(fn *ssa.Function, ci ssa.CallInstruction) *Effect {
	c := ci.Common()
	if !c.IsInvoke() {
		return nil
	}
	m := c.Method
	if m.Pkg() == nil || m.Pkg().Path() != pkgClient {
		return nil
	}
	idx, ok := clientVerbs[m.Name()]
	if !ok {
		return nil
	}
	// Invoke args exclude the receiver: (ctx, [key,] obj, opts...).
	ai := idx
	if ai < 0 || ai >= len(c.Args) {
		return nil
	}
	e := &Effect{Fn: fn, Call: ci, Verb: m.Name(), Obj: c.Args[ai]}
	// receiver obtained from X.Status()?
	if rc, ok := c.Value.(*ssa.Call); ok && rc.Call.IsInvoke() && rc.Call.Method.Name() == "Status" {
		e.Status = true
	} else if sig, ok := m.Type().(*types.Signature); ok && sig.Recv() != nil {
		rn := typeName(sig.Recv().Type())
		if strings.Contains(rn, "SubResourceWriter") || strings.Contains(rn, "StatusWriter") {
			e.Status = true
		}
	}
	e.Kind = concreteKind(e.Obj)
	return e
}

// concreteKind traces an interface-typed object argument back to its concrete pointer type.
func concreteKind(v ssa.Value) string {
	seen := map[ssa.Value]bool{}
	for i := 0; i < 16 && v != nil && !seen[v]; i++ {
		seen[v] = true
		switch x := v.(type) {
		case *ssa.MakeInterface:
			return typeName(x.X.Type())
		case *ssa.ChangeInterface:
			v = x.X
		case *ssa.Phi:
			kinds := map[string]bool{}
			for _, e := range x.Edges {
				kinds[concreteKind(e)] = true
			}
			if len(kinds) == 1 {
				for k := range kinds {
					return k
				}
			}
			return ""
		default:
			if _, isIface := v.Type().Underlying().(*types.Interface); !isIface {
				return typeName(v.Type())
			}
			return ""
		}
	}
	return ""
}

// effectsOf lists the client effects inside the given functions.
func effectsOf(fns map[*ssa.Function]bool) []*Effect {
	var out []*Effect
	for _, fn := range sortedFuncs(fns) {
		for _, ci := range callsIn(fn) {
			if e := clientEffect(fn, ci); e != nil {
				out = append(out, e)
			}
		}
	}
	return out
}
