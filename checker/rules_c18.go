package main

// C18 — at most one valid ExtendedDaemonsetSetting applies to a node.

import (
	"fmt"
	"go/token"
	"go/types"
	"sort"
	"strings"

	"golang.org/x/tools/go/ssa"
)

func init() {
	register("C18", "Decides the structure that mutual exclusion of settings rests on: (R1) the comparator used to sort the settings before the conflict scan is a strict total order — a decision table over the six worlds (creation time earlier/equal/later × name smaller/larger) shows it is lexicographic (creation time, then a strict name comparison; or names alone), and the sort call on exactly the scanned slice dominates the scan loop; (R2) the ExtendedDaemonsetSetting reconciler lists settings restricted to the namespace of the reconciled object (names unique), lists nodes unfiltered (or restricted only by options built from the reconciled setting's own node selector), and hands exactly these lists and the reconciled object to the conflict search; (R3) on every path of the Reconcile to the status write: a missing reference, a node list error or a conflict-search error ends with Status=error and a non-empty Error, Status=valid is written only with an Error shown empty after its last store and only on a path that carries the facts reference set ∧ settings-list error == nil ∧ node-list error == nil ∧ error returned by the conflict search == nil (the decision is taken on the error values, not on a by-product), a path without any failure writes Status=valid, every failing path reaches the write, and the status written is the computed one; (R4) the conflict search returns a conflict only under (selector of the scanned setting matches the node ∧ scanned setting is the reconciled one ∧ an earlier scanned setting is recorded for that node), every matching earlier setting is recorded under the node's name, a recorded match can never be seen by the look-up of the same scan step, other map writes cannot reach the look-up for the same node, and a selector conversion error is returned; (R5) a setting reaches NodeItem.ExtendedDaemonsetSetting only under Status.Status==valid ∧ its own selector (same conversion as the conflict search) matches the labels of the very node of the item, the scanned settings are exactly those appended under Spec.Reference.Name == the ExtendedDaemonSet's name from a list restricted to its namespace, and functions taking a setting receive it only from NodeItem.", runC18)
}

const (
	c18SettingKind     = pkgAPI + ".ExtendedDaemonsetSetting"
	c18SettingListKind = pkgAPI + ".ExtendedDaemonsetSettingList"
	c18NodeListKind    = pkgCoreV1 + ".NodeList"
	c18EDSKind         = pkgAPI + ".ExtendedDaemonSet"
	c18AsSelector      = pkgMetaV1 + ".LabelSelectorAsSelector"
)

func runC18(r *Run) {
	r.RuleDoc("C18.R1", "conflict order: comparator is a strict total order (creation time then name) and the sort dominates the scan of the sorted slice")
	r.RuleDoc("C18.R2", "settings list restricted to the reconciled object's namespace; node list unfiltered; both handed to the conflict search")
	r.RuleDoc("C18.R3", "status table of the setting Reconcile: failure ⇒ error+message, valid ⇒ empty error, no failure ⇒ valid, failures reach the write")
	r.RuleDoc("C18.R4", "conflict search: conflict only for the reconciled setting when an earlier scanned setting matched the same node; every earlier match recorded")
	r.RuleDoc("C18.R5", "consumer attaches a setting to a node only if valid ∧ its selector matches that node; scanned settings are reference- and namespace-filtered")
	r.Floor("C18.R1", 3)
	r.Floor("C18.R2", 3)
	r.Floor("C18.R3", 6)
	r.Floor("C18.R4", 7)
	r.Floor("C18.R5", 5)
	r.NotCovered("that after all settings were reconciled in any order at most one of a set of overlapping settings is valid (a statement about all statuses after all reconciles; follows from R1–R4 only for reconciles against one cluster state); behaviour when the settings list call fails (status is left as it was, error message cleared); staleness of the statuses the consumer reads; uniqueness of node names (cluster-scoped objects)")

	rec := r.Prog.Method(pkgSetting, "Reconciler", "Reconcile")
	if rec == nil {
		r.Fatal("anchor (%s.Reconciler).Reconcile not found", pkgSetting)
		return
	}
	reach := r.Prog.reachableFuncs(rec)
	effs := effectsOf(reach)
	var getEff, listSettings, listNodes *Effect
	var updates []*Effect
	for _, e := range effs {
		switch {
		case e.Verb == "Get" && e.Kind == c18SettingKind:
			getEff = pickOne(r, "Get(ExtendedDaemonsetSetting)", getEff, e)
		case e.Verb == "List" && e.Kind == c18SettingListKind:
			listSettings = pickOne(r, "List(ExtendedDaemonsetSettingList)", listSettings, e)
		case e.Verb == "List" && e.Kind == c18NodeListKind:
			listNodes = pickOne(r, "List(NodeList)", listNodes, e)
		case e.Verb == "Update" && e.Status && e.Kind == c18SettingKind:
			updates = append(updates, e)
		}
	}
	if getEff == nil || listSettings == nil || listNodes == nil || len(updates) == 0 {
		r.Fatal("setting Reconcile: expected one Get(setting), one List(settings), one List(nodes) and a Status().Update(setting); found get=%v settings=%v nodes=%v updates=%d", getEff != nil, listSettings != nil, listNodes != nil, len(updates))
		return
	}

	// The conflict search = the one function reachable from Reconcile that tests a node's labels
	// against the selector of a setting (anchored by what it does; helpers that only hand the lists
	// on, or that prepare the sorted slice, are not it).
	c18FindPredicates(r, r.Prog.RepoFuncs())
	var cf *ssa.Function
	for _, fn := range sortedFuncs(reach) {
		if !r.Prog.IsRuleSite(fn) || c18Predicates[fn] != nil {
			continue
		}
		for _, ci := range callsIn(fn) {
			cv, isV := ci.(*ssa.Call)
			if !isV {
				continue
			}
			if _, ok := c18MatchInfo(cv); ok {
				if cf != nil && cf != fn {
					r.Undecided("C18.R2", "conflict search", r.Prog.Pos(cv.Pos()), shortFunc(fn), "settings' selectors are matched against nodes in more than one function reachable from Reconcile")
					return
				}
				cf = fn
			}
		}
	}
	if cf == nil {
		// no match of the recognised form: fall back to the function that calls labels.Selector.Matches
		// at all, so that R4 can say what is wrong with the selector it matches
		for _, fn := range sortedFuncs(reach) {
			if !r.Prog.IsRuleSite(fn) || fn == rec {
				continue
			}
			for _, ci := range callsIn(fn) {
				c := ci.Common()
				if c.IsInvoke() && c.Method.Name() == "Matches" && c.Method.Pkg() != nil && c.Method.Pkg().Path() == "k8s.io/apimachinery/pkg/labels" {
					if cf != nil && cf != fn {
						cf = nil
						break
					}
					cf = fn
				}
			}
		}
	}
	if cf == nil || cf == rec {
		r.Fatal("setting Reconcile: no function (other than Reconcile) reachable from it matches a setting's node selector against node labels (conflict search not found)")
		return
	}
	scan := c18ConflictSearch(r, cf)
	entry := cf
	if scan != nil {
		if scan.mapParam != nil {
			// the scan is a helper called per node: the function around it is the conflict search
			entry = c18ScanCaller(r, cf, scan, reach)
			if entry == nil {
				return
			}
		} else {
			c18Order(r, cf, scan)
		}
	}
	var conflictCall *ssa.Call
	for _, ci := range callSitesOf(entry, reach) {
		c, isCall := ci.(*ssa.Call)
		if !isCall || conflictCall != nil {
			r.Undecided("C18.R2", "conflict search call", r.Prog.Pos(ci.Pos()), shortFunc(ci.Parent()), "the conflict search is called from more than one site (or by go/defer)")
			return
		}
		conflictCall = c
	}
	if conflictCall == nil {
		r.Fatal("setting Reconcile: no static call of the conflict search %s", shortFunc(entry))
		return
	}

	c18ListScope(r, rec, reach, getEff, listSettings, listNodes, conflictCall)
	c18StatusTable(r, rec, reach, updates, getEff, listSettings, listNodes, conflictCall)
	conv := ""
	if scan != nil {
		conv = scan.converter
	}
	c18Consumer(r, conv)
}

func pickOne(r *Run, what string, old, e *Effect) *Effect {
	if old != nil && old.Call != e.Call {
		r.Fatal("setting Reconcile: more than one %s", what)
	}
	return e
}

// ---------------------------------------------------------------------------------------------
// R2

// ---------------------------------------------------------------------------------------------
// R3

type c18Tri int

const (
	c18Unknown c18Tri = iota
	c18Empty
	c18NonEmpty
)

func (t c18Tri) String() string { return [...]string{"unknown", "empty", "non-empty"}[t] }

// c18StringClass classifies a string value as surely empty / surely non-empty / unknown.
func c18StringClass(v ssa.Value) c18Tri {
	if s, ok := constString(v); ok {
		if s == "" {
			return c18Empty
		}
		return c18NonEmpty
	}
	switch x := v.(type) {
	case *ssa.BinOp:
		if x.Op == token.ADD {
			a, b := c18StringClass(x.X), c18StringClass(x.Y)
			if a == c18NonEmpty || b == c18NonEmpty {
				return c18NonEmpty
			}
			if a == c18Empty && b == c18Empty {
				return c18Empty
			}
		}
	case *ssa.Call:
		if n := calleeName(&x.Call); n == "fmt.Sprintf" || n == "fmt.Sprint" {
			if f, ok := constString(x.Call.Args[0]); ok && f != "" && f[0] != '%' {
				return c18NonEmpty
			}
		}
	case *ssa.Phi:
		all := c18Tri(-1)
		for _, e := range x.Edges {
			c := c18StringClass(e)
			if all == -1 {
				all = c
			} else if all != c {
				return c18Unknown
			}
		}
		if all >= 0 {
			return all
		}
	}
	return c18Unknown
}

// callValue returns the call instruction as a value (nil for go/defer).
func callValue(ci ssa.CallInstruction) *ssa.Call {
	c, _ := ci.(*ssa.Call)
	return c
}

// ---------------------------------------------------------------------------------------------
// R4

// c18Ident is the identity of a list element (node or setting): the key of the element's address.
// A local copy `x := *addr` (Alloc with one store) is identified with addr.
func c18Ident(k *keyer, root ssa.Value) string {
	if a, ok := root.(*ssa.Alloc); ok {
		var sts []*ssa.Store
		for _, rr := range refs(a) {
			if st, isSt := rr.(*ssa.Store); isSt && st.Addr == ssa.Value(a) {
				sts = append(sts, st)
			}
		}
		if len(sts) == 1 {
			if ld, isLd := sts[0].Val.(*ssa.UnOp); isLd && ld.Op == token.MUL {
				return k.key(ld.X)
			}
		}
	}
	return k.key(root)
}

// c18IdentDef returns the instruction that defines (advances) the element identified by root.
func c18IdentDef(root ssa.Value) ssa.Instruction {
	if a, ok := root.(*ssa.Alloc); ok {
		for _, rr := range refs(a) {
			if st, isSt := rr.(*ssa.Store); isSt && st.Addr == ssa.Value(a) {
				return st
			}
		}
	}
	in, _ := root.(ssa.Instruction)
	return in
}

type c18Match struct {
	call      *ssa.Call
	eRoot     ssa.Value // root of the setting whose selector is used
	nRoot     ssa.Value // root of the node whose labels are matched
	byParam   bool      // nRoot is a labels parameter of the scan helper
	converter string
	errSource string // callee whose error result is the selector conversion error
}

// c18MatchInfo recognises `sel.Matches(labels.Set(N.Labels))` with sel converted from
// &E.Spec.NodeSelector.
func c18MatchDirect(v ssa.Value) (*c18Match, bool) {
	c, ok := v.(*ssa.Call)
	if !ok || !c.Call.IsInvoke() || c.Call.Method.Name() != "Matches" || len(c.Call.Args) != 1 {
		return nil, false
	}
	if c.Call.Method.Pkg() == nil || c.Call.Method.Pkg().Path() != "k8s.io/apimachinery/pkg/labels" {
		return nil, false
	}
	ex, ok := c.Call.Value.(*ssa.Extract)
	if !ok || ex.Index != 0 {
		return nil, false
	}
	conv, ok := ex.Tuple.(*ssa.Call)
	if !ok || calleeName(&conv.Call) != c18AsSelector || len(conv.Call.Args) != 1 {
		return nil, false
	}
	eRoot, ep := accessPath(conv.Call.Args[0])
	if len(ep) < 2 || ep[len(ep)-1] != "NodeSelector" || ep[len(ep)-2] != "Spec" || baseTypeName(eRoot.Type()) != c18SettingKind {
		return nil, false
	}
	lab := unwrap(c.Call.Args[0])
	var nRoot ssa.Value
	if lp, isPar := lab.(*ssa.Parameter); isPar {
		// the labels of the node are handed in (scan extracted into a helper): the caller is checked
		// to pass the labels and the name of one node
		if mt, isM := lp.Type().Underlying().(*types.Map); isM && types.Identical(mt.Elem(), types.Typ[types.String]) {
			return &c18Match{call: c, eRoot: eRoot, nRoot: lp, byParam: true, converter: calleeName(&conv.Call), errSource: calleeName(&conv.Call)}, true
		}
		return nil, false
	}
	if lc, isCall := lab.(*ssa.Call); isCall && strings.HasSuffix(calleeName(&lc.Call), ".GetLabels") {
		if lc.Call.IsInvoke() {
			nRoot = unwrap(lc.Call.Value)
		} else if len(lc.Call.Args) == 1 {
			nRoot, _ = accessPath(lc.Call.Args[0])
		}
	} else {
		root, np := accessPath(lab)
		if len(np) == 0 || np[len(np)-1] != "Labels" {
			return nil, false
		}
		nRoot = root
	}
	if nRoot == nil || baseTypeName(nRoot.Type()) != pkgCoreV1+".Node" {
		return nil, false
	}
	return &c18Match{call: c, eRoot: eRoot, nRoot: nRoot, converter: calleeName(&conv.Call), errSource: calleeName(&conv.Call)}, true
}

// c18Predicates: repository functions that are match predicates — f(setting, node) whose boolean
// result is, on every return, either the recognised Matches(selector of the setting parameter,
// labels of the node parameter) or false (next to the conversion error). Filled per run.
var c18Predicates map[*ssa.Function]*c18Pred

type c18Pred struct {
	setting, node *ssa.Parameter
	converter     string
}

// c18FindPredicates summarises the candidate helpers among fns.
func c18FindPredicates(r *Run, fns []*ssa.Function) {
	c18Predicates = map[*ssa.Function]*c18Pred{}
	for _, fn := range fns {
		if !r.Prog.IsRuleSite(fn) || len(fn.Blocks) == 0 {
			continue
		}
		res := fn.Signature.Results()
		if res.Len() == 0 || res.Len() > 2 || !types.Identical(res.At(0).Type(), types.Typ[types.Bool]) {
			continue
		}
		var pr *c18Pred
		ok, nMatch := true, 0
		var leaves func(v ssa.Value, seen map[ssa.Value]bool)
		leaves = func(v ssa.Value, seen map[ssa.Value]bool) {
			if seen[v] {
				return
			}
			seen[v] = true
			if phi, isPhi := v.(*ssa.Phi); isPhi {
				for _, e := range phi.Edges {
					leaves(e, seen)
				}
				return
			}
			if b, isC := constBool(v); isC {
				if b {
					ok = false
				}
				return
			}
			m, isM := c18MatchDirect(v)
			if !isM || m.byParam {
				ok = false
				return
			}
			sp, isSP := m.eRoot.(*ssa.Parameter)
			np, isNP := m.nRoot.(*ssa.Parameter)
			if !isSP || !isNP || (pr != nil && (pr.setting != sp || pr.node != np)) {
				ok = false
				return
			}
			pr = &c18Pred{setting: sp, node: np, converter: m.converter}
			nMatch++
		}
		for _, b := range fn.Blocks {
			if ret := returnOf(b); ret != nil {
				leaves(ret.Results[0], map[ssa.Value]bool{})
			}
		}
		if ok && nMatch > 0 && pr != nil {
			c18Predicates[fn] = pr
		}
	}
}

// c18MatchInfo recognises a match fact: the direct form, or the result of a match predicate
// applied to (setting, node).
func c18MatchInfo(v ssa.Value) (*c18Match, bool) {
	if m, ok := c18MatchDirect(v); ok {
		return m, true
	}
	var call *ssa.Call
	switch x := v.(type) {
	case *ssa.Call:
		call = x
	case *ssa.Extract:
		if x.Index == 0 {
			call, _ = x.Tuple.(*ssa.Call)
		}
	}
	if call == nil {
		return nil, false
	}
	h := staticCallee(&call.Call)
	pr := c18Predicates[h]
	if pr == nil {
		return nil, false
	}
	eRoot, ep := accessPath(call.Call.Args[paramIndex(pr.setting)])
	nRoot, np := accessPath(call.Call.Args[paramIndex(pr.node)])
	if len(ep) != 0 || len(np) != 0 || baseTypeName(eRoot.Type()) != c18SettingKind || baseTypeName(nRoot.Type()) != pkgCoreV1+".Node" {
		return nil, false
	}
	return &c18Match{call: call, eRoot: eRoot, nRoot: nRoot, converter: pr.converter, errSource: calleeName(&call.Call)}, true
}

type c18Scan struct {
	slice     ssa.Value // the slice of settings scanned
	loopE     *loopInfo
	converter string
	skips     []*Path // completing scan steps that never test the selector match
	k         *keyer
	eID       string
	pInst     *ssa.Parameter
	// scan extracted into a helper: the record map, the node's name and labels are parameters
	mapParam, nameParam, labelsParam *ssa.Parameter
}

func c18NameOfRoot(k *keyer, v ssa.Value, ident string, typ string) bool {
	v = unwrap(v)
	if c, ok := v.(*ssa.Call); ok && strings.HasSuffix(calleeName(&c.Call), ".GetName") {
		var root ssa.Value
		if c.Call.IsInvoke() {
			root = unwrap(c.Call.Value)
		} else if len(c.Call.Args) == 1 {
			root, _ = accessPath(c.Call.Args[0])
		}
		return root != nil && baseTypeName(root.Type()) == typ && c18Ident(k, root) == ident
	}
	root, p := accessPath(v)
	if len(p) == 0 || p[len(p)-1] != "Name" {
		return false
	}
	for _, f := range p[:len(p)-1] {
		if f != "ObjectMeta" {
			return false
		}
	}
	return baseTypeName(root.Type()) == typ && c18Ident(k, root) == ident
}

func c18ConflictSearch(r *Run, cf *ssa.Function) *c18Scan {
	pos := r.Prog.Pos(cf.Pos())
	fnName := shortFunc(cf)
	var pInst *ssa.Parameter
	for _, p := range cf.Params {
		if typeName(p.Type()) == c18SettingKind {
			if pInst != nil {
				r.Undecided("C18.R4", "conflict search", pos, fnName, "more than one setting parameter")
				return nil
			}
			pInst = p
		}
	}
	errIdx := cf.Signature.Results().Len() - 1
	if pInst == nil || errIdx < 0 || cf.Signature.Results().At(errIdx).Type().String() != "error" {
		r.Undecided("C18.R4", "conflict search", pos, fnName, "expected a function (setting, nodes, settings) → (…, error)")
		return nil
	}
	ff := computeFacts(cf)
	k := ff.K
	loops := naturalLoops(cf)

	// the record map
	var maps []*ssa.MakeMap
	for _, b := range cf.Blocks {
		for _, in := range b.Instrs {
			if mm, ok := in.(*ssa.MakeMap); ok {
				if mt, isM := mm.Type().Underlying().(*types.Map); isM && types.Identical(mt.Key(), types.Typ[types.String]) {
					maps = append(maps, mm)
				}
			}
		}
	}
	var M ssa.Value
	var mapParam *ssa.Parameter
	if len(maps) == 1 {
		M = maps[0]
	} else if len(maps) == 0 {
		for _, p := range cf.Params {
			if mt, isM := p.Type().Underlying().(*types.Map); isM && types.Identical(mt.Key(), types.Typ[types.String]) && types.Identical(mt.Elem(), types.Typ[types.String]) {
				if _, named := p.Type().(*types.Named); named {
					continue // labels.Set and the like are not the record
				}
				if mapParam != nil {
					mapParam = nil
					break
				}
				mapParam = p
			}
		}
		if mapParam != nil {
			M = mapParam
		}
	}
	if M == nil {
		r.Undecided("C18.R4", "record of matched nodes", pos, fnName, fmt.Sprintf("expected one map keyed by node name (local, or a parameter of the scan helper) recording the settings already matched; found %d local maps (other data structures are not analysed)", len(maps)))
		return nil
	}
	var lookups []*ssa.Lookup
	var updates []*ssa.MapUpdate
	for _, rr := range refs(M) {
		switch x := rr.(type) {
		case *ssa.Lookup:
			if x.X == M {
				lookups = append(lookups, x)
			}
		case *ssa.MapUpdate:
			if x.Map == M {
				updates = append(updates, x)
			}
		case *ssa.DebugRef:
		default:
			r.Undecided("C18.R4", "record of matched nodes", r.Prog.Pos(instrPos(rr)), fnName, "the record map is used by "+rr.String()+" (only look-ups and updates are analysed)")
			return nil
		}
	}
	if len(lookups) != 1 {
		r.Undecided("C18.R4", "record of matched nodes", pos, fnName, fmt.Sprintf("expected one look-up of the record map, found %d", len(lookups)))
		return nil
	}
	L := lookups[0]

	// the match that holds where the look-up is made
	var mi *c18Match
	for _, f := range ff.At(L.Block()) {
		if !f.Pol {
			continue
		}
		if m, ok := c18MatchInfo(f.V); ok {
			mi = m
		}
	}
	if mi == nil {
		r.Check("C18.R4", "look-up under match", r.Prog.Pos(instrPos(L)), fnName, "the record is consulted only for a node the scanned setting's selector matches", false, "must-facts at the look-up: "+ff.At(L.Block()).String())
		return nil
	}
	eID, nID := c18Ident(k, mi.eRoot), c18Ident(k, mi.nRoot)
	isMatch := func(v ssa.Value, _ string) bool {
		m, ok := c18MatchInfo(v)
		return ok && c18Ident(k, m.eRoot) == eID && c18Ident(k, m.nRoot) == nID
	}
	isNameEq := func(v ssa.Value, _ string) bool {
		return isEqCompare(v, func(a ssa.Value) bool { return c18NameOfRoot(k, a, eID, c18SettingKind) }, nameOf(isParam(pInst)))
	}
	// found idiom
	commaOk := L.CommaOk
	isFound := func(v ssa.Value, _ string) bool { // fact "an entry exists" with polarity handled by caller
		if commaOk {
			ex, ok := v.(*ssa.Extract)
			return ok && ex.Tuple == ssa.Value(L) && ex.Index == 1
		}
		return false
	}
	isEmptyCmp := func(v ssa.Value, _ string) bool { // value == "" (found is its negation)
		val := func(a ssa.Value) bool {
			if commaOk {
				ex, ok := a.(*ssa.Extract)
				return ok && ex.Tuple == ssa.Value(L) && ex.Index == 0
			}
			return a == ssa.Value(L)
		}
		return isEqCompare(v, val, isConstStringVal(""))
	}
	foundTrue := func(has func(bool, func(ssa.Value, string) bool) bool) bool {
		return has(true, isFound) || has(false, isEmptyCmp)
	}
	foundFalse := func(has func(bool, func(ssa.Value, string) bool) bool) bool {
		return has(false, isFound) || has(true, isEmptyCmp)
	}
	emptyIdiom := false // `!= ""` idiom: writes of "" are clears
	for _, b := range cf.Blocks {
		for _, f := range ff.K.edgeFactsAll(b) {
			if isEmptyCmp(f.V, f.Key) {
				emptyIdiom = true
			}
		}
	}
	usesCommaOk := false
	if commaOk {
		for _, rr := range refs(L) {
			if ex, ok := rr.(*ssa.Extract); ok && ex.Index == 1 && len(refs(ex)) > 0 {
				usesCommaOk = true
			}
		}
	}

	var nameParam *ssa.Parameter
	keyIsNode := func(v ssa.Value) bool {
		if mi.byParam {
			// the node is given by (name, labels) parameters: the key must be the one string
			// parameter used as the node's name; the pairing is checked at the call site
			kp, isP := unwrap(v).(*ssa.Parameter)
			if !isP || !types.Identical(kp.Type().Underlying(), types.Typ[types.String]) {
				return false
			}
			if nameParam == nil {
				nameParam = kp
			}
			return nameParam == kp
		}
		return c18NameOfRoot(k, v, nID, pkgCoreV1+".Node")
	}
	r.Check("C18.R4", "look-up key", r.Prog.Pos(instrPos(L)), fnName, "the record is looked up under the name of the node whose labels were matched", keyIsNode(L.Index), "key: "+pathString(L.Index))

	eDef, nDef := c18IdentDef(mi.eRoot), c18IdentDef(mi.nRoot)
	var loopE, loopN *loopInfo
	if eDef != nil {
		loopE = innermostLoop(loops, eDef.Block())
	}
	if nDef != nil {
		loopN = innermostLoop(loops, nDef.Block())
	}
	if loopE == nil {
		r.Undecided("C18.R4", "scan loop", pos, fnName, "the scanned setting is not the element of a loop")
		return nil
	}

	// leaving the loops: every node and, up to the reconciled setting, every setting is examined
	c18LoopExits(r, cf, ff, loopE, errIdx, "scan loop over the settings",
		"the scan over the sorted settings is left (other than by exhaustion or an error return) only after the step of the reconciled setting: settings sorted after it cannot conflict with it, the ones before it must all be examined",
		func(fs factSet) bool { return fs.any(true, isNameEq) })
	if loopN != nil {
		c18LoopExits(r, cf, ff, loopN, errIdx, "loop over the nodes",
			"the loop over the nodes is left only by exhaustion or by returning an error: a conflict on any node the reconciled setting selects must be found",
			func(factSet) bool { return false })
	}

	// record updates
	var recs []*ssa.MapUpdate
	for _, u := range updates {
		upos := r.Prog.Pos(instrPos(u))
		isRec := keyIsNode(u.Key) && c18NameOfRoot(k, u.Value, eID, c18SettingKind)
		if isRec {
			recs = append(recs, u)
			under := ff.Holds(u.Block(), true, isMatch)
			r.Check("C18.R4", "record under match", upos, fnName, "a setting is recorded for a node only when its selector matches that node", under, "must-facts: "+ff.At(u.Block()).String())
			// O1: not visible to the look-up of the same scan step
			same := reachesAvoiding(u, L, loopE.Header)
			r.Check("C18.R4", "record after look-up", upos, fnName, "the match recorded in a scan step cannot be seen by the look-up of the same step (a setting must not conflict with itself)", !same, "")
			continue
		}
		// other writes
		if s, isC := constString(u.Value); isC && s == "" && emptyIdiom && !usesCommaOk {
			o := r.Check("C18.R4", "clearing write", upos, fnName, "writing \"\" clears an entry (look-up tests != \"\")", true, "")
			o.Trivial = true
			continue
		}
		if !keyIsNode(u.Key) || (loopN == nil && !mi.byParam) {
			r.Undecided("C18.R4", "other write to the record", upos, fnName, "a write to the record that is neither the match record nor keyed by the current node's name")
			continue
		}
		var avoid *ssa.BasicBlock
		if loopN != nil {
			avoid = loopN.Header
		}
		leak := reachesAvoiding(u, L, avoid)
		detail := "reaches the look-up only after the next node is taken"
		if leak {
			detail = "the entry written here would be found by the look-up while the same node is still being scanned"
		}
		r.Check("C18.R4", "other write to the record", upos, fnName, "a write that is not a match record (e.g. the reset after a node's scan) cannot reach the look-up for the same node", !leak, detail)
	}
	if len(recs) == 0 {
		r.Check("C18.R4", "record under match", pos, fnName, "matching settings are recorded under the node's name", false, "no update of the form record[node.Name] = setting.Name")
	}

	// return paths
	paths, _, ok := funcPaths(cf, 5000)
	r.paths += len(paths)
	if !ok {
		r.Undecided("C18.R4", "return table", pos, fnName, "path cap exceeded")
		return nil
	}
	nConflict, nSelErr := 0, 0
	for _, p := range paths {
		ret := returnOf(p.Blocks[len(p.Blocks)-1])
		res := unwrap(p.Resolve(ret.Results[errIdx]))
		if isNilConst(res) {
			continue
		}
		rpos := r.Prog.Pos(instrPos(ret))
		if ex, isEx := res.(*ssa.Extract); isEx {
			if c, isC := ex.Tuple.(*ssa.Call); isC && calleeName(&c.Call) == mi.errSource {
				nSelErr++
				o := r.Check("C18.R4", "selector error returned", rpos, fnName, "an unusable selector ends the search with an error", true, "")
				o.Trivial = true
				continue
			}
		}
		nConflict++
		m, ne, fd := p.Has(true, isMatch), p.Has(true, isNameEq), foundTrue(p.Has)
		r.Check("C18.R4", "conflict return on path ["+c18Flags(m, ne, fd)+"]", rpos, fnName,
			"a conflict is reported only when the scanned setting matches the node, is the reconciled setting, and an earlier scanned setting is recorded for the node", m && ne && fd, "path facts: "+shortFacts(p))
	}
	if nConflict == 0 {
		r.Check("C18.R4", "conflict return", pos, fnName, "the search has a path returning a conflict error", false, "no return of a non-nil error other than the selector conversion error")
	}
	if nSelErr == 0 {
		r.Check("C18.R4", "selector error returned", pos, fnName, "an unusable selector ends the search with an error (the setting ends in error)", false, "the conversion error is never returned")
	}

	// scan steps: paths through one iteration of the scan loop
	nSteps := 0
	var skips []*Path
	for _, s := range loopE.Header.Succs {
		if !loopE.Blocks[s] {
			continue
		}
		steps, okS := enumPaths(cf, k, s, func(b *ssa.BasicBlock) bool { return b == loopE.Header }, func(b *ssa.BasicBlock) bool { return !loopE.Blocks[b] }, 5000)
		if !okS {
			r.Undecided("C18.R4", "scan steps", pos, fnName, "path cap exceeded")
			return nil
		}
		r.paths += len(steps)
		for _, p := range steps {
			if len(p.Blocks) < 2 {
				continue
			}
			m, ne, fd, nfd := p.Has(true, isMatch), p.Has(true, isNameEq), foundTrue(p.Has), foundFalse(p.Has)
			hasRec := false
			for _, u := range recs {
				if p.Contains(u.Block()) {
					hasRec = true
				}
			}
			if !m {
				if !p.Has(false, isMatch) {
					skips = append(skips, p)
				}
				continue
			}
			nSteps++
			spos := r.Prog.Pos(instrPos(p.Blocks[0].Instrs[0]))
			construct := "scan step [" + c18Flags(m, ne, fd) + fmt.Sprintf(" absent=%v", nfd) + "]"
			switch {
			case ne && fd:
				r.Check("C18.R4", construct, spos, fnName, "a step in which the reconciled setting matches a node already recorded must report the conflict", false, "the step continues the scan instead of returning")
			case ne:
				o := r.Check("C18.R4", construct, spos, fnName, "first match of the reconciled setting: no conflict", true, fmt.Sprintf("recorded=%v", hasRec))
				o.Trivial = true
			default:
				detail := "record update on the path"
				if !hasRec {
					detail = "the step completes without the record update"
				}
				r.Check("C18.R4", construct, spos, fnName, "every matching setting other than the reconciled one is recorded for the node", hasRec, detail)
			}
		}
	}
	if nSteps == 0 {
		r.Check("C18.R4", "scan steps", pos, fnName, "the scan loop has a completing step under a match", false, "none found")
	}
	sl, _ := mi.eRoot.(*ssa.IndexAddr)
	if sl == nil {
		r.Undecided("C18.R1", "scanned slice", pos, fnName, "the scanned setting is not an element of a slice: "+mi.eRoot.String())
		return nil
	}
	sc := &c18Scan{slice: sl.X, loopE: loopE, converter: mi.converter, skips: skips, k: k, eID: eID, pInst: pInst}
	if mi.byParam {
		sc.labelsParam, _ = mi.nRoot.(*ssa.Parameter)
		sc.nameParam = nameParam
		sc.mapParam = mapParam
		if sc.nameParam == nil || sc.mapParam == nil {
			r.Undecided("C18.R4", "scan helper", pos, fnName, "the node's labels are a parameter but the record map / the node's name are not parameters of the same helper")
			return nil
		}
	} else if mapParam != nil {
		r.Undecided("C18.R4", "scan helper", pos, fnName, "the record map is a parameter while the node is local")
		return nil
	}
	return sc
}

func c18Flags(m, ne, fd bool) string {
	return fmt.Sprintf("match=%v reconciled=%v recorded=%v", m, ne, fd)
}

// edgeFactsAll returns the facts of both out-edges of a block ending in an If.
func (k *keyer) edgeFactsAll(b *ssa.BasicBlock) []Fact {
	var out []Fact
	for _, s := range b.Succs {
		out = append(out, k.edgeFacts(b, s)...)
	}
	return out
}

// ---------------------------------------------------------------------------------------------
// R1

type c18World struct{ t, n int } // t: -1 earlier, 0 equal, +1 later (element i vs j); n: -1 / +1

func c18Order(r *Run, cf *ssa.Function, scan *c18Scan) {
	less, sortCall := c18FindSort(r, cf, scan.slice, scan.loopE, 0)
	dir := 0
	if less != nil {
		_ = sortCall
		dir = c18LessTable(r, less)
	}
	c18Skips(r, cf, scan, dir)
}

// c18Skips judges the scan steps that go on to the next setting without testing whether the
// scanned setting matches the node. Such a skip loses a record (and so a conflict) unless the
// skipped setting is strictly after the reconciled one in the conflict order: the only skip
// accepted is one taken under a strict creation-time comparison in the comparator's direction
// (dir: +1 later-created first, -1 earlier-created first, 0 unknown / order not by time).
func c18Skips(r *Run, cf *ssa.Function, scan *c18Scan, dir int) {
	fnName := shortFunc(cf)
	k := scan.k
	side := func(v ssa.Value) int { // 0 scanned setting, 1 reconciled setting, -1 other
		root, p := accessPath(v)
		n := len(p)
		if !(n >= 1 && p[n-1] == "CreationTimestamp" || n >= 2 && p[n-2] == "CreationTimestamp" && p[n-1] == "Time") {
			return -1
		}
		if root == ssa.Value(scan.pInst) {
			return 1
		}
		if baseTypeName(root.Type()) == c18SettingKind && c18Ident(k, root) == scan.eID {
			return 0
		}
		return -1
	}
	// rel: +1 the scanned setting is strictly later-created than the reconciled one, -1 strictly earlier
	strictRel := func(p *Path) int {
		rel := 0
		for _, f := range p.Facts {
			c, ok := f.V.(*ssa.Call)
			if !ok || !f.Pol || len(c.Call.Args) != 2 {
				continue
			}
			a, b := side(c.Call.Args[0]), side(c.Call.Args[1])
			if a < 0 || b < 0 || a == b {
				continue
			}
			before := 0 // +1: arg0 before arg1
			switch calleeName(&c.Call) {
			case "(" + pkgMetaV1 + ".Time).Before", "(time.Time).Before":
				before = 1
			case "(time.Time).After":
				before = -1
			default:
				continue
			}
			// a before b (before=1): if a is the scanned setting it is earlier
			if a == 0 {
				rel = -before
			} else {
				rel = before
			}
		}
		return rel
	}
	seen := map[string]bool{}
	for _, p := range scan.skips {
		rel := strictRel(p)
		ok := dir != 0 && rel != 0 && rel == -dir // later-first order: an earlier-created setting comes after the reconciled one
		construct := "scan step without match test [" + map[int]string{0: "no strict creation-time fact", 1: "scanned created after reconciled", -1: "scanned created before reconciled"}[rel] + "]"
		if seen[construct] {
			continue
		}
		seen[construct] = true
		detail := "path facts: " + shortFacts(p)
		if !ok {
			detail = "the step goes on to the next setting without testing the selector and without a strict creation-time comparison placing the skipped setting after the reconciled one in the conflict order (with equal creation times two settings would skip each other and both stay valid); " + detail
		}
		r.Check("C18.R4", construct, r.Prog.Pos(instrPos(p.Blocks[0].Instrs[0])), fnName,
			"every scan step tests whether the scanned setting matches the node (then records it or reports the conflict); a setting may be skipped untested only if it is strictly after the reconciled one in the conflict order", ok, detail)
	}
}

// c18FindSort finds the sort call applied to slice value s in fn before the use at loop (or before
// every return when loop is nil) and returns the comparator.
func c18FindSort(r *Run, fn *ssa.Function, s ssa.Value, loop *loopInfo, depth int) (*ssa.Function, ssa.CallInstruction) {
	pos := r.Prog.Pos(fn.Pos())
	k := newKeyer(fn)
	sk := k.key(s)
	var found ssa.CallInstruction
	var less *ssa.Function
	for _, ci := range callsIn(fn) {
		c := ci.Common()
		name := calleeName(c)
		switch name {
		case "sort.Sort", "sort.Stable":
			mi, ok := c.Args[0].(*ssa.MakeInterface)
			if !ok || k.key(mi.X) != sk {
				continue
			}
			named, isN := mi.X.Type().(*types.Named)
			if !isN || named.Obj().Pkg() == nil {
				continue
			}
			found, less = ci, r.Prog.declaredMethod(named.Obj().Pkg().Path(), named.Obj().Name(), "Less")
		case "sort.Slice", "sort.SliceStable":
			mi, ok := c.Args[0].(*ssa.MakeInterface)
			if !ok || k.key(mi.X) != sk {
				continue
			}
			if mc, isMC := c.Args[1].(*ssa.MakeClosure); isMC {
				found, less = ci, mc.Fn.(*ssa.Function)
			} else if f, isF := c.Args[1].(*ssa.Function); isF {
				found, less = ci, f
			}
		case "slices.SortFunc", "slices.SortStableFunc":
			if k.key(c.Args[0]) == sk {
				r.Undecided("C18.R1", "sort before scan", r.Prog.Pos(ci.Pos()), shortFunc(fn), "three-way comparators (slices.SortFunc) are not analysed")
				return nil, nil
			}
		}
	}
	if found == nil {
		// one level: the slice is the result of a repository helper that sorts before returning
		if depth == 0 {
			for _, o := range origins(s) {
				var c *ssa.Call
				switch x := o.(type) {
				case *ssa.Call:
					c = x
				case *ssa.Extract:
					c, _ = x.Tuple.(*ssa.Call)
				}
				if c == nil {
					continue
				}
				if cal := staticCallee(&c.Call); cal != nil && r.Prog.IsRuleSite(cal) {
					for _, b := range cal.Blocks {
						if ret := returnOf(b); ret != nil && len(ret.Results) > 0 {
							if l, sc := c18FindSortBeforeReturn(r, cal, ret); l != nil {
								return l, sc
							}
							return nil, nil
						}
					}
				}
			}
		}
		r.Check("C18.R1", "sort before scan", pos, shortFunc(fn), "the scanned settings are sorted with the conflict order before the scan (list order is not defined)", false, "no sort.Sort/sort.Stable/sort.Slice call on the scanned slice")
		return nil, nil
	}
	if less == nil {
		r.Undecided("C18.R1", "sort before scan", r.Prog.Pos(found.Pos()), shortFunc(fn), "comparator of the sort call not found")
		return nil, nil
	}
	dom := true
	if loop != nil {
		dom = found.Block().Dominates(loop.Header) && !loop.Blocks[found.Block()]
	}
	// no element is overwritten and the scan uses the very slice value that was sorted
	elemStore := false
	for _, rr := range refs(s) {
		if ia, ok := rr.(*ssa.IndexAddr); ok {
			for _, r2 := range refs(ia) {
				if st, isSt := r2.(*ssa.Store); isSt && st.Addr == ssa.Value(ia) {
					elemStore = true
				}
			}
		}
	}
	r.Check("C18.R1", "sort before scan", r.Prog.Pos(found.Pos()), shortFunc(fn),
		"the sort of the scanned slice dominates the scan loop and no element is replaced afterwards", dom && !elemStore,
		fmt.Sprintf("sorted with %s; dominates scan=%v; element stores=%v", shortFunc(less), dom, elemStore))
	if !dom || elemStore {
		return nil, nil
	}
	return less, found
}

func c18FindSortBeforeReturn(r *Run, fn *ssa.Function, _ *ssa.Return) (*ssa.Function, ssa.CallInstruction) {
	// every return must return one slice value that was sorted in a block dominating the return
	var less *ssa.Function
	var sc ssa.CallInstruction
	for _, b := range fn.Blocks {
		ret := returnOf(b)
		if ret == nil || len(ret.Results) == 0 {
			continue
		}
		v := ret.Results[0]
		if isNilConst(unwrap(v)) {
			continue
		}
		l, c := c18FindSort(r, fn, v, nil, 1)
		if l == nil {
			return nil, nil
		}
		if !c.Block().Dominates(b) {
			r.Check("C18.R1", "sort before scan", r.Prog.Pos(c.Pos()), shortFunc(fn), "the sort dominates the return of the sorted slice", false, "")
			return nil, nil
		}
		less, sc = l, c
	}
	return less, sc
}

// c18LessTable evaluates the comparator over the six worlds and checks its form.
func c18LessTable(r *Run, less *ssa.Function) (dir int) {
	pos := r.Prog.Pos(less.Pos())
	fnName := shortFunc(less)
	var ints []*ssa.Parameter
	for _, p := range less.Params {
		if b, ok := p.Type().Underlying().(*types.Basic); ok && b.Kind() == types.Int {
			ints = append(ints, p)
		}
	}
	if len(ints) != 2 {
		r.Undecided("C18.R1", "conflict order", pos, fnName, "comparator does not have the (i, j int) form")
		return
	}
	pi, pj := ints[0], ints[1]
	idxOf := func(v ssa.Value) int {
		root, _ := accessPath(v)
		ia, ok := root.(*ssa.IndexAddr)
		if !ok {
			return -1
		}
		switch unwrap(ia.Index) {
		case ssa.Value(pi):
			return 0
		case ssa.Value(pj):
			return 1
		}
		return -1
	}
	tsIdx := func(v ssa.Value) int {
		_, p := accessPath(v)
		n := len(p)
		if n >= 1 && p[n-1] == "CreationTimestamp" || n >= 2 && p[n-2] == "CreationTimestamp" && p[n-1] == "Time" {
			return idxOf(v)
		}
		return -1
	}
	nameIdx := func(v ssa.Value) int {
		v = unwrap(v)
		if c, ok := v.(*ssa.Call); ok && strings.HasSuffix(calleeName(&c.Call), ".GetName") && !c.Call.IsInvoke() && len(c.Call.Args) == 1 {
			return idxOf(c.Call.Args[0])
		}
		_, p := accessPath(v)
		if len(p) >= 1 && p[len(p)-1] == "Name" && (len(p) == 1 || p[len(p)-2] == "ObjectMeta") {
			return idxOf(v)
		}
		return -1
	}
	paths, _, ok := funcPaths(less, 5000)
	r.paths += len(paths)
	if !ok {
		r.Undecided("C18.R1", "conflict order", pos, fnName, "path cap exceeded")
		return
	}
	var unknown string
	var eval func(p *Path, v ssa.Value, w c18World, d int) (bool, bool)
	eval = func(p *Path, v ssa.Value, w c18World, d int) (bool, bool) {
		if d > 16 {
			return false, false
		}
		v = p.Resolve(v)
		if b, ok := constBool(v); ok {
			return b, true
		}
		switch x := v.(type) {
		case *ssa.UnOp:
			if x.Op == token.NOT {
				b, ok := eval(p, x.X, w, d+1)
				return !b, ok
			}
		case *ssa.Call:
			name := calleeName(&x.Call)
			var a, b int = -1, -1
			if len(x.Call.Args) == 2 {
				a, b = tsIdx(x.Call.Args[0]), tsIdx(x.Call.Args[1])
			}
			if a >= 0 && b >= 0 {
				rel := w.t // relation of element i to j
				if a == b {
					rel = 0
				} else if a == 1 {
					rel = -rel // relation of a to b
				}
				switch name {
				case "(" + pkgMetaV1 + ".Time).Equal", "(time.Time).Equal":
					return rel == 0, true
				case "(" + pkgMetaV1 + ".Time).Before", "(time.Time).Before":
					return rel < 0, true
				case "(time.Time).After":
					return rel > 0, true
				}
			}
		case *ssa.BinOp:
			a, b := nameIdx(x.X), nameIdx(x.Y)
			if a >= 0 && b >= 0 {
				rel := w.n
				if a == b {
					rel = 0
				} else if a == 1 {
					rel = -rel
				}
				switch x.Op {
				case token.LSS:
					return rel < 0, true
				case token.GTR:
					return rel > 0, true
				case token.LEQ:
					return rel <= 0, true
				case token.GEQ:
					return rel >= 0, true
				case token.EQL:
					return rel == 0, true
				case token.NEQ:
					return rel != 0, true
				}
			}
		}
		unknown = v.String()
		return false, false
	}
	worlds := []c18World{{-1, -1}, {-1, 1}, {0, -1}, {0, 1}, {1, -1}, {1, 1}}
	res := map[c18World]bool{}
	for _, w := range worlds {
		matched := 0
		for _, p := range paths {
			consistent := true
			for _, br := range pathBranches(p) {
				b, ok := eval(p, br.Cond, w, 0)
				if !ok {
					r.Undecided("C18.R1", "conflict order", pos, fnName, "a condition of the comparator is not a comparison of creation timestamps or names of the two elements: "+unknown)
					return
				}
				if b != br.Pol {
					consistent = false
					break
				}
			}
			if !consistent {
				continue
			}
			ret := returnOf(p.Blocks[len(p.Blocks)-1])
			b, ok := eval(p, ret.Results[0], w, 0)
			if !ok {
				r.Undecided("C18.R1", "conflict order", pos, fnName, "the comparator's result is not a comparison of creation timestamps or names of the two elements: "+unknown)
				return
			}
			if matched > 0 && res[w] != b {
				r.Undecided("C18.R1", "conflict order", pos, fnName, "two paths give different results in one world")
				return
			}
			res[w] = b
			matched++
		}
		if matched == 0 {
			r.Undecided("C18.R1", "conflict order", pos, fnName, fmt.Sprintf("no path of the comparator covers the case time=%d name=%d", w.t, w.n))
			return
		}
	}
	tname := map[int]string{-1: "earlier", 0: "equal", 1: "later"}
	nname := map[int]string{-1: "smaller", 1: "larger"}
	var rows []string
	for _, w := range worlds {
		rows = append(rows, fmt.Sprintf("time %s/name %s→%v", tname[w.t], nname[w.n], res[w]))
	}
	table := strings.Join(rows, "; ")
	nameOnly := res[c18World{-1, -1}] == res[c18World{0, -1}] && res[c18World{0, -1}] == res[c18World{1, -1}] &&
		res[c18World{-1, 1}] == res[c18World{0, 1}] && res[c18World{0, 1}] == res[c18World{1, 1}] &&
		res[c18World{0, -1}] != res[c18World{0, 1}]
	timeFirst := res[c18World{-1, -1}] == res[c18World{-1, 1}] && res[c18World{1, -1}] == res[c18World{1, 1}] && res[c18World{-1, -1}] != res[c18World{1, -1}]
	tie := res[c18World{0, -1}] != res[c18World{0, 1}]
	if timeFirst && tie && !nameOnly {
		if res[c18World{1, -1}] {
			dir = 1 // element created later sorts first
		} else {
			dir = -1
		}
	}
	r.Check("C18.R1", "conflict order: different creation times", pos, fnName,
		"when creation times differ the order is decided by them alone and Less(i,j) ≠ Less(j,i) (or the order is by name alone)", timeFirst || nameOnly, table)
	r.Check("C18.R1", "conflict order: equal creation times", pos, fnName,
		"when creation times are equal the order is decided by a strict comparison of the (distinct) names: Less(i,j) ≠ Less(j,i)", tie, table)
	form := "creation time, then name"
	if nameOnly {
		form = "name only"
	}
	if (timeFirst || nameOnly) && tie {
		o := r.Check("C18.R1", "conflict order: form", pos, fnName, "lexicographic product of strict total orders is a strict total order", true, form)
		o.Trivial = true
	}
	return dir
}

// ---------------------------------------------------------------------------------------------
// R5

func c18Consumer(r *Run, converter string) {
	validC, _ := r.Prog.constStr(pkgAPI, "ExtendedDaemonsetSettingStatusValid")
	// stores into NodeItem.ExtendedDaemonsetSetting
	type attach struct {
		fn   *ssa.Function
		val  ssa.Value
		node ssa.Value
		at   ssa.Instruction
	}
	var sites []attach
	nStores := 0
	fns := r.Prog.RepoFuncs()
	all := map[*ssa.Function]bool{}
	for _, f := range fns {
		all[f] = true
	}
	isItemField := func(fa *ssa.FieldAddr, name string) bool {
		return fieldName(fa) == name && typeName(fa.X.Type()) == pkgStrategy+".NodeItem"
	}
	for _, fn := range fns {
		for _, b := range fn.Blocks {
			for _, in := range b.Instrs {
				st, ok := in.(*ssa.Store)
				if !ok {
					continue
				}
				fa, ok := st.Addr.(*ssa.FieldAddr)
				if !ok || !isItemField(fa, "ExtendedDaemonsetSetting") {
					continue
				}
				nStores++
				// the node stored into the same item
				var nodeVal ssa.Value
				for _, rr := range refs(fa.X) {
					if fa2, isFA := rr.(*ssa.FieldAddr); isFA && isItemField(fa2, "Node") {
						for _, r2 := range refs(fa2) {
							if st2, isSt := r2.(*ssa.Store); isSt && st2.Addr == ssa.Value(fa2) {
								nodeVal = st2.Val
							}
						}
					}
				}
				par, isPar := st.Val.(*ssa.Parameter)
				npar, isNPar := nodeVal.(*ssa.Parameter)
				if isPar && isNPar {
					for _, c := range callSitesOf(fn, all) {
						sites = append(sites, attach{fn: c.Parent(), val: c.Common().Args[paramIndex(par)], node: c.Common().Args[paramIndex(npar)], at: c})
					}
					continue
				}
				if nodeVal == nil {
					r.Undecided("C18.R5", "setting attached to a node item", r.Prog.Pos(instrPos(st)), shortFunc(fn), "the node of the item is not stored next to the setting")
					continue
				}
				sites = append(sites, attach{fn: fn, val: st.Val, node: nodeVal, at: st})
			}
		}
	}
	if nStores == 0 {
		r.Fatal("no store into strategy.NodeItem.ExtendedDaemonsetSetting found")
		return
	}
	attachCalls := map[ssa.Instruction]bool{}
	scanned := map[ssa.Value]*ssa.Function{}
	type leaf struct {
		v     ssa.Value
		facts factSet
	}
	// sel checks that every non-nil value val can hold where it is used (block use of fn) was
	// selected under valid ∧ matches for the node accepted by nodeOK; a value produced by a
	// repository helper is followed into the helper's returns (its node and slice parameters are
	// mapped back to the call's arguments).
	var sel func(fn *ssa.Function, val ssa.Value, use *ssa.BasicBlock, at ssa.Instruction, nodeOK func(k *keyer, nRoot ssa.Value) bool, sliceOut func(v ssa.Value, in *ssa.Function), depth int) int
	sel = func(fn *ssa.Function, val ssa.Value, use *ssa.BasicBlock, at ssa.Instruction, nodeOK func(k *keyer, nRoot ssa.Value) bool, sliceOut func(v ssa.Value, in *ssa.Function), depth int) int {
		ff := computeFacts(fn)
		k := ff.K
		var leaves []leaf
		seen := map[ssa.Value]bool{}
		// A phi at the header of a loop that encloses the use merges, on its back edges, the value of
		// the previous iteration (another node): such a value was not selected for this node.
		headers := enclosingLoopHeaders(fn, use)
		carried := ""
		var walk func(v ssa.Value, facts factSet)
		walk = func(v ssa.Value, facts factSet) {
			if phi, ok := v.(*ssa.Phi); ok {
				if seen[v] {
					return
				}
				seen[v] = true
				for i, e := range phi.Edges {
					pred := phi.Block().Preds[i]
					if headers[phi.Block()] && phi.Block().Dominates(pred) {
						if e != ssa.Value(phi) && !isNilConst(unwrap(e)) {
							carried = "variable " + phi.Comment + " is merged at the header of a loop around the attach site with its value from the previous iteration"
						}
						continue
					}
					walk(e, ff.FactsAtEdge(pred, phi.Block()))
				}
				return
			}
			leaves = append(leaves, leaf{v, facts})
		}
		walk(val, ff.At(use))
		pos := r.Prog.Pos(instrPos(at))
		r.Check("C18.R5", "setting selected in this iteration", pos, shortFunc(fn),
			"the setting attached to a node item is selected for this node in this iteration of the enclosing loops (not carried over from the previous node)", carried == "", carried)
		nonNil := 0
		for _, l := range leaves {
			if isNilConst(unwrap(l.v)) {
				continue
			}
			nonNil++
			// produced by a repository helper: follow its returns
			var hc *ssa.Call
			hidx := 0
			switch y := unwrap(l.v).(type) {
			case *ssa.Call:
				hc = y
			case *ssa.Extract:
				hc, _ = y.Tuple.(*ssa.Call)
				hidx = y.Index
			}
			if hc != nil {
				h := staticCallee(&hc.Call)
				if h == nil || !r.Prog.IsRuleSite(h) || depth >= 2 {
					r.Undecided("C18.R5", "setting attached to a node item", pos, shortFunc(fn), "attached value is produced by a call the rule does not follow: "+hc.String())
					continue
				}
				argOf := func(v ssa.Value) ssa.Value {
					if p, ok := v.(*ssa.Parameter); ok && p.Parent() == h {
						return hc.Call.Args[paramIndex(p)]
					}
					return nil
				}
				for _, b := range h.Blocks {
					ret := returnOf(b)
					if ret == nil || hidx >= len(ret.Results) {
						continue
					}
					sel(h, ret.Results[hidx], b, ret,
						func(_ *keyer, nRoot ssa.Value) bool {
							a := argOf(nRoot)
							return a != nil && nodeOK(k, a)
						},
						func(v ssa.Value, in *ssa.Function) {
							if a := argOf(v); a != nil {
								sliceOut(a, fn)
							} else {
								sliceOut(v, in)
							}
						}, depth+1)
				}
				continue
			}
			root, pth := accessPath(l.v)
			if len(pth) != 0 || baseTypeName(root.Type()) != c18SettingKind {
				r.Undecided("C18.R5", "setting attached to a node item", pos, shortFunc(fn), "attached value is not an element of the scanned settings: "+l.v.String())
				continue
			}
			if _, isPar := root.(*ssa.Parameter); isPar {
				r.Undecided("C18.R5", "setting attached to a node item", pos, shortFunc(fn), "attached setting is a parameter; the guard is not visible in this function")
				continue
			}
			eID := c18Ident(k, root)
			valid := l.facts.any(true, func(v ssa.Value, _ string) bool {
				return isEqCompare(v, func(a ssa.Value) bool {
					ar, ap := accessPath(a)
					return len(ap) >= 2 && ap[len(ap)-1] == "Status" && ap[len(ap)-2] == "Status" && c18Ident(k, ar) == eID
				}, isConstStringVal(validC))
			})
			conv := ""
			matches := l.facts.any(true, func(v ssa.Value, _ string) bool {
				m, ok := c18MatchInfo(v)
				if ok && c18Ident(k, m.eRoot) == eID && nodeOK(k, m.nRoot) {
					conv = m.converter
					return true
				}
				return false
			})
			r.Check("C18.R5", "attach only valid settings", pos, shortFunc(fn), "a setting is attached to a node item only under Status.Status == "+validC+" of that setting", valid, "facts where the value is selected: "+l.facts.String())
			r.Check("C18.R5", "attach only matching settings", pos, shortFunc(fn), "a setting is attached only when its own node selector matches the labels of the node of the same item", matches, "facts where the value is selected: "+l.facts.String())
			if matches && converter != "" {
				r.Check("C18.R5", "same selector conversion as the conflict search", pos, shortFunc(fn), "consumer and conflict search convert the node selector with the same function", conv == converter, conv+" vs "+converter)
			}
			if ia, isIA := root.(*ssa.IndexAddr); isIA {
				sliceOut(ia.X, fn)
			} else {
				r.Undecided("C18.R5", "scanned settings", pos, shortFunc(fn), "attached setting is not an element of a slice")
			}
		}
		return nonNil
	}
	for _, s := range sites {
		attachCalls[s.at] = true
		s := s
		nodeKeyer := computeFacts(s.fn).K
		nodeID := c18Ident(nodeKeyer, s.node)
		n := sel(s.fn, s.val, s.at.Block(), s.at,
			func(k *keyer, nRoot ssa.Value) bool { return c18Ident(nodeKeyer, nRoot) == nodeID },
			func(v ssa.Value, in *ssa.Function) { scanned[v] = in }, 0)
		if n == 0 {
			o := r.Check("C18.R5", "setting attached to a node item", r.Prog.Pos(instrPos(s.at)), shortFunc(s.fn), "no setting attached here", true, "")
			o.Trivial = true
		}
	}
	// reference / namespace filter of the scanned slices
	var svals []ssa.Value
	for v := range scanned {
		svals = append(svals, v)
	}
	sort.Slice(svals, func(i, j int) bool { return svals[i].Pos() < svals[j].Pos() })
	for _, sv := range svals {
		c18ReferenceFilter(r, scanned[sv], sv)
	}
	// settings reach consumers only through NodeItem
	ers := r.Prog.Method(pkgERS, "Reconciler", "Reconcile")
	if ers == nil {
		r.Fatal("anchor (%s.Reconciler).Reconcile not found", pkgERS)
		return
	}
	reach := r.Prog.reachableFuncs(ers)
	for _, fn := range sortedFuncs(reach) {
		for _, ci := range callsIn(fn) {
			if attachCalls[ci] {
				continue
			}
			cal := staticCallee(ci.Common())
			if cal == nil || !r.Prog.IsRuleSite(cal) {
				continue
			}
			for i, p := range cal.Params {
				if typeName(p.Type()) != c18SettingKind || !isPtrToNamed(p.Type(), pkgAPI, "ExtendedDaemonsetSetting") || i >= len(ci.Common().Args) {
					continue
				}
				okAll := true
				why := ""
				for _, o := range origins(ci.Common().Args[i]) {
					_, isPar := o.(*ssa.Parameter)
					switch {
					case isNilConst(unwrap(o)), isPar:
					case hasPathSuffix(o, "ExtendedDaemonsetSetting"):
						if root, pth := accessPath(o); len(pth) == 0 || typeName(root.Type()) != pkgStrategy+".NodeItem" && !strings.HasSuffix(typeName(root.Type()), ".NodeItem") {
							okAll, why = false, "origin "+pathString(o)
						}
					default:
						okAll, why = false, "origin "+o.String()
					}
				}
				o := r.Check("C18.R5", "setting argument of "+shortFunc(cal), r.Prog.Pos(ci.Pos()), shortFunc(fn), "functions reachable from the replica-set Reconcile receive a setting only from NodeItem.ExtendedDaemonsetSetting (or a parameter, or nil)", okAll, why)
				o.Trivial = isNilConst(unwrap(ci.Common().Args[i]))
			}
		}
	}
}

// c18ReferenceFilter checks that slice value s (scanned by the consumer in fn) holds exactly
// elements of a namespace-restricted settings list appended under Spec.Reference.Name == eds.Name.
func c18ReferenceFilter(r *Run, fn *ssa.Function, s ssa.Value) {
	build := fn
	var buildCall *ssa.Call
	var results []ssa.Value
	for _, o := range origins(s) {
		var c *ssa.Call
		idx := -1
		switch x := o.(type) {
		case *ssa.Extract:
			c, _ = x.Tuple.(*ssa.Call)
			idx = x.Index
		case *ssa.Call:
			c, idx = x, 0
		}
		if c == nil {
			continue
		}
		cal := staticCallee(&c.Call)
		if cal == nil || !r.Prog.IsRuleSite(cal) {
			r.Undecided("C18.R5", "scanned settings", r.Prog.Pos(c.Pos()), shortFunc(fn), "scanned settings come from a function outside the repository")
			return
		}
		build = cal
		buildCall = c
		for _, b := range cal.Blocks {
			if ret := returnOf(b); ret != nil && idx < len(ret.Results) {
				results = append(results, ret.Results[idx])
			}
		}
	}
	if build == fn {
		results = []ssa.Value{s}
	}
	pos := r.Prog.Pos(build.Pos())
	var listEff *Effect
	for _, ci := range callsIn(build) {
		if e := clientEffect(build, ci); e != nil && e.Verb == "List" && e.Kind == c18SettingListKind {
			listEff = e
		}
	}
	if listEff == nil {
		r.Undecided("C18.R5", "scanned settings", pos, shortFunc(build), "the function building the scanned settings does not list them itself")
		return
	}
	var pEDS *ssa.Parameter
	for _, p := range build.Params {
		if typeName(p.Type()) == c18EDSKind {
			pEDS = p
		}
	}
	// The ExtendedDaemonSet whose namespace/name filter the settings: a parameter of the builder, or
	// (builder taking plain strings) the object whose Namespace / Name the caller passes.
	isEDSVal := func(x ssa.Value) bool { return isPtrToNamed(x.Type(), pkgAPI, "ExtendedDaemonSet") }
	var nsRoot, nameRoot ssa.Value
	isNS := func(v ssa.Value) bool { return false }
	isName := func(v ssa.Value) bool { return false }
	if pEDS != nil {
		isNS, isName = namespaceOf(isParam(pEDS)), nameOf(isParam(pEDS))
		nsRoot, nameRoot = pEDS, pEDS
	} else if buildCall != nil {
		argOf := func(v ssa.Value) ssa.Value {
			if p, ok := unwrap(v).(*ssa.Parameter); ok && p.Parent() == build {
				return buildCall.Call.Args[paramIndex(p)]
			}
			return nil
		}
		isNS = func(v ssa.Value) bool {
			a := argOf(v)
			return a != nil && namespaceOf(func(x ssa.Value) bool {
				if isEDSVal(x) {
					nsRoot = x
					return true
				}
				return false
			})(a)
		}
		isName = func(v ssa.Value) bool {
			a := argOf(v)
			return a != nil && nameOf(func(x ssa.Value) bool {
				if isEDSVal(x) {
					nameRoot = x
					return true
				}
				return false
			})(a)
		}
	} else {
		r.Undecided("C18.R5", "scanned settings", pos, shortFunc(build), "no ExtendedDaemonSet (parameter, or namespace/name arguments) to filter the settings by")
		return
	}
	// namespace
	args := listEff.Call.Common().Args
	alts, ok := sliceAlternatives(args[len(args)-1])
	if !ok || len(alts) == 0 {
		r.Undecided("C18.R5", "consumer list scope", r.Prog.Pos(listEff.Call.Pos()), shortFunc(build), "list options are not built from literals/append")
	}
	for i, alt := range alts {
		has := false
		for _, el := range alt {
			if o := classifyListOption(el); o.kind == "namespace" && o.ns != nil && isNS(o.ns) {
				has = true
			}
		}
		r.Check("C18.R5", fmt.Sprintf("consumer list scope alt%d", i), r.Prog.Pos(listEff.Call.Pos()), shortFunc(build), "the consumer lists settings in the ExtendedDaemonSet's namespace", has, "")
	}
	// appended elements
	ff := computeFacts(build)
	k := ff.K
	listObj := unwrap(listEff.Obj)
	n := 0
	for _, res := range results {
		if isNilConst(unwrap(res)) {
			continue
		}
		apps := appendCallsOf(res)
		if len(apps) == 0 {
			r.Undecided("C18.R5", "reference filter", pos, shortFunc(build), "scanned settings are not built by append: "+res.String())
			continue
		}
		for _, ap := range apps {
			if len(ap.Call.Args) < 2 {
				continue
			}
			elems, complete := varargElems(ap.Call.Args[1])
			if !complete {
				r.Undecided("C18.R5", "reference filter", r.Prog.Pos(ap.Pos()), shortFunc(build), "appended elements are not visible")
				continue
			}
			for _, el := range elems {
				n++
				apos := r.Prog.Pos(instrPos(ap))
				ia, isIA := el.(*ssa.IndexAddr)
				fromList := false
				if isIA {
					root, pth := accessPath(ia.X)
					fromList = root == listObj && len(pth) == 1 && pth[0] == "Items"
				}
				eID := k.key(el)
				byRef := ff.Holds(ap.Block(), true, func(v ssa.Value, _ string) bool {
					return isEqCompare(v, func(a ssa.Value) bool {
						ar, apth := accessPath(a)
						m := len(apth)
						return m >= 3 && apth[m-1] == "Name" && apth[m-2] == "Reference" && apth[m-3] == "Spec" && c18Ident(k, ar) == eID
					}, isName)
				})
				if byRef && nsRoot != nil && nameRoot != nil && nsRoot != nameRoot {
					byRef = false // namespace and name of two different objects
				}
				// the dereference of Spec.Reference made by that comparison is itself guarded: a setting
				// without a reference (the case the property names: it is in error) must be skipped, not
				// crash the sync of every ExtendedDaemonSet of the namespace
				isRefOfElem := func(a ssa.Value) bool {
					ar, apth := accessPath(a)
					m := len(apth)
					return m >= 2 && apth[m-1] == "Reference" && apth[m-2] == "Spec" && c18Ident(k, ar) == eID
				}
				guarded, nDeref := true, 0
				for _, b := range build.Blocks {
					for _, in := range b.Instrs {
						ld, isLd := in.(*ssa.UnOp)
						if !isLd || ld.Op != token.MUL {
							continue
						}
						fa, isFA := ld.X.(*ssa.FieldAddr)
						if !isFA || !isRefOfElem(fa.X) {
							continue
						}
						nDeref++
						if !ff.Holds(b, false, func(v ssa.Value, _ string) bool { return isNilCompareOf(v, isRefOfElem) }) {
							guarded = false
						}
					}
				}
				if nDeref > 0 {
					r.Check("C18.R5", "reference dereferenced under a nil test", apos, shortFunc(build), "Spec.Reference of a listed setting is dereferenced only where Spec.Reference != nil holds (a setting without reference is skipped)", guarded,
						fmt.Sprintf("%d dereference(s) of Spec.Reference of the scanned element", nDeref))
				}
				r.Check("C18.R5", "reference filter", apos, shortFunc(build), "only settings of the listed namespace whose Spec.Reference.Name equals the ExtendedDaemonSet's name are scanned", fromList && byRef,
					fmt.Sprintf("element of the listed items=%v; appended under Reference.Name==eds.Name=%v", fromList, byRef))
			}
		}
	}
	if n == 0 {
		r.Check("C18.R5", "reference filter", pos, shortFunc(build), "the scanned settings are appended under the reference filter", false, "no appended element found")
	}
}

// ---------------------------------------------------------------------------------------------
// R2 (objects are followed through helper parameters and results)

func c18ListScope(r *Run, rec *ssa.Function, reach map[*ssa.Function]bool, getEff, listSettings, listNodes *Effect, conflictCall *ssa.Call) {
	follow := func(f *ssa.Function) bool { return reach[f] && r.Prog.IsRuleSite(f) }
	callers := func(f *ssa.Function) []ssa.CallInstruction { return callSitesOf(f, reach) }
	instA := aliasClosure(unwrap(getEff.Obj), follow, callers)
	nodesA := aliasClosure(unwrap(listNodes.Obj), follow, callers)
	listA := aliasClosure(unwrap(listSettings.Obj), follow, callers)
	isInst := func(v ssa.Value) bool { return instA[v] }
	// settings list: namespace of the reconciled object on every alternative
	{
		e := listSettings
		pos := r.Prog.Pos(e.Call.Pos())
		args := e.Call.Common().Args
		alts, ok := sliceAlternatives(args[len(args)-1])
		if !ok || len(alts) == 0 {
			r.Undecided("C18.R2", "List(ExtendedDaemonsetSettingList) options", pos, shortFunc(e.Fn), "list options are not built from literals/append in this function")
		}
		for i, alt := range alts {
			has := false
			var descs []string
			for _, el := range alt {
				o := classifyListOption(el)
				descs = append(descs, o.desc)
				if o.kind == "namespace" && o.ns != nil && namespaceOf(isInst)(o.ns) {
					has = true
				}
			}
			r.Check("C18.R2", fmt.Sprintf("List(ExtendedDaemonsetSettingList) options alt%d", i), pos, shortFunc(e.Fn),
				"settings are listed in the namespace of the reconciled setting (names are the tie-break of the conflict order and are unique only per namespace)", has,
				"options: ["+strings.Join(descs, ", ")+"]")
		}
	}
	// node list: unfiltered
	{
		e := listNodes
		pos := r.Prog.Pos(e.Call.Pos())
		args := e.Call.Common().Args
		alts, ok := sliceAlternatives(args[len(args)-1])
		if !ok {
			r.Undecided("C18.R2", "List(NodeList) options", pos, shortFunc(e.Fn), "list options are not built from literals/append in this function")
		} else {
			// An option that derives from the reconciled setting's own node selector only drops nodes
			// the setting cannot match, on which it can never be in conflict.
			n, foreign := 0, 0
			for _, alt := range alts {
				for _, el := range alt {
					n++
					if !dependsOn(el, loadOfPath(isInst, "Spec", "NodeSelector")) {
						foreign++
					}
				}
			}
			r.Check("C18.R2", "List(NodeList) options", pos, shortFunc(e.Fn), "every node the reconciled setting can match is considered by the conflict search (no list option, or only options built from its own node selector)", foreign == 0,
				fmt.Sprintf("%d option(s) on %d alternative(s), %d not derived from the reconciled setting's node selector", n, len(alts), foreign))
		}
	}
	// arguments of the conflict search
	{
		cf := staticCallee(&conflictCall.Call)
		okInst, okNodes, okList := false, false, false
		for i, p := range cf.Params {
			a := unwrap(conflictCall.Call.Args[i])
			switch typeName(p.Type()) {
			case c18SettingKind:
				okInst = instA[a]
			case c18NodeListKind:
				okNodes = nodesA[a]
			case c18SettingListKind:
				okList = listA[a]
			}
		}
		r.Check("C18.R2", "arguments of the conflict search", r.Prog.Pos(conflictCall.Pos()), shortFunc(conflictCall.Parent()),
			"the conflict search receives the reconciled setting, the listed nodes and the listed settings", okInst && okNodes && okList,
			fmt.Sprintf("reconciled object=%v listed nodes=%v listed settings=%v", okInst, okNodes, okList))
	}
}

// ---------------------------------------------------------------------------------------------
// R3 on the inlined paths of Reconcile

type c18IV struct {
	c *icall
	v ssa.Value
}

type c18PathState struct {
	status    string // "" unknown, else the constant last stored
	statusSet bool
	err       c18Tri
	epoch     int
}

func c18IsNamedPtr(t types.Type, name string) bool {
	return isPtrToNamed(t, pkgAPI, name)
}

func c18StatusTable(r *Run, rec *ssa.Function, reach map[*ssa.Function]bool, updates []*Effect, getEff, listSettings, listNodes *Effect, conflictCall *ssa.Call) {
	validC, ok1 := r.Prog.constStr(pkgAPI, "ExtendedDaemonsetSettingStatusValid")
	errorC, ok2 := r.Prog.constStr(pkgAPI, "ExtendedDaemonsetSettingStatusError")
	if !ok1 || !ok2 {
		r.Fatal("status constants ExtendedDaemonsetSettingStatusValid/Error not found in %s", pkgAPI)
		return
	}
	cf := staticCallee(&conflictCall.Call)
	isUpdate := map[ssa.Instruction]*Effect{}
	for _, e := range updates {
		isUpdate[e.Call] = e
	}
	// static shape of every writer: the written object's Status is one whole copy of a status value
	for _, e := range updates {
		o := unwrap(e.Obj)
		pos := r.Prog.Pos(e.Call.Pos())
		whole, extra := 0, ""
		for _, rr := range refs(o) {
			fa, ok := rr.(*ssa.FieldAddr)
			if !ok || fieldName(fa) != "Status" {
				continue
			}
			for _, r2 := range refs(fa) {
				switch y := r2.(type) {
				case *ssa.Store:
					if y.Addr == ssa.Value(fa) {
						whole++
						if ld, isLd := y.Val.(*ssa.UnOp); !isLd || ld.Op != token.MUL {
							extra = "Status of the written object is stored from " + y.Val.String()
						}
					}
				case *ssa.FieldAddr:
					for _, r3 := range refs(y) {
						if st, isSt := r3.(*ssa.Store); isSt && st.Addr == ssa.Value(y) {
							extra = "field " + fieldName(y) + " of the written status is overwritten after the copy"
						}
					}
				}
			}
		}
		if whole != 1 && extra == "" {
			extra = fmt.Sprintf("%d whole-struct stores into the written object's Status", whole)
		}
		r.Check("C18.R3", "written status is the computed status", pos, shortFunc(e.Fn), "the object handed to Status().Update takes its Status from exactly one copy (*p) of the computed status", extra == "", extra)
	}

	paths, ok := enumIPaths(rec, samePkgInliner(r.Prog, rec, map[*ssa.Function]bool{cf: true}), 20000)
	r.paths += len(paths)
	if !ok {
		r.Undecided("C18.R3", "status table", r.Prog.Pos(rec.Pos()), shortFunc(rec), "path cap exceeded")
		return
	}
	getObj := unwrap(getEff.Obj)
	nres := conflictCall.Call.Signature().Results().Len()
	isReader := func(name string) bool {
		return strings.HasSuffix(name, ".DeepCopy") || strings.HasSuffix(name, ".DeepEqual") || strings.HasPrefix(name, "(github.com/go-logr/logr.") || strings.HasPrefix(name, "fmt.")
	}

	for _, p := range paths {
		states := map[c18IV]*c18PathState{}
		stateOf := func(iv c18IV) *c18PathState {
			if states[iv] == nil {
				states[iv] = &c18PathState{}
			}
			return states[iv]
		}
		// status pointer identity of a field address base
		statusBase := func(c *icall, fa *ssa.FieldAddr) (c18IV, bool) {
			if !c18IsNamedPtr(fa.X.Type(), "ExtendedDaemonsetSettingStatus") {
				return c18IV{}, false
			}
			bc, bv := iunwrap(c, fa.X)
			return c18IV{bc, bv}, true
		}
		type loadKey struct {
			c  *icall
			in ssa.Instruction
		}
		loadEpoch := map[loadKey]int{}
		snaps := map[loadKey]c18PathState{}
		pending := map[c18IV]c18PathState{}
		var refNil, refNameEmpty, settingsErr, nodesErr, conflictErr, getErr *bool
		infeasible, wrote := false, false
		var lastPos token.Pos

		describe := func() string {
			var t []string
			add := func(n string, b *bool, yes, no string) {
				if b != nil {
					if *b {
						t = append(t, n+"="+yes)
					} else {
						t = append(t, n+"="+no)
					}
				}
			}
			add("reference", refNil, "nil", "set")
			add("reference.name", refNameEmpty, "empty", "set")
			add("settings-list", settingsErr, "error", "ok")
			add("node-list", nodesErr, "error", "ok")
			add("conflict-search", conflictErr, "error", "ok")
			return strings.Join(t, " ")
		}
		evaluate := func(at ssa.Instruction, st c18PathState, known bool) {
			wrote = true
			fail := is(refNil, true) || is(refNameEmpty, true) || is(nodesErr, true) || is(conflictErr, true)
			allOK := is(refNil, false) && is(refNameEmpty, false) && is(settingsErr, false) && is(nodesErr, false) && is(conflictErr, false)
			pos := r.Prog.Pos(instrPos(at))
			construct := "status write on path [" + describe() + "]"
			if !known {
				r.Undecided("C18.R3", construct, pos, shortFunc(at.Parent()), "the status handed to Status().Update is not a copy of a status value computed on this path")
				return
			}
			got := fmt.Sprintf("Status=%q (stored on path: %v), Error %s", st.status, st.statusSet, st.err)
			switch {
			case fail:
				r.Check("C18.R3", construct, pos, shortFunc(rec), "a failing path writes Status="+errorC+" with a non-empty Error", st.statusSet && st.status == errorC && st.err == c18NonEmpty, got)
			case allOK:
				r.Check("C18.R3", construct, pos, shortFunc(rec), "a path without failure writes Status="+validC+" with an empty Error", st.statusSet && st.status == validC && st.err == c18Empty, got)
			default:
				isValid := st.statusSet && st.status == validC
				var untested []string
				for _, t := range []struct {
					n string
					b *bool
				}{{"spec.reference != nil", refNil}, {"spec.reference.name != \"\"", refNameEmpty}, {"settings list error == nil", settingsErr}, {"node list error == nil", nodesErr}, {"error returned by the conflict search == nil", conflictErr}} {
					if !is(t.b, false) {
						untested = append(untested, t.n)
					}
				}
				o := r.Check("C18.R3", construct, pos, shortFunc(rec), "Status="+validC+" is written only on a path that carries: reference set, settings list error == nil, node list error == nil, error returned by the conflict search == nil", !isValid,
					got+"; not established on this path: "+strings.Join(untested, ", "))
				o.Trivial = !isValid
			}
			if (fail || allOK) && st.statusSet && st.status == validC && st.err != c18Empty {
				r.Check("C18.R3", construct+" valid⇒empty", pos, shortFunc(rec), "Status="+validC+" is written only with an Error shown empty after its last store", false, got)
			}
		}
		branchFact := func(br ibranch) {
			bc, x, y, equal, isEq := ieq(br)
			if !isEq {
				// "nothing to write": the stored status of the reconciled object already equals the
				// computed one — the computed status is what the object keeps, so it is evaluated here
				cc, bv, pol := ibool(br)
				if call, isCall := bv.(*ssa.Call); isCall && pol && strings.HasSuffix(calleeName(&call.Call), ".DeepEqual") && len(call.Call.Args) >= 2 {
					args := call.Call.Args[len(call.Call.Args)-2:]
					for k := 0; k < 2; k++ {
						ac, av := iunwrap(cc, args[k])
						oc, ov := iunwrap(cc, args[1-k])
						_, root, f := iaccess(oc, ov)
						if st, tracked := states[c18IV{ac, av}]; tracked && root == getObj && len(f) == 1 && f[0] == "Status" {
							evaluate(call, *st, true)
						}
					}
				}
				return
			}
			if iisNil(bc, x) || iisNil(bc, y) {
				v := x
				if iisNil(bc, x) {
					v = y
				}
				cv, vv := iunwrap(bc, v)
				e, ne := equal, !equal
				switch {
				case vv == ssa.Value(callValue(listSettings.Call)):
					settingsErr = &ne
				case vv == ssa.Value(callValue(listNodes.Call)):
					nodesErr = &ne
				case vv == ssa.Value(callValue(getEff.Call)):
					getErr = &ne
				default:
					if ex, isEx := vv.(*ssa.Extract); isEx && ex.Tuple == ssa.Value(conflictCall) && ex.Index == nres-1 {
						conflictErr = &ne
					} else if nres == 1 && vv == ssa.Value(conflictCall) {
						conflictErr = &ne
					} else if _, root, f := iaccess(cv, vv); root == getObj && len(f) == 2 && f[0] == "Spec" && f[1] == "Reference" {
						refNil = &e
					}
				}
				return
			}
			var other ssa.Value
			if s, isC := iconstString(bc, y); isC && s == "" {
				other = x
			} else if s, isC := iconstString(bc, x); isC && s == "" {
				other = y
			}
			if other == nil {
				return
			}
			e := equal
			oc, ov := iunwrap(bc, other)
			if _, root, f := iaccess(oc, ov); root == getObj && len(f) == 3 && f[0] == "Spec" && f[1] == "Reference" && f[2] == "Name" {
				refNameEmpty = &e
				return
			}
			if ld, isLd := ov.(*ssa.UnOp); isLd && ld.Op == token.MUL {
				if fa, isFA := ld.X.(*ssa.FieldAddr); isFA && fieldName(fa) == "Error" {
					if iv, okB := statusBase(oc, fa); okB {
						st := stateOf(iv)
						if ep, seen := loadEpoch[loadKey{oc, ld}]; seen && ep == st.epoch {
							if (st.err == c18Empty && !equal) || (st.err == c18NonEmpty && equal) {
								infeasible = true
								return
							}
							if equal {
								st.err = c18Empty
							} else {
								st.err = c18NonEmpty
							}
						}
					}
				}
			}
		}

		bi := 0
		for i := 0; i <= len(p.events) && !infeasible; i++ {
			for bi < len(p.branches) && p.branches[bi].at <= i {
				branchFact(p.branches[bi])
				bi++
				if infeasible {
					break
				}
			}
			if i == len(p.events) || infeasible {
				break
			}
			ev := p.events[i]
			if ev.in.Pos().IsValid() {
				lastPos = ev.in.Pos()
			}
			switch y := ev.in.(type) {
			case *ssa.Store:
				if fa, isFA := y.Addr.(*ssa.FieldAddr); isFA {
					if iv, okB := statusBase(ev.c, fa); okB {
						st := stateOf(iv)
						switch fieldName(fa) {
						case "Status":
							if s, isC := iconstString(ev.c, y.Val); isC {
								st.status, st.statusSet = s, true
							} else {
								st.status, st.statusSet = "", true
							}
						case "Error":
							_, vv := iunwrap(ev.c, y.Val)
							st.err = c18StringClass(vv)
							st.epoch++
						}
						continue
					}
					// copy of a computed status into the object to be written
					if fieldName(fa) == "Status" && c18IsNamedPtr(fa.X.Type(), "ExtendedDaemonsetSetting") {
						oc, ov := iunwrap(ev.c, fa.X)
						if ld, isLd := y.Val.(*ssa.UnOp); isLd && ld.Op == token.MUL {
							if sn, has := snaps[loadKey{ev.c, ld}]; has {
								pending[c18IV{oc, ov}] = sn
							}
						}
					}
					continue
				}
				if c18IsNamedPtr(y.Addr.Type(), "ExtendedDaemonsetSettingStatus") { // *p = ...
					bc, bv := iunwrap(ev.c, y.Addr)
					st := stateOf(c18IV{bc, bv})
					st.status, st.statusSet, st.err = "", true, c18Unknown
					st.epoch++
				}
			case *ssa.UnOp:
				if y.Op != token.MUL {
					continue
				}
				if fa, isFA := y.X.(*ssa.FieldAddr); isFA && fieldName(fa) == "Error" {
					if iv, okB := statusBase(ev.c, fa); okB {
						loadEpoch[loadKey{ev.c, y}] = stateOf(iv).epoch
					}
				}
				if c18IsNamedPtr(y.X.Type(), "ExtendedDaemonsetSettingStatus") { // whole copy *p
					bc, bv := iunwrap(ev.c, y.X)
					snaps[loadKey{ev.c, y}] = *stateOf(c18IV{bc, bv})
				}
			case *ssa.Call:
				if isUpdate[y] != nil {
					oc, ov := iunwrap(ev.c, isUpdate[y].Obj)
					sn, has := pending[c18IV{oc, ov}]
					evaluate(y, sn, has)
					continue
				}
				if ev.c.sub[y] != nil || isReader(calleeName(&y.Call)) {
					continue // expanded in place, or a known reader
				}
				for _, a := range y.Call.Args {
					ac, av := iunwrap(ev.c, a)
					if fa, isFA := av.(*ssa.FieldAddr); isFA {
						if iv, okB := statusBase(ac, fa); okB {
							av, ac = iv.v, iv.c
						}
					}
					if st, tracked := states[c18IV{ac, av}]; tracked {
						st.status, st.statusSet, st.err = "", true, c18Unknown
						st.epoch++
					}
				}
			}
		}
		if infeasible || is(getErr, true) {
			continue
		}
		if !wrote {
			fail := is(refNil, true) || is(refNameEmpty, true) || is(nodesErr, true) || is(conflictErr, true)
			if fail {
				r.Check("C18.R3", "no status write on path ["+describe()+"]", r.Prog.Pos(lastPos), shortFunc(rec), "a failing path reaches the status write (the setting must end in error)", false, "the path returns without handing the computed status to the status update")
			}
		}
	}
}

// c18ScanCaller handles a scan that was extracted into a helper taking the record map, the
// node's name and labels and the sorted settings as parameters: at the helper's only call site
// name and labels belong to one node, the map is a local of the caller that the caller only resets
// for a node after that node's call, the helper's error is returned as it is (and is the caller's
// only error), and the settings handed in are sorted before the loop that contains the call.
// Returns the calling function (the conflict search proper).
func c18ScanCaller(r *Run, scanFn *ssa.Function, scan *c18Scan, reach map[*ssa.Function]bool) *ssa.Function {
	var cs *ssa.Call
	for _, ci := range callSitesOf(scanFn, reach) {
		c, isCall := ci.(*ssa.Call)
		if !isCall || cs != nil {
			r.Undecided("C18.R4", "scan helper call", r.Prog.Pos(ci.Pos()), shortFunc(ci.Parent()), "the scan helper is called from more than one site (or by go/defer)")
			return nil
		}
		cs = c
	}
	if cs == nil {
		r.Undecided("C18.R4", "scan helper call", r.Prog.Pos(scanFn.Pos()), shortFunc(scanFn), "no static call of the scan helper")
		return nil
	}
	caller := cs.Parent()
	fnName := shortFunc(caller)
	pos := r.Prog.Pos(cs.Pos())
	k := newKeyer(caller)
	loops := naturalLoops(caller)
	arg := func(p *ssa.Parameter) ssa.Value { return cs.Call.Args[paramIndex(p)] }
	// one node
	nameRoot, np := accessPath(arg(scan.nameParam))
	labRoot, lp := accessPath(unwrap(arg(scan.labelsParam)))
	nameOK := len(np) >= 1 && np[len(np)-1] == "Name" && baseTypeName(nameRoot.Type()) == pkgCoreV1+".Node"
	labOK := len(lp) >= 1 && lp[len(lp)-1] == "Labels" && baseTypeName(labRoot.Type()) == pkgCoreV1+".Node"
	same := nameOK && labOK && c18Ident(k, nameRoot) == c18Ident(k, labRoot)
	r.Check("C18.R4", "scan helper call: one node", pos, fnName, "the name the record is keyed by and the labels that are matched belong to the same node", same,
		fmt.Sprintf("name argument %s, labels argument %s", pathString(arg(scan.nameParam)), pathString(unwrap(arg(scan.labelsParam)))))
	if !same {
		return nil
	}
	nID := c18Ident(k, nameRoot)
	var loopN *loopInfo
	if d := c18IdentDef(nameRoot); d != nil {
		loopN = innermostLoop(loops, d.Block())
	}
	csLoop := innermostLoop(loops, cs.Block())
	// the map
	mm, isMM := arg(scan.mapParam).(*ssa.MakeMap)
	if !isMM {
		r.Undecided("C18.R4", "scan helper call: record", pos, fnName, "the record handed to the scan helper is not a local map of the caller")
		return nil
	}
	for _, rr := range refs(mm) {
		switch x := rr.(type) {
		case *ssa.DebugRef:
		case *ssa.Call:
			if x != cs {
				r.Undecided("C18.R4", "scan helper call: record", r.Prog.Pos(x.Pos()), fnName, "the record is handed to another call")
			}
		case *ssa.MapUpdate:
			upos := r.Prog.Pos(instrPos(x))
			if x.Map != ssa.Value(mm) || !c18NameOfRoot(k, x.Key, nID, pkgCoreV1+".Node") || loopN == nil {
				r.Undecided("C18.R4", "other write to the record", upos, fnName, "a write to the record in the caller that is not keyed by the current node's name")
				continue
			}
			leak := reachesAvoiding(x, cs, loopN.Header)
			detail := "reaches the scan of a node only after the next node is taken"
			if leak {
				detail = "the entry written here would be found by the scan of the same node"
			}
			r.Check("C18.R4", "other write to the record", upos, fnName, "a write that is not a match record (e.g. the reset after a node's scan) cannot reach the look-up for the same node", !leak, detail)
		default:
			r.Undecided("C18.R4", "scan helper call: record", r.Prog.Pos(instrPos(rr)), fnName, "the record is used by "+rr.String()+" in the caller")
		}
	}
	if loopN != nil {
		c18LoopExits(r, caller, computeFacts(caller), loopN, caller.Signature.Results().Len()-1, "loop over the nodes",
			"the loop over the nodes is left only by exhaustion or by returning an error: a conflict on any node the reconciled setting selects must be found",
			func(factSet) bool { return false })
	}
	// the helper's error is propagated unchanged and is the caller's only error
	errIdx := scanFn.Signature.Results().Len() - 1
	cErr := caller.Signature.Results().Len() - 1
	paths, _, ok := funcPaths(caller, 5000)
	r.paths += len(paths)
	if !ok || cErr < 0 {
		r.Undecided("C18.R4", "scan helper call: error propagated", pos, fnName, "path cap exceeded or the caller returns no error")
		return nil
	}
	isErrOfCall := func(v ssa.Value) bool {
		ex, isEx := unwrap(v).(*ssa.Extract)
		return isEx && ex.Tuple == ssa.Value(cs) && ex.Index == errIdx
	}
	propOK, detail, nProp := true, "", 0
	for _, p := range paths {
		ret := returnOf(p.Blocks[len(p.Blocks)-1])
		res := unwrap(p.Resolve(ret.Results[cErr]))
		failed := p.Has(false, func(v ssa.Value, _ string) bool { return isNilCompareOf(v, isErrOfCall) })
		switch {
		case failed:
			nProp++
			if !isErrOfCall(res) {
				propOK, detail = false, "a path on which the scan helper failed returns "+res.String()
			}
		case !isNilConst(res):
			propOK, detail = false, "the caller returns an error of its own: "+res.String()
		}
	}
	if nProp == 0 {
		propOK, detail = false, "the error of the scan helper is never tested"
	}
	r.Check("C18.R4", "scan helper call: error propagated", pos, fnName, "a conflict (or selector error) found by the scan helper is returned by the conflict search as it is", propOK, detail)
	// sorted before the loop that contains the call
	sp, isSP := scan.slice.(*ssa.Parameter)
	if !isSP {
		r.Undecided("C18.R1", "sort before scan", pos, fnName, "the scan helper does not scan a slice it is handed")
		return caller
	}
	less, _ := c18FindSort(r, caller, arg(sp), csLoop, 0)
	dir := 0
	if less != nil {
		dir = c18LessTable(r, less)
	}
	c18Skips(r, scanFn, scan, dir)
	return caller
}

// c18LoopExits checks every CFG edge that leaves loop from a block other than its header (the
// header's own exit is exhaustion): the target must return a non-nil error, or the facts on the
// edge must satisfy allowed.
func c18LoopExits(r *Run, fn *ssa.Function, ff *FuncFacts, loop *loopInfo, errIdx int, what, need string, allowed func(factSet) bool) {
	n := 0
	okAll, detail := true, ""
	var at token.Pos
	for _, u := range fn.Blocks {
		if !loop.Blocks[u] || u == loop.Header {
			continue
		}
		for _, v := range u.Succs {
			if loop.Blocks[v] {
				continue
			}
			n++
			if ret := returnOf(v); ret != nil && errIdx >= 0 && errIdx < len(ret.Results) {
				res := ret.Results[errIdx]
				nonNil := !isNilConst(unwrap(res))
				if phi, isPhi := res.(*ssa.Phi); isPhi {
					for i, e := range phi.Edges {
						if phi.Block().Preds[i] == u && isNilConst(unwrap(e)) {
							nonNil = false
						}
					}
				}
				if nonNil {
					continue
				}
			}
			if allowed(ff.FactsAtEdge(u, v)) {
				continue
			}
			okAll = false
			at = instrPos(u.Instrs[len(u.Instrs)-1])
			detail = "the loop is left (break / early return without error) at a point where this is not established; facts on the edge: " + shortSet(ff.FactsAtEdge(u, v))
		}
	}
	pos := r.Prog.Pos(loop.Header.Instrs[len(loop.Header.Instrs)-1].Pos())
	if !okAll {
		pos = r.Prog.Pos(at)
	}
	o := r.Check("C18.R4", "exits of the "+what, pos, shortFunc(fn), need, okAll, detail)
	if okAll && detail == "" {
		o.Detail = fmt.Sprintf("%d exit edge(s) besides exhaustion, all error returns or allowed", n)
	}
}
