package main

// C15 — canary nodes are valid, distinct, stable and as many as requested.

import (
	"fmt"
	"go/token"
	"go/types"
	"sort"
	"strings"

	"golang.org/x/tools/go/ssa"
)

func init() {
	register("C15", "Decides the structure of the canary node selection (the function that stores status.canary.nodes): (R1) the stored list is built only by appends starting from an empty list, and every appended name is proved absent from the list it is appended to (membership function or exhaustive scan flag) — distinctness; (R2) every appended name is either the Name of a node of the node list freshly listed in the same function, appended under CheckNodeFitness(template pod of the new replica set, that node)==true, or a previously selected name appended under fit[name]==true for a map filled only with CheckNodeFitness results keyed by names of freshly listed nodes — validity; (R8) that node list is listed with the converted spec.strategy.canary.nodeSelector on every path on which a selector is set; (R3) every resolution of Strategy.Canary.Replicas reachable from the ExtendedDaemonSet reconciler rounds up and uses Status.Desired of the same reconciled ExtendedDaemonSet as total; (R4) a new node is added only while len(list) < resolved replicas and the bound is re-checked after every addition; (R5) a return without error implies len(stored list) >= resolved replicas, and the caller returns the selection error; (R6) candidates are sorted by per-node restart count (ascending, counted from the listed pods) before new nodes are taken, and every previously selected name that is still fit and not a duplicate is kept; (R9) the pod used for every CheckNodeFitness in the selection is built from the replica-set argument, which at the reconciler is the replica set selected under IsReplicaSetUpToDate == true and the one recorded as Status.Canary.ReplicaSet; (R7) the call of the selection function is guarded only by `a canary is recorded` facts (no extra guard that skips re-validation).", runC15)
}

// c15Sel gathers the anchors of the selection function.
type c15Sel struct {
	reach    map[*ssa.Function]bool
	fn       *ssa.Function
	ff       *FuncFacts
	k        *keyer
	store    *ssa.Store // canaryStatus.Nodes = X
	prev     func(ssa.Value) bool
	listObj  ssa.Value // the *NodeList handed to client.List (in listFn)
	listCall ssa.CallInstruction
	listFn   *ssa.Function   // function issuing the node List: the selection function or a helper of it
	listAt   ssa.Instruction // instruction of the selection function at which the nodes are listed
	podList  ssa.Value
	al       *aliasC
	scope    []*ssa.Function        // the selection function and the repository helpers it reaches
	convs    map[*ssa.Function]bool // functions converting the canary nodeSelector into a labels.Selector
	tpl      func(ssa.Value) bool
	nb       ssa.Value // resolved replicas
	nbCall   *ssa.Call
	appends  []*ssa.Call
	leaves   []ssa.Value
}

func c15FindSelection(r *Run, rule string) *c15Sel {
	_, reach := edsReconcile(r)
	if reach == nil {
		return nil
	}
	s := &c15Sel{reach: reach}
	for _, fn := range sortedFuncs(reach) {
		if !r.Prog.IsRuleSite(fn) {
			continue // generated DeepCopy
		}
		for _, st := range fieldStoresInC(fn, pkgAPI, "ExtendedDaemonSetStatusCanary", "Nodes") {
			if s.store != nil {
				r.Fatal("status.canary.nodes is stored at more than one site (%s and %s)", r.Prog.Pos(instrPos(s.store)), r.Prog.Pos(instrPos(st)))
				return nil
			}
			s.store, s.fn = st, fn
		}
	}
	if s.store == nil {
		r.Fatal("no store to ExtendedDaemonSetStatusCanary.Nodes reachable from the ExtendedDaemonSet Reconcile")
		return nil
	}
	fn := s.fn
	s.ff = computeFacts(fn)
	s.k = s.ff.K
	// previous list: a load of the same field of the same object
	sroot, _ := accessPath(s.store.Addr)
	s.prev = func(v ssa.Value) bool {
		root, p := accessPath(unwrap(v))
		_, isLoad := unwrap(v).(*ssa.UnOp)
		return isLoad && root == sroot && pathIsC(p, "Nodes")
	}
	s.al = newAliasC(r.Prog, reach)
	scopeSet := map[*ssa.Function]bool{}
	for f := range r.Prog.reachableFuncs(fn) {
		if r.Prog.IsRuleSite(f) {
			scopeSet[f] = true
		}
	}
	s.scope = sortedFuncs(scopeSet)
	// the node and pod lists may be listed by the selection function itself or by a helper it calls
	for _, e := range effectsOf(scopeSet) {
		if e.Verb != "List" {
			continue
		}
		switch e.Kind {
		case pkgCoreV1 + ".NodeList":
			if s.listObj != nil {
				r.Fatal("%s lists nodes twice", shortFunc(fn))
				return nil
			}
			s.listObj, s.listCall, s.listFn = unwrap(e.Obj), e.Call, e.Fn
		case pkgCoreV1 + ".PodList":
			s.podList = unwrap(e.Obj)
		}
	}
	if s.listObj == nil {
		r.Fatal("%s does not list nodes", shortFunc(fn))
		return nil
	}
	if s.listFn == fn {
		s.listAt = s.listCall
	} else {
		// the call in the selection function whose result is the listed object
		for _, ci := range callsIn(fn) {
			c, ok := ci.(*ssa.Call)
			if !ok || repoCalleeC(&c.Call) == nil {
				continue
			}
			if s.al.same(c, s.listObj) {
				s.listAt = c
			}
			for _, rf := range refs(c) {
				if e, isE := rf.(*ssa.Extract); isE && s.al.same(e, s.listObj) {
					s.listAt = c
				}
			}
		}
		if s.listAt == nil {
			r.Fatal("%s: the node list listed by %s does not reach the selection as a helper result", shortFunc(fn), shortFunc(s.listFn))
			return nil
		}
	}
	s.tpl = func(v ssa.Value) bool { return c01TemplatePod(v) }
	for _, ci := range callsIn(fn) {
		c, ok := ci.(*ssa.Call)
		if !ok || calleeName(&c.Call) != pkgIntstr+".GetValueFromIntOrPercent" || !hasPathSuffix(c.Call.Args[0], "Canary", "Replicas") {
			continue
		}
		for _, rf := range refs(c) {
			if e, ok := rf.(*ssa.Extract); ok && e.Index == 0 {
				s.nb, s.nbCall = e, c
			}
		}
	}
	if s.nb == nil {
		r.Fatal("%s does not resolve Strategy.Canary.Replicas", shortFunc(fn))
		return nil
	}
	s.appends, s.leaves = sliceChainC(s.store.Val)
	sort.Slice(s.appends, func(i, j int) bool { return s.appends[i].Pos() < s.appends[j].Pos() })
	return s
}

// freshLoop: l ranges over <listed NodeList>.Items.
func (s *c15Sel) freshLoop(l *sliceLoopC) bool {
	ld, ok := l.Slice.(*ssa.UnOp)
	if !ok || ld.Op != token.MUL {
		return false
	}
	fa, ok := ld.X.(*ssa.FieldAddr)
	if !ok || fieldName(fa) != "Items" {
		return false
	}
	return s.sameList(fa.X) && instrBeforeC(s.listAt, l.Header.Instrs[len(l.Header.Instrs)-1])
}

// sameList: x denotes the listed *NodeList object.
func (s *c15Sel) sameList(x ssa.Value) bool {
	return sameValueC(s.k, x, s.listObj) || s.al.same(x, s.listObj)
}

// prevLoop: l ranges over the previously selected list (possibly nil when there is no status).
func (s *c15Sel) prevLoop(l *sliceLoopC) bool {
	n := 0
	for _, o := range origins(l.Slice) {
		if isNilConst(o) {
			continue
		}
		if !s.prev(o) {
			return false
		}
		n++
	}
	return n > 0
}

type c15Append struct {
	ap    *ssa.Call
	elem  ssa.Value
	class string // "new" | "kept" | ""
	loop  *sliceLoopC
}

func (s *c15Sel) classify() []c15Append {
	loops := sliceLoopsC(s.fn)
	var out []c15Append
	for _, ap := range s.appends {
		_, elems, spread := appendPartsC(ap)
		a := c15Append{ap: ap}
		if spread != nil && len(elems) == 0 {
			a.class = "splice" // append(x[:i], y...): concatenation of two tracked lists, adds no new name
		}
		if spread == nil && len(elems) == 1 {
			a.elem = elems[0]
			for _, l := range loops {
				if !l.In[ap.Block()] {
					continue
				}
				if p, ok := l.elemPath(s.k, a.elem); ok && pathIsMetaC(p, "Name") && s.freshLoop(l) {
					a.class, a.loop = "new", l
				}
				if l.isElem(s.k, a.elem) && s.prevLoop(l) {
					a.class, a.loop = "kept", l
				}
			}
		}
		out = append(out, a)
	}
	return out
}

func runC15(r *Run) {
	r.RuleDoc("C15.R1", "every name appended to status.canary.nodes is proved absent from the list it extends; the list starts empty")
	r.RuleDoc("C15.R2", "every appended name passed CheckNodeFitness against a node of the freshly listed node list (directly, or through the fitness map for kept names)")
	r.RuleDoc("C15.R3", "all resolutions of Strategy.Canary.Replicas round up and use Status.Desired of the same ExtendedDaemonSet")
	r.RuleDoc("C15.R4", "a new node is added only while len(list) < resolved replicas; the bound is re-checked after each addition")
	r.RuleDoc("C15.R5", "no-error return implies len(status.canary.nodes) >= resolved replicas; the caller returns the selection error")
	r.RuleDoc("C15.R6", "restart-ordered candidates before selection; previously selected names that are still fit are kept")
	r.RuleDoc("C15.R7", "node re-validation (the selection call) runs whenever a canary is recorded: no extra guard")
	r.RuleDoc("C15.R9", "node fitness is tested with the pod template of the replica set matching spec.template (the one recorded as Status.Canary.ReplicaSet)")
	r.RuleDoc("C15.R12", "the conversion of the canary nodeSelector maps every label-selector operator like apimachinery's LabelSelectorAsSelector")
	r.RuleDoc("C15.R13", "the anti-affinity quota counts, besides the candidate under consideration, only nodes of the selection being built")
	r.RuleDoc("C15.R8", "the candidate node list is listed with the converted canary nodeSelector whenever one is set")
	r.Floor("C15.R1", 3)
	r.Floor("C15.R2", 2)
	r.Floor("C15.R3", 4)
	r.Floor("C15.R4", 2)
	r.Floor("C15.R5", 3)
	r.Floor("C15.R6", 3)
	r.Floor("C15.R7", 1)
	r.Floor("C15.R8", 1)
	r.Floor("C15.R9", 2)
	r.Floor("C15.R12", 1)
	r.Floor("C15.R13", 1)
	r.NotCovered("quality of the preference beyond `sorted by restart count before selection` and the anti-affinity quota arithmetic; behaviour over node churn histories between reconciles; requirements silently dropped inside ConvertLabelSelector (invalid operator); the node list being served from a stale cache")

	s := c15FindSelection(r, "C15.R1")
	if s == nil {
		return
	}
	apps := s.classify()
	c15Distinct(r, s, apps)
	c15Valid(r, s, apps)
	c15Selector(r, s)
	c15OperatorTable(r, s)
	c15Quota(r, s)
	c15Replicas(r, "C15.R3", s)
	c15TemplateSource(r, s)
	c15CapWith(r, "C15.R4", s, apps)
	c15Shortage(r, s)
	c15Order(r, s, apps)
	c15Revalidation(r, s)
	c15Imports(r)
}

// ---------------------------------------------------------------------------------------------
// R1

func c15Distinct(r *Run, s *c15Sel, apps []c15Append) {
	fn := s.fn
	pos := r.Prog.Pos(instrPos(s.store))
	var bad []string
	for _, l := range s.leaves {
		if !s.prev(l) { // the previous list is distinct by induction
			bad = append(bad, descValueC(l))
		}
	}
	r.Check("C15.R1", "sources of status.canary.nodes", pos, shortFunc(fn), "the stored list is built from an empty list (or the previous, inductively distinct list) only by appends in this function", len(bad) == 0 && len(apps) > 0, strings.Join(bad, ", "))
	for _, a := range apps {
		apos := r.Prog.Pos(instrPos(a.ap))
		if a.class == "splice" {
			// both operands are walked by sliceChainC; a re-slicing of one distinct list stays distinct only
			// if the two parts come from the same list, which is what the repository's removal idiom does
			base, _, spread := appendPartsC(a.ap)
			_, l1 := sliceChainC(base)
			_, l2 := sliceChainC(spread)
			same := len(l1) == len(l2)
			for i := range l1 {
				if same && l1[i] != l2[i] {
					same = false
				}
			}
			ap1, _ := sliceChainC(base)
			ap2, _ := sliceChainC(spread)
			same = same && len(ap1) == len(ap2)
			o := r.Check("C15.R1", "splice of the node list", apos, shortFunc(fn), "a concatenation re-joins two parts of one list (element removal), adding no name", same, descValueC(a.ap))
			o.Trivial = true
			continue
		}
		if a.elem == nil {
			r.Undecided("C15.R1", "append to the node list", apos, shortFunc(fn), "not a single-element append: "+descValueC(a.ap))
			continue
		}
		base, _, _ := appendPartsC(a.ap)
		ok, how := notMemberC(fn, s.k, s.ff.At(a.ap.Block()), base, a.elem)
		r.Check("C15.R1", "append of a "+a.classOr("unclassified")+" name", apos, shortFunc(fn), "the appended name is not already in the list it is appended to", ok,
			how+func() string {
				if ok {
					return ""
				}
				return "no membership fact for (" + descValueC(base) + ", " + descValueC(a.elem) + "); must-facts: " + descFactsC(s.ff.At(a.ap.Block()))
			}())
	}
}

func (a c15Append) classOr(d string) string {
	if a.class == "" {
		return d
	}
	return a.class
}

// ---------------------------------------------------------------------------------------------
// R2

// fitCall: v is CheckNodeFitness(_, template pod, N); returns N.
func (s *c15Sel) fitCall(v ssa.Value) (ssa.Value, bool) {
	c, ok := v.(*ssa.Call)
	if !ok || calleeName(&c.Call) != pkgSched+".CheckNodeFitness" || len(c.Call.Args) != 3 || !s.tpl(c.Call.Args[1]) {
		return nil, false
	}
	return c.Call.Args[2], true
}

// fitnessMap: m is a local map whose every update is m[N.Name] = CheckNodeFitness(tpl, N) for N an
// element of a loop over the fresh node list.
func (s *c15Sel) fitnessMap(m ssa.Value) (bool, string) {
	mm, ok := m.(*ssa.MakeMap)
	if !ok {
		return false, "not a map made in this function"
	}
	loops := sliceLoopsC(s.fn)
	n := 0
	for _, rf := range refs(mm) {
		switch x := rf.(type) {
		case *ssa.MapUpdate:
			n++
			good := false
			for _, l := range loops {
				if !s.freshLoop(l) || !l.In[x.Block()] {
					continue
				}
				p, isEl := l.elemPath(s.k, x.Key)
				if !isEl || !pathIsMetaC(p, "Name") {
					continue
				}
				node, isFit := s.fitCall(x.Value)
				if isFit && l.isElem(s.k, node) {
					good = true
				}
				if b, isC := constBool(x.Value); isC && (!b || valueFactC(s.ff.At(x.Block()), true, func(v ssa.Value) bool {
					nd, ok := s.fitCall(v)
					return ok && l.isElem(s.k, nd)
				})) {
					good = true
				}
			}
			if !good {
				return false, "update " + descValueC(x.Key) + " = " + descValueC(x.Value) + " is not a fitness result of a freshly listed node"
			}
		case *ssa.Lookup, *ssa.DebugRef:
		case *ssa.Call:
			if builtinCallC(x, "len") == nil {
				return false, "the map escapes to " + descValueC(x)
			}
		default:
			return false, "the map is used by an instruction the rule does not model"
		}
	}
	return n > 0, "no update"
}

func c15Valid(r *Run, s *c15Sel, apps []c15Append) {
	fn := s.fn
	for _, a := range apps {
		apos := r.Prog.Pos(instrPos(a.ap))
		fs := s.ff.At(a.ap.Block())
		switch a.class {
		case "new":
			ok := valueFactC(fs, true, func(v ssa.Value) bool {
				node, isFit := s.fitCall(v)
				return isFit && a.loop.isElem(s.k, node)
			})
			r.Check("C15.R2", "new name is a fit, freshly listed node", apos, shortFunc(fn),
				"a new name is the Name of a node of the freshly listed node list and is appended under CheckNodeFitness(template pod, that node) == true", ok, "must-facts: "+descFactsC(fs))
		case "kept":
			ok, why := false, "no fact fit[name] == true"
			for _, f := range fs {
				lk, isL := f.V.(*ssa.Lookup)
				if !isL || !f.Pol || lk.CommaOk || !sameValueC(s.k, lk.Index, a.elem) {
					continue
				}
				ok, why = s.fitnessMap(lk.X)
				if ok {
					why = "kept under fit[name] with fit filled from CheckNodeFitness over the fresh node list"
					break
				}
			}
			if !ok { // direct form: CheckNodeFitness on a fresh node whose Name equals the name
				for _, l := range sliceLoopsC(fn) {
					if s.freshLoop(l) && l.In[a.ap.Block()] &&
						valueFactC(fs, true, func(v ssa.Value) bool { nd, isFit := s.fitCall(v); return isFit && l.isElem(s.k, nd) }) &&
						eqFactC(fs, true, func(v ssa.Value) bool { p, isEl := l.elemPath(s.k, v); return isEl && pathIsMetaC(p, "Name") }, func(v ssa.Value) bool { return sameValueC(s.k, v, a.elem) }) {
						ok, why = true, "kept under CheckNodeFitness of the freshly listed node with that name"
					}
				}
			}
			r.Check("C15.R2", "kept name is still a fit, freshly listed node", apos, shortFunc(fn),
				"a previously selected name is kept only if a freshly listed node has that name and passes CheckNodeFitness", ok, why)
		case "splice":
			// adds no name; the leaves of both operands are checked below
		default:
			r.Undecided("C15.R2", "append to the node list", apos, shortFunc(fn), "appended value is neither the Name of a freshly listed node nor an element of the previous list: "+descValueC(a.ap))
		}
	}
	if len(s.leaves) > 0 {
		var d []string
		for _, l := range s.leaves {
			d = append(d, descValueC(l))
		}
		r.Check("C15.R2", "names retained without re-validation", r.Prog.Pos(instrPos(s.store)), shortFunc(fn), "no name reachesC status.canary.nodes without passing the fitness test against the fresh node list", false, "the stored list also derives from "+strings.Join(d, ", "))
	}
}

// ---------------------------------------------------------------------------------------------
// R8: the node list is filtered by the canary node selector

func c15Selector(r *Run, s *c15Sel) {
	fn := s.listFn // the function that issues the List (the selection function or its listing helper)
	args := s.listCall.Common().Args
	opts := args[len(args)-1]
	isEnd := func(b *ssa.BasicBlock) bool { return b == s.listCall.Block() }
	paths, ok := enumPaths(fn, newKeyer(fn), fn.Blocks[0], isEnd, isEnd, 5000)
	r.paths += len(paths)
	pos := r.Prog.Pos(s.listCall.Pos())
	if !ok || len(paths) == 0 {
		r.Undecided("C15.R8", "node list options", pos, shortFunc(fn), "paths to the node List call cannot be enumerated")
		return
	}
	isSelField := func(v ssa.Value) bool { return ipHasSuffixC(s.al, v, "Canary", "NodeSelector") }
	type agg struct {
		ok     bool
		n      int
		detail string
	}
	classes := map[string]*agg{}
	for _, p := range paths {
		v := p.Resolve(opts)
		elems, complete := varargElems(v)
		filtered := false
		for _, el := range elems {
			mi, isMI := el.(*ssa.MakeInterface)
			if !isMI || !strings.HasSuffix(typeName(mi.X.Type()), "client.MatchingLabelsSelector") {
				continue
			}
			base := mi.X
			if u, ok := base.(*ssa.UnOp); ok && u.Op == token.MUL {
				base = u.X
			}
			for _, sv := range fieldStores(base, "Selector") {
				for _, o := range origins(sv) {
					if e, ok := o.(*ssa.Extract); ok {
						if c, ok := e.Tuple.(*ssa.Call); ok && e.Index == 0 && len(c.Call.Args) >= 1 && isSelField(c.Call.Args[len(c.Call.Args)-1]) {
							filtered = true
							c15NoteConverter(s, &c.Call)
						}
					}
					if c, ok := o.(*ssa.Call); ok && len(c.Call.Args) >= 1 && isSelField(c.Call.Args[len(c.Call.Args)-1]) {
						filtered = true
						c15NoteConverter(s, &c.Call)
					}
				}
			}
		}
		noSelector := nilFactC(p.Facts, true, isSelField)
		construct, good := "", true
		switch {
		case filtered && complete:
			construct = "listed with the canary node selector"
		case noSelector:
			construct = "listed without selector: none is set"
		default:
			good = false
			construct = "listed without the canary node selector although one is set [" + c15SelectorWhy(p.Facts) + "]"
		}
		cl := classes[construct]
		if cl == nil {
			cl = &agg{ok: true}
			classes[construct] = cl
		}
		cl.n++
		if !good {
			cl.ok = false
			cl.detail = "path facts: " + descFactsC(p.Facts)
		}
	}
	var keys []string
	for k := range classes {
		keys = append(keys, k)
	}
	sort.Strings(keys)
	for _, key := range keys {
		cl := classes[key]
		r.Check("C15.R8", key, pos, shortFunc(fn), "candidate nodes are listed with the converted spec.strategy.canary.nodeSelector on every path on which a selector is set", cl.ok, fmt.Sprintf("%d path(s); %s", cl.n, cl.detail))
	}
}

// c15SelectorWhy names the facts about the selector conversion on a path (stable description).
func c15SelectorWhy(fs factSet) string {
	var out []string
	for _, f := range fs {
		s := descFactC(f)
		if strings.Contains(s, "NodeSelector") {
			if len(s) > 100 {
				s = s[:100] + "…"
			}
			out = append(out, s)
		}
	}
	sort.Strings(out)
	return strings.Join(out, " ∧ ")
}

// ---------------------------------------------------------------------------------------------
// R3

// c15CanonRoot follows a parameter up through the static call sites inside reach until it is no
// longer a parameter; returns the set of canonical roots.
func c15CanonRoot(v ssa.Value, reach map[*ssa.Function]bool, depth int) []ssa.Value {
	p, ok := v.(*ssa.Parameter)
	if !ok || depth > 4 {
		return []ssa.Value{v}
	}
	sites := callSitesOf(p.Parent(), reach)
	if len(sites) == 0 {
		return []ssa.Value{v}
	}
	var out []ssa.Value
	idx := paramIndex(p)
	for _, cs := range sites {
		args := cs.Common().Args
		if idx < len(args) {
			out = append(out, c15CanonRoot(args[idx], reach, depth+1)...)
		}
	}
	return out
}

func c15Replicas(r *Run, rule string, s *c15Sel) {
	type site struct {
		c     *ssa.Call
		fn    *ssa.Function
		roots []ssa.Value
	}
	var sites []site
	for _, fn := range sortedFuncs(s.reach) {
		for _, ci := range callsIn(fn) {
			c, ok := ci.(*ssa.Call)
			if !ok || calleeName(&c.Call) != pkgIntstr+".GetValueFromIntOrPercent" || !hasPathSuffix(c.Call.Args[0], "Canary", "Replicas") {
				continue
			}
			pos := r.Prog.Pos(c.Pos())
			up, isC := constBool(c.Call.Args[2])
			r.Check(rule, "round up", pos, shortFunc(fn), "a percentage of canary replicas is rounded up", isC && up, "roundUp argument "+descValueC(c.Call.Args[2]))
			total := unwrap(c.Call.Args[1])
			root, p := accessPath(total)
			isEDS := isPtrToNamed(root.Type(), pkgAPI, "ExtendedDaemonSet") && pathIsC(p, "Status", "Desired")
			r.Check(rule, "total", pos, shortFunc(fn), "the total is Status.Desired of the ExtendedDaemonSet (the number of nodes it targets)", isEDS, "total "+descValueC(total))
			if isEDS {
				sites = append(sites, site{c, fn, c15CanonRoot(root, s.reach, 0)})
			}
		}
	}
	if len(sites) >= 2 {
		same := true
		var d []string
		for _, st := range sites {
			for _, rt := range st.roots {
				d = append(d, descValueC(rt)+"@"+shortFunc(st.fn))
				if rt != sites[0].roots[0] {
					same = false
				}
			}
		}
		r.Check(rule, "sibling agreement", r.Prog.Pos(sites[0].c.Pos()), shortFunc(sites[0].fn), "every resolution of the canary replicas uses the same ExtendedDaemonSet object's Status.Desired", same, strings.Join(d, ", "))
	}
}

// ---------------------------------------------------------------------------------------------
// R9: the template pod used for the fitness tests is the NEW replica set's

// c15TemplateSource: the pod handed to CheckNodeFitness is built (CreatePodFromDaemonSetReplicaSet)
// from a replica-set parameter of the selection function, and every call site of the selection
// function feeds that parameter — followed up through the callers' parameters to the reconciler —
// with the replica set that was selected under comparison.IsReplicaSetUpToDate(rs, eds) == true,
// i.e. the one matching spec.template. The same value's name is what the status records as
// Status.Canary.ReplicaSet (checked as a second witness where the caller passes it on).
func c15TemplateSource(r *Run, s *c15Sel) {
	fn := s.fn
	// replica-set parameter(s) the template pod is built from, restricted to pods that reach a fitness call
	params := map[*ssa.Parameter]bool{}
	nFit := 0
	for _, ci := range callsIn(fn) {
		c, ok := ci.(*ssa.Call)
		if !ok || calleeName(&c.Call) != pkgSched+".CheckNodeFitness" || len(c.Call.Args) != 3 {
			continue
		}
		nFit++
		pos := r.Prog.Pos(c.Pos())
		good := true
		for _, o := range origins(c.Call.Args[1]) {
			tc, isT := isResultOf(o, pkgPodUtils+".CreatePodFromDaemonSetReplicaSet", 0)
			if !isT || len(tc.Call.Args) < 2 {
				good = false
				continue
			}
			p, isP := tc.Call.Args[1].(*ssa.Parameter)
			if !isP || !isPtrToNamed(p.Type(), pkgAPI, "ExtendedDaemonSetReplicaSet") {
				good = false
				continue
			}
			params[p] = true
		}
		if !good {
			r.Check("C15.R9", "fitness pod", pos, shortFunc(fn), "the pod tested for fitness is built by the pod constructor from a replica-set parameter of the selection function", false, "pod argument "+descValueC(c.Call.Args[1]))
		}
	}
	if nFit == 0 || len(params) == 0 {
		r.Check("C15.R9", "fitness pod", r.Prog.Pos(fn.Pos()), shortFunc(fn), "the selection function tests fitness with a pod built from a replica-set parameter", false, "no such construction found")
		return
	}
	sites := callSitesOf(fn, s.reach)
	if len(sites) == 0 {
		r.Check("C15.R9", "template replica set", "-", shortFunc(fn), "the selection function is called from the reconcile path", false, "no static call site")
		return
	}
	ffs := map[*ssa.Function]*FuncFacts{}
	for _, cs := range sites {
		for p := range params {
			arg := cs.Common().Args[paramIndex(p)]
			pos := r.Prog.Pos(cs.Pos())
			// provenance: follow the argument up through callers' parameters and down into the results of
			// repository helpers; every non-nil leaf must be defined under IsReplicaSetUpToDate(...)==true
			var d []string
			nLeaves := 0
			var prov func(v ssa.Value, depth int) bool
			prov = func(v ssa.Value, depth int) bool {
				if depth > 6 {
					return false
				}
				okAll := true
				for _, o := range origins(v) {
					if isNilConst(o) {
						continue
					}
					switch x := o.(type) {
					case *ssa.Parameter:
						sites := callSitesOf(x.Parent(), s.reach)
						if len(sites) == 0 {
							d = append(d, descValueC(o)+" (parameter of an uncalled function)")
							okAll = false
						}
						for _, c2 := range sites {
							if i := paramIndex(x); i < len(c2.Common().Args) {
								if !prov(c2.Common().Args[i], depth+1) {
									okAll = false
								}
							}
						}
						continue
					case *ssa.Extract:
						if c2, isC := x.Tuple.(*ssa.Call); isC {
							if cal := staticCallee(&c2.Call); cal != nil && r.Prog.IsRuleSite(cal) && len(cal.Blocks) > 0 {
								for _, b := range cal.Blocks {
									if ret := returnOf(b); ret != nil && x.Index < len(ret.Results) {
										if !prov(ret.Results[x.Index], depth+1) {
											okAll = false
										}
									}
								}
								continue
							}
						}
					case *ssa.Call:
						if cal := staticCallee(&x.Call); cal != nil && r.Prog.IsRuleSite(cal) && len(cal.Blocks) > 0 && cal.Signature.Results().Len() == 1 {
							for _, b := range cal.Blocks {
								if ret := returnOf(b); ret != nil {
									if !prov(ret.Results[0], depth+1) {
										okAll = false
									}
								}
							}
							continue
						}
					}
					// leaf
					nLeaves++
					under := false
					if b := blockOf(o); b != nil {
						in := b.Parent()
						ff := ffs[in]
						if ff == nil {
							ff = computeFacts(in)
							ffs[in] = ff
						}
						under = ff.Holds(b, true, func(c ssa.Value, _ string) bool {
							_, ok := isCallTo(c, pkgComparison+".IsReplicaSetUpToDate")
							return ok
						})
					}
					d = append(d, fmt.Sprintf("%s (selected under IsReplicaSetUpToDate=%v)", descValueC(o), under))
					if !under {
						okAll = false
					}
				}
				return okAll
			}
			good := prov(arg, 0) && nLeaves > 0
			r.Check("C15.R9", "template replica set of the selection", pos, shortFunc(cs.Parent()),
				"node fitness is tested with the pod template of the replica set matching spec.template: the replica-set argument of the selection call is, at the reconciler, the value selected under comparison.IsReplicaSetUpToDate(...) == true",
				good, "argument "+descValueC(arg)+" resolves to "+strings.Join(d, "; "))
			// second witness: the same caller value names Status.Canary.ReplicaSet (through a callee that stores <param>.Name there)
			caller := cs.Parent()
			recorded, seen := true, false
			for _, ci := range callsIn(caller) {
				cal := staticCallee(ci.Common())
				if cal == nil || !r.Prog.IsRuleSite(cal) {
					continue
				}
				for _, st := range fieldStoresInC(cal, pkgAPI, "ExtendedDaemonSetStatusCanary", "ReplicaSet") {
					// the witness is emitted only when the stored value is identified as the name of a
					// replica-set parameter of the callee (P.Name, P.ObjectMeta.Name or P.GetName());
					// otherwise the first witness alone decides the clause
					pr := c15NameOfParam(st.Val)
					if pr == nil || !isPtrToNamed(pr.Type(), pkgAPI, "ExtendedDaemonSetReplicaSet") || paramIndex(pr) >= len(ci.Common().Args) {
						continue
					}
					seen = true
					if ci.Common().Args[paramIndex(pr)] != arg {
						recorded = false
					}
				}
			}
			if seen {
				r.Check("C15.R9", "selection and status name the same replica set", pos, shortFunc(caller),
					"the replica set whose template is used for the fitness tests is the one recorded as Status.Canary.ReplicaSet", recorded, "argument "+descValueC(arg))
			}
		}
	}
}

// c15NameOfParam: v is P.Name, P.ObjectMeta.Name or P.GetName() for a parameter P; returns P.
func c15NameOfParam(v ssa.Value) *ssa.Parameter {
	v = unwrap(v)
	var root ssa.Value
	if c, ok := v.(*ssa.Call); ok {
		if !strings.HasSuffix(calleeName(&c.Call), ".GetName") {
			return nil
		}
		var recv ssa.Value
		switch {
		case c.Call.IsInvoke():
			recv = unwrap(c.Call.Value)
		case len(c.Call.Args) == 1:
			recv = c.Call.Args[0]
		default:
			return nil
		}
		rt, p := accessPath(recv)
		if !pathIsMetaC(p) {
			return nil
		}
		root = rt
	} else {
		rt, p := accessPath(v)
		if !pathIsMetaC(p, "Name") {
			return nil
		}
		root = rt
	}
	pr, _ := root.(*ssa.Parameter)
	return pr
}

// ---------------------------------------------------------------------------------------------
// R4 (= C04.R5)

// c15Cap instantiates, under C04's rule ids, the two clauses of "the controller never adds nodes
// beyond the resolved spec.strategy.canary.replicas": the selection loop's bound (capRule) and the
// agreement of every resolution of Canary.Replicas (replicasRule).
func c15Cap(r *Run, capRule, replicasRule string) {
	s := c15FindSelection(r, capRule)
	if s == nil {
		return
	}
	c15CapWith(r, capRule, s, s.classify())
	c15Replicas(r, replicasRule, s)
}

func c15LenOf(k *keyer, v ssa.Value, list func(ssa.Value) bool) bool {
	ln := builtinCallC(v, "len")
	return ln != nil && list(ln.Call.Args[0])
}

func c15CapWith(r *Run, rule string, s *c15Sel, apps []c15Append) {
	fn := s.fn
	n := 0
	for _, a := range apps {
		if a.class != "new" {
			continue
		}
		n++
		apos := r.Prog.Pos(instrPos(a.ap))
		base, _, _ := appendPartsC(a.ap)
		l := a.loop
		// (a) the loop is entered only under len(list) < nb
		entryOK, why := true, ""
		phi, isPhi := base.(*ssa.Phi)
		if !isPhi || phi.Block() != l.Header {
			entryOK, why = false, "the extended list is not the loop-carried list"
		} else {
			for i, pred := range l.Header.Preds {
				if l.In[pred] {
					continue
				}
				l0 := phi.Edges[i]
				fs := s.ff.FactsAtEdge(pred, l.Header)
				found := false
				for _, f := range fs {
					c, ok := decodeCmpC(f)
					if ok && c.Op == "<" && c.Pol && c15LenOf(s.k, c.X, func(v ssa.Value) bool { return sameValueC(s.k, v, l0) }) && c.Y == s.nb {
						found = true
					}
				}
				if !found {
					entryOK, why = false, "no fact len("+descValueC(l0)+") < resolved replicas where the loop is entered; must-facts: "+descFactsC(fs)
				}
			}
		}
		r.Check(rule, "selection loop entered below the bound", apos, shortFunc(fn), "new nodes are looked for only while len(list) < resolved canary replicas", entryOK, why)
		// (b) after the append, every path that continues the loop re-establishes len(list) < nb
		isHeader := func(b *ssa.BasicBlock) bool { return b == l.Header }
		stop := func(b *ssa.BasicBlock) bool { return b == l.Header || !l.In[b] }
		paths, ok := enumPaths(fn, s.k, a.ap.Block(), isHeader, stop, 5000)
		r.paths += len(paths)
		contOK, why2 := ok, ""
		for _, p := range paths {
			found := false
			for _, f := range p.Facts {
				c, okc := decodeCmpC(f)
				if !okc || c.Y != s.nb {
					continue
				}
				isNew := func(v ssa.Value) bool { return v == ssa.Value(a.ap) || p.Resolve(v) == ssa.Value(a.ap) }
				if c15LenOf(s.k, c.X, isNew) && ((c.Op == "==" && !c.Pol) || (c.Op == "<" && c.Pol)) {
					found = true
				}
			}
			if !found {
				contOK = false
				why2 = "an iteration continues after the addition without the fact len(list) != / < resolved replicas; path facts: " + descFactsC(p.Facts)
			}
		}
		r.Check(rule, "bound re-checked after an addition", apos, shortFunc(fn), "after a node is added the loop is left when len(list) reachesC the resolved canary replicas", contOK, why2)
	}
	if n == 0 {
		r.Check(rule, "selection loop", r.Prog.Pos(fn.Pos()), shortFunc(fn), "the selection adds new nodes in a loop over the fresh node list", false, "no such append found")
	}
}

// ---------------------------------------------------------------------------------------------
// R5

func c15NonNilError(p *Path, v ssa.Value) (nonNil, isNil bool) {
	v = p.Resolve(v)
	if isNilConst(v) {
		return false, true
	}
	if c, ok := v.(*ssa.Call); ok {
		switch calleeName(&c.Call) {
		case "fmt.Errorf", "errors.New":
			return true, false
		}
	}
	if nilFactC(p.Facts, false, func(x ssa.Value) bool { return x == v }) {
		return true, false
	}
	return false, false
}

func c15Shortage(r *Run, s *c15Sel) {
	fn := s.fn
	errIdx := fn.Signature.Results().Len() - 1
	if errIdx < 0 || fn.Signature.Results().At(errIdx).Type().String() != "error" {
		r.Undecided("C15.R5", "shortage error", r.Prog.Pos(fn.Pos()), shortFunc(fn), "the selection function does not return an error")
		return
	}
	// every nil-error return is dominated by the store
	for _, b := range fn.Blocks {
		ret := returnOf(b)
		if ret == nil {
			continue
		}
		canBeNil := false
		for _, o := range origins(ret.Results[errIdx]) {
			if isNilConst(o) {
				canBeNil = true
			}
		}
		if canBeNil && !s.store.Block().Dominates(b) {
			r.Check("C15.R5", "success without a selection", r.Prog.Pos(instrPos(ret)), shortFunc(fn), "a return without error happens only after status.canary.nodes has been stored", false, "")
		}
	}
	paths, ok := enumPaths(fn, s.k, s.store.Block(), isReturnBlock, nil, 5000)
	r.paths += len(paths)
	if !ok || len(paths) == 0 {
		r.Undecided("C15.R5", "shortage error", r.Prog.Pos(instrPos(s.store)), shortFunc(fn), "paths from the store to the returns cannot be enumerated")
		return
	}
	isStored := func(v ssa.Value) bool {
		if v == s.store.Val {
			return true
		}
		ld, ok := v.(*ssa.UnOp)
		return ok && ld.Op == token.MUL && sameValueC(s.k, ld.X, s.store.Addr)
	}
	for _, p := range paths {
		ret := returnOf(p.Blocks[len(p.Blocks)-1])
		pos := r.Prog.Pos(instrPos(ret))
		nonNil, isNil := c15NonNilError(p, ret.Results[errIdx])
		switch {
		case nonNil:
			o := r.Check("C15.R5", "return with an error", pos, shortFunc(fn), "—", true, "")
			o.Trivial = true
		case isNil:
			enough := false
			for _, f := range p.Facts {
				c, okc := decodeCmpC(f)
				if okc && c.Op == "<" && !c.Pol && c15LenOf(s.k, c.X, isStored) && c.Y == s.nb {
					enough = true
				}
			}
			r.Check("C15.R5", "return without error", pos, shortFunc(fn), "a return without error implies len(status.canary.nodes) >= resolved canary replicas (a shortage is reported as an error)", enough, "path facts: "+descFactsC(p.Facts))
		default:
			r.Undecided("C15.R5", "return of an error value", pos, shortFunc(fn), "cannot tell whether "+descValueC(p.Resolve(ret.Results[errIdx]))+" is nil")
		}
	}
	// the caller returns the error
	for _, cs := range callSitesOf(fn, s.reach) {
		call, ok := cs.(*ssa.Call)
		if !ok {
			r.Undecided("C15.R5", "caller propagates the error", r.Prog.Pos(cs.Pos()), shortFunc(cs.Parent()), "selection started with go/defer")
			continue
		}
		caller := call.Parent()
		var errVal ssa.Value = call
		if fn.Signature.Results().Len() > 1 {
			errVal = nil
			for _, rf := range refs(call) {
				if e, ok := rf.(*ssa.Extract); ok && e.Index == errIdx {
					errVal = e
				}
			}
		}
		cIdx := caller.Signature.Results().Len() - 1
		good, why := errVal != nil && cIdx >= 0, ""
		if good {
			k2 := newKeyer(caller)
			ps, okp := enumPaths(caller, k2, call.Block(), isReturnBlock, nil, 5000)
			r.paths += len(ps)
			good = okp
			nErr := 0
			for _, p := range ps {
				if !nilFactC(p.Facts, false, func(x ssa.Value) bool { return x == errVal }) {
					continue
				}
				nErr++
				ret := returnOf(p.Blocks[len(p.Blocks)-1])
				res := p.Resolve(ret.Results[cIdx])
				if res != errVal && !dependsOn(res, func(x ssa.Value) bool { return x == errVal }) {
					good, why = false, "on a path where the selection failed the caller returns "+descValueC(res)
				}
			}
			if nErr == 0 {
				good, why = false, "the caller never tests the selection error"
			}
		}
		r.Check("C15.R5", "caller propagates the error", r.Prog.Pos(call.Pos()), shortFunc(caller), "when the selection fails the reconcile returns that error", good, why)
	}
}

// ---------------------------------------------------------------------------------------------
// R6

func c15Order(r *Run, s *c15Sel, apps []c15Append) {
	fn := s.fn
	// (a) sort.Slice(nodeList.Items, less) with less(i,j) = restarts[items[i].Name] < restarts[items[j].Name]
	var sortCall *ssa.Call
	for _, ci := range callsIn(fn) {
		c, ok := ci.(*ssa.Call)
		if !ok {
			continue
		}
		n := calleeName(&c.Call)
		if n != "sort.Slice" && n != "sort.SliceStable" {
			continue
		}
		ld, isLd := unwrap(c.Call.Args[0]).(*ssa.UnOp)
		if !isLd {
			continue
		}
		fa, isFA := ld.X.(*ssa.FieldAddr)
		if isFA && fieldName(fa) == "Items" && s.sameList(fa.X) {
			sortCall = c
		}
	}
	if sortCall == nil {
		r.Check("C15.R6", "candidates sorted by restarts", r.Prog.Pos(fn.Pos()), shortFunc(fn), "the fresh node list is sorted (sort.Slice) before new nodes are taken", false, "no sort.Slice over the node list")
	} else {
		pos := r.Prog.Pos(sortCall.Pos())
		before := instrBeforeC(s.listAt, sortCall)
		for _, a := range apps {
			if a.class == "new" && !instrBeforeC(sortCall, a.loop.Header.Instrs[len(a.loop.Header.Instrs)-1]) {
				before = false
			}
		}
		r.Check("C15.R6", "sort precedes the selection loop", pos, shortFunc(fn), "the sort of the candidates runs after the node List and before the loop that takes new nodes", before, "")
		var less *ssa.Function
		var mc *ssa.MakeClosure
		switch m := sortCall.Call.Args[1].(type) {
		case *ssa.MakeClosure:
			mc = m
			less, _ = m.Fn.(*ssa.Function)
		case *ssa.Function:
			less = m
		case *ssa.Call:
			// a function that builds and returns the comparator
			if cal := repoCalleeC(&m.Call); cal != nil {
				if rv, ok := s.al.resultOf(cal, 0).(*ssa.MakeClosure); ok {
					mc = rv
					less, _ = rv.Fn.(*ssa.Function)
				}
			}
		}
		good, why := false, "the comparator is not a function literal"
		if less != nil && len(less.Params) == 2 {
			good, why = c15Less(s, less, mc)
		}
		r.Check("C15.R6", "candidates sorted by restarts", pos, shortFunc(fn), "the comparator is restarts[items[i].Name] < restarts[items[j].Name] for a map counting container restarts per node of the listed pods", good, why)
	}
	// (b) every previously selected name that is still fit and not a duplicate is kept
	nKept := 0
	for _, a := range apps {
		if a.class != "kept" {
			continue
		}
		nKept++
		l := a.loop
		base, _, _ := appendPartsC(a.ap)
		paths, ok := backEdgePathsC(fn, s.k, l.Header, l.Body, l.In, 2000)
		r.paths += len(paths)
		good, why := ok, ""
		for _, p := range paths {
			if p.Contains(a.ap.Block()) {
				continue
			}
			unfit := false
			for _, f := range p.Facts {
				lk, isL := f.V.(*ssa.Lookup)
				if isL && !f.Pol && !lk.CommaOk && sameValueC(s.k, lk.Index, a.elem) {
					if okm, _ := s.fitnessMap(lk.X); okm {
						unfit = true
					}
				}
			}
			dup := valueFactC(p.Facts, true, func(v ssa.Value) bool {
				c, ok := v.(*ssa.Call)
				if !ok || len(c.Call.Args) != 2 {
					return false
				}
				cal := staticCallee(&c.Call)
				return cal != nil && (membershipFuncC(cal) || strings.HasPrefix(funcName(cal), "slices.Contains")) && sameValueC(s.k, c.Call.Args[1], a.elem) &&
					(sameValueC(s.k, c.Call.Args[0], base) || p.Resolve(c.Call.Args[0]) == base)
			})
			if !unfit && !dup {
				good = false
				why = "a previously selected name is dropped on a path with facts: " + descFactsC(p.Facts)
			}
		}
		r.Check("C15.R6", "still-valid names are kept", r.Prog.Pos(instrPos(a.ap)), shortFunc(fn), "a previously selected name is dropped only if it is no longer a fit, freshly listed node or is a duplicate", good, why)
	}
	if nKept == 0 {
		wholesale := false
		for _, l := range s.leaves {
			if s.prev(l) {
				wholesale = true
			}
		}
		o := r.Check("C15.R6", "still-valid names are kept", r.Prog.Pos(fn.Pos()), shortFunc(fn), "previously selected names are carried over", wholesale,
			map[bool]string{true: "the previous list is carried over wholesale (removals are not modelled here; C15.R2 reports the missing re-validation)", false: "no append of previously selected names found"}[wholesale])
		o.Trivial = wholesale
	}
}

func c15Less(s *c15Sel, less *ssa.Function, mc *ssa.MakeClosure) (bool, string) {
	pi, pj := less.Params[0], less.Params[1]
	for _, b := range less.Blocks {
		ret := returnOf(b)
		if ret == nil {
			continue
		}
		cmp, ok := ret.Results[0].(*ssa.BinOp)
		if !ok || (cmp.Op != token.LSS && cmp.Op != token.GTR) {
			return false, "returns " + descValueC(ret.Results[0])
		}
		x, y := cmp.X, cmp.Y
		if cmp.Op == token.GTR {
			x, y = y, x
		}
		lx, okx := x.(*ssa.Lookup)
		ly, oky := y.(*ssa.Lookup)
		if !okx || !oky {
			return false, "operands are not map lookups"
		}
		// the keys are items[i].Name / items[j].Name for one slice `items` that denotes <listed nodes>.Items:
		// captured directly, or handed to the function that builds the comparator (free variables and
		// parameters are resolved to what the selection function bound them to)
		which := func(l *ssa.Lookup) (*ssa.Parameter, bool) {
			root, p := accessPath(unwrap(l.Index))
			ia, ok := root.(*ssa.IndexAddr)
			if !ok || !pathIsMetaC(p, "Name") {
				return nil, false
			}
			pr, _ := ia.Index.(*ssa.Parameter)
			for _, st := range ipPathsC(s.al, ia.X) {
				if pathIsC(st.Path, "Items") && s.sameList(st.Root) {
					return pr, true
				}
			}
			return pr, false
		}
		px, okLx := which(lx)
		py, okLy := which(ly)
		if px != pi || py != pj {
			return false, "the comparison is not restarts[items[i].Name] < restarts[items[j].Name] (operands swapped or other keys)"
		}
		if !okLx || !okLy {
			return false, "the compared items are not elements of the freshly listed node list"
		}
		// the restart map: made by the selection function or by the helper that counts the restarts
		mapOf := func(v ssa.Value) *ssa.MakeMap {
			for _, st := range ipPathsC(s.al, v) {
				if len(st.Path) != 0 {
					continue
				}
				if m, ok := st.Root.(*ssa.MakeMap); ok {
					return m
				}
				if m, ok := s.al.canon(st.Root).(*ssa.MakeMap); ok {
					return m
				}
			}
			return nil
		}
		mm := mapOf(lx.X)
		if mm == nil || mapOf(ly.X) != mm {
			return false, "the two lookups do not use one restart map"
		}
		if mm == nil {
			return false, "the restart map is not a map made by the selection function or a helper it calls"
		}
		// updates of the map: key pod.Spec.NodeName of a listed pod, value depends on RestartCount
		mfn := mm.Parent()
		mk := newKeyer(mfn)
		nUpd := 0
		for _, b2 := range mfn.Blocks {
			for _, in := range b2.Instrs {
				mu, ok := in.(*ssa.MapUpdate)
				if !ok {
					continue
				}
				if mu.Map != ssa.Value(mm) && s.al.canon(mu.Map) != ssa.Value(mm) {
					continue
				}
				nUpd++
				okKey := false
				for _, l := range sliceLoopsC(mfn) {
					// the ranged slice is <listed PodList>.Items, possibly handed to the helper as a parameter
					isItems := false
					for _, w := range s.al.chain(l.Slice) {
						root, p := accessPath(w)
						if s.podList != nil && (root == s.podList || s.al.same(root, s.podList)) && pathIsC(p, "Items") {
							isItems = true
						}
					}
					if isItems {
						if pp, isEl := l.elemPath(mk, mu.Key); isEl && pathIsC(pp, "Spec", "NodeName") {
							okKey = true
						}
					}
				}
				if !okKey {
					return false, "the restart map is keyed by " + descValueC(mu.Key) + ", not by the node name of a listed pod"
				}
				if !dependsOn(mu.Value, func(v ssa.Value) bool { _, p := accessPath(v); return len(p) > 0 && p[len(p)-1] == "RestartCount" }) {
					return false, "the restart map's values do not derive from container restart counts"
				}
			}
		}
		if nUpd == 0 {
			return false, "the restart map is never filled"
		}
	}
	return true, ""
}

// ---------------------------------------------------------------------------------------------
// R7

// c15RecordedFlag: v is passed to a callee parameter under which (must-fact param == true) the
// callee records the canary replica set in the status (store to Status.Canary.ReplicaSet).
func c15RecordedFlag(p *Prog, caller *ssa.Function, v ssa.Value) bool {
	for _, ci := range callsIn(caller) {
		cal := staticCallee(ci.Common())
		if cal == nil || !p.IsRuleSite(cal) {
			continue
		}
		for i, arg := range ci.Common().Args {
			if arg != v || i >= len(cal.Params) {
				continue
			}
			stores := fieldStoresInC(cal, pkgAPI, "ExtendedDaemonSetStatusCanary", "ReplicaSet")
			if len(stores) == 0 {
				continue
			}
			ff := computeFacts(cal)
			all := true
			for _, st := range stores {
				if !valueFactC(ff.At(st.Block()), true, func(x ssa.Value) bool { return x == ssa.Value(cal.Params[i]) }) {
					all = false
				}
			}
			if all {
				return true
			}
		}
	}
	return false
}

func c15Revalidation(r *Run, s *c15Sel) {
	sites := callSitesOf(s.fn, s.reach)
	if len(sites) == 0 {
		r.Check("C15.R7", "selection call", "-", shortFunc(s.fn), "the selection function is called from the reconcile path", false, "no static call site")
		return
	}
	for _, cs := range sites {
		caller := cs.Parent()
		ff := computeFacts(caller)
		fs := ff.At(cs.Block())
		pos := r.Prog.Pos(cs.Pos())
		extra := 0
		var keys []string
		byKey := map[string]Fact{}
		for kk, f := range fs {
			keys = append(keys, kk)
			byKey[kk] = f
		}
		sort.Strings(keys)
		for _, kk := range keys {
			f := byKey[kk]
			// allowed guards
			if c, ok := decodeCmpC(f); ok && c.Op == "==" {
				// Spec.Strategy.Canary != nil
				if !c.Pol && ((isNilConst(c.Y) && hasPathSuffix(unwrap(c.X), "Strategy", "Canary")) || (isNilConst(c.X) && hasPathSuffix(unwrap(c.Y), "Strategy", "Canary"))) {
					continue
				}
				// err == nil of the replicas resolution
				isResErr := func(v ssa.Value) bool {
					e, ok := v.(*ssa.Extract)
					if !ok || e.Index != 1 {
						return false
					}
					call, ok := e.Tuple.(*ssa.Call)
					return ok && calleeName(&call.Call) == pkgIntstr+".GetValueFromIntOrPercent" && hasPathSuffix(call.Call.Args[0], "Canary", "Replicas")
				}
				if c.Pol && ((isNilConst(c.Y) && isResErr(c.X)) || (isNilConst(c.X) && isResErr(c.Y))) {
					continue
				}
			}
			if f.Pol && c15RecordedFlag(r.Prog, caller, f.V) {
				continue
			}
			// anything else skips re-validation on some reconcile with a recorded canary
			extra++
			// keyed by the reconciler entry point, not by the function that happens to contain the call:
			// the guard is the same finding wherever a refactoring moves it
			r.Check("C15.R7", "node selection guarded by "+c15GuardDesc(f), pos, c15Entry(r),
				"while a canary is recorded every reconcile re-runs the node selection (which re-validates the selected nodes); the call may be guarded only by `canary strategy set`, `canary recorded` and `replicas resolved without error`",
				false, "extra guard "+descFactC(f)+": when it does not hold the selected nodes are not re-validated (a deleted, relabelled or tainted canary node stays in status.canary.nodes)")
		}
		if extra == 0 {
			r.Check("C15.R7", "node selection runs whenever a canary is recorded", pos, c15Entry(r), "no extra guard on the selection call", true, "must-facts: "+descFactsC(fs))
		}
	}
}

// c15GuardDesc gives a short, stable description of a guard fact.
func c15GuardDesc(f Fact) string {
	if c, ok := decodeCmpC(f); ok && c.Op == "==" {
		isRes := func(v ssa.Value) bool {
			e, ok := v.(*ssa.Extract)
			if !ok || e.Index != 0 {
				return false
			}
			call, ok := e.Tuple.(*ssa.Call)
			return ok && calleeName(&call.Call) == pkgIntstr+".GetValueFromIntOrPercent"
		}
		isLenNodes := func(v ssa.Value) bool {
			ln := builtinCallC(v, "len")
			return ln != nil && hasPathSuffix(unwrap(ln.Call.Args[0]), "Canary", "Nodes")
		}
		if (isRes(c.X) && isLenNodes(c.Y)) || (isRes(c.Y) && isLenNodes(c.X)) {
			if c.Pol {
				return "resolved replicas == len(status.canary.nodes)"
			}
			return "resolved replicas != len(status.canary.nodes)"
		}
	}
	s := descFactC(f)
	if len(s) > 120 {
		s = s[:120] + "…"
	}
	return s
}

// c15Entry names the ExtendedDaemonSet reconciler entry point (stable function part of R7's keys).
func c15Entry(r *Run) string {
	if rec := r.Prog.Method(pkgEDS, "Reconciler", "Reconcile"); rec != nil {
		return shortFunc(rec)
	}
	return "-"
}

// ---------------------------------------------------------------------------------------------
// R12: operator table of the selector conversion

func c15NoteConverter(s *c15Sel, c *ssa.CallCommon) {
	if cal := staticCallee(c); cal != nil {
		if s.convs == nil {
			s.convs = map[*ssa.Function]bool{}
		}
		s.convs[cal] = true
	}
}

// c15OpTable reads the operator table of a selector conversion: for every labels.NewRequirement call
// whose operator argument depends on a comparison of an `.Operator` field with a constant, the pairs
// (source operator constant -> selection operator constant) over all paths to the call.
func c15OpTable(fn *ssa.Function) (table map[string]string, problems []string) {
	table = map[string]string{}
	k := newKeyer(fn)
	loops := sliceLoopsC(fn)
	for _, ci := range callsIn(fn) {
		c, ok := ci.(*ssa.Call)
		if !ok || calleeName(&c.Call) != "k8s.io/apimachinery/pkg/labels.NewRequirement" || len(c.Call.Args) < 3 {
			continue
		}
		// table form: the operator is looked up in a package-level map keyed by the source operator
		tabled := false
		for _, o := range origins(c.Call.Args[1]) {
			var lk *ssa.Lookup
			switch x := o.(type) {
			case *ssa.Lookup:
				lk = x
			case *ssa.Extract:
				lk, _ = x.Tuple.(*ssa.Lookup)
			}
			if lk == nil || !hasPathSuffix(unwrap(lk.Index), "Operator") {
				continue
			}
			ld, isLd := lk.X.(*ssa.UnOp)
			if !isLd {
				continue
			}
			g, isG := ld.X.(*ssa.Global)
			if !isG {
				continue
			}
			entries, okE := c15GlobalMapEntries(g)
			if !okE {
				problems = append(problems, "the operator table "+g.Name()+" is not a constant map literal")
				continue
			}
			tabled = true
			for src, dst := range entries {
				if old, seen := table[src]; seen && old != dst {
					problems = append(problems, fmt.Sprintf("%s is mapped to both %q and %q", src, old, dst))
				}
				table[src] = dst
			}
		}
		if tabled {
			continue
		}
		from := fn.Blocks[0]
		var in map[*ssa.BasicBlock]bool
		for _, l := range loops {
			if l.In[c.Block()] && (in == nil || len(l.In) < len(in)) {
				from, in = l.Body, l.In
			}
		}
		isEnd := func(b *ssa.BasicBlock) bool { return b == c.Block() }
		stop := func(b *ssa.BasicBlock) bool { return b == c.Block() || (in != nil && !in[b]) }
		paths, okp := enumPaths(fn, k, from, isEnd, stop, 5000)
		if !okp {
			problems = append(problems, "path cap exceeded")
			continue
		}
		for _, p := range paths {
			src := ""
			for _, f := range p.Facts {
				cf, okc := decodeCmpC(f)
				if !okc || cf.Op != "==" || !cf.Pol {
					continue
				}
				for _, side := range [][2]ssa.Value{{cf.X, cf.Y}, {cf.Y, cf.X}} {
					if cs, isC := constString(side[0]); isC && hasPathSuffix(unwrap(side[1]), "Operator") {
						src = cs
					}
				}
			}
			if src == "" {
				continue // operator not chosen by a comparison on this path (e.g. the matchLabels requirement)
			}
			dst, isC := constString(p.Resolve(c.Call.Args[1]))
			if !isC {
				problems = append(problems, "operator argument is not a constant on the path for "+src)
				continue
			}
			if old, seen := table[src]; seen && old != dst {
				problems = append(problems, fmt.Sprintf("%s is mapped to both %q and %q", src, old, dst))
			}
			table[src] = dst
		}
	}
	return table, problems
}

func c15OperatorTable(r *Run, s *c15Sel) {
	// reference: k8s.io/apimachinery/pkg/apis/meta/v1.LabelSelectorAsSelector (body built on demand)
	var ref *ssa.Function
	if sp := r.Prog.SSAPkg(pkgMetaV1); sp != nil {
		sp.Build()
		ref = sp.Func("LabelSelectorAsSelector")
	}
	if ref == nil || len(ref.Blocks) == 0 {
		r.Undecided("C15.R12", "selector operator table", "-", "-", "the reference conversion metav1.LabelSelectorAsSelector is not available")
		return
	}
	want, _ := c15OpTable(ref)
	if len(want) == 0 {
		r.Undecided("C15.R12", "selector operator table", "-", "-", "no operator table could be read from metav1.LabelSelectorAsSelector")
		return
	}
	n := 0
	for _, fn := range sortedFuncs(s.convs) {
		if fn == ref || len(fn.Blocks) == 0 || !r.Prog.IsRuleSite(fn) {
			continue // the library conversion itself is the reference
		}
		n++
		got, problems := c15OpTable(fn)
		var keys []string
		for kk := range want {
			keys = append(keys, kk)
		}
		sort.Strings(keys)
		for _, kk := range keys {
			g, has := got[kk]
			detail := fmt.Sprintf("%s -> %q (reference %q)", kk, g, want[kk])
			if !has {
				detail = kk + " is not converted (the requirement would be dropped)"
			}
			r.Check("C15.R12", "operator "+kk, r.Prog.Pos(fn.Pos()), shortFunc(fn),
				"a matchExpression with this operator is converted to the same selection operator as by apimachinery's LabelSelectorAsSelector", has && g == want[kk], detail)
		}
		r.Check("C15.R12", "operator table is a function", r.Prog.Pos(fn.Pos()), shortFunc(fn), "every source operator is mapped to one selection operator, read as a constant", len(problems) == 0, strings.Join(problems, "; "))
	}
	if n == 0 {
		o := r.Check("C15.R12", "selector operator table", "-", "-", "the canary nodeSelector is converted by repository code", true, "the conversion is apimachinery's own (or no selector conversion was found by R8)")
		o.Trivial = true
	}
}

// ---------------------------------------------------------------------------------------------
// R13: the anti-affinity quota counts only nodes of the selection being built

// c15ChainValues: every slice value on the construction chain of v (phis, appends, re-slicings, cells).
func c15ChainValues(v ssa.Value) map[ssa.Value]bool {
	out := map[ssa.Value]bool{}
	var rec func(v ssa.Value)
	rec = func(v ssa.Value) {
		if v == nil || out[v] {
			return
		}
		out[v] = true
		switch x := v.(type) {
		case *ssa.Phi:
			for _, e := range x.Edges {
				rec(e)
			}
		case *ssa.Slice:
			rec(x.X)
		case *ssa.Call:
			if builtinCallC(x, "append") != nil {
				base, _, spread := appendPartsC(x)
				rec(base)
				if spread != nil {
					rec(spread)
				}
			}
		case *ssa.UnOp:
			if a, ok := x.X.(*ssa.Alloc); ok && x.Op == token.MUL {
				for _, rf := range refs(a) {
					if st, ok := rf.(*ssa.Store); ok && st.Addr == ssa.Value(a) {
						rec(st.Val)
					}
				}
			}
		}
	}
	rec(v)
	return out
}

func c15Quota(r *Run, s *c15Sel) {
	fn := s.fn
	// quota maps: integer maps made in the selection function whose lookups are compared, together
	// with the resolved replicas, in a branch condition
	quota := map[*ssa.MakeMap]bool{}
	for _, b := range fn.Blocks {
		iff := lastIfC(b)
		if iff == nil || !dependsOn(iff.Cond, func(v ssa.Value) bool { return v == s.nb }) {
			continue
		}
		for _, b2 := range fn.Blocks {
			for _, in := range b2.Instrs {
				lk, ok := in.(*ssa.Lookup)
				if !ok {
					continue
				}
				mm, ok := lk.X.(*ssa.MakeMap)
				if ok && dependsOn(iff.Cond, func(v ssa.Value) bool { return v == ssa.Value(lk) }) {
					quota[mm] = true
				}
			}
		}
	}
	// ... and integer maps advanced inside the selection loop (per-value counters of the selection),
	// whether or not a comparison still uses them
	selH := map[*ssa.BasicBlock]bool{}
	for _, a := range s.classify() {
		if a.class == "new" && a.loop != nil {
			selH[a.loop.Header] = true
		}
	}
	for _, l := range sliceLoopsC(fn) {
		if !selH[l.Header] {
			continue
		}
		for b := range l.In {
			for _, in := range b.Instrs {
				mu, ok := in.(*ssa.MapUpdate)
				if !ok {
					continue
				}
				mm, isMM := mu.Map.(*ssa.MakeMap)
				if !isMM {
					continue
				}
				if mt, isMap := mm.Type().Underlying().(*types.Map); isMap {
					if bt, isB := mt.Elem().Underlying().(*types.Basic); isB && bt.Info()&types.IsInteger != 0 {
						if c, isC := constInt(mu.Value); !isC || c != 0 {
							quota[mm] = true
						}
					}
				}
			}
		}
	}
	if len(quota) == 0 {
		o := r.Check("C15.R13", "anti-affinity quota", r.Prog.Pos(fn.Pos()), shortFunc(fn), "the selection applies a per-value quota", true, "no quota map compared with the resolved replicas: nothing to decide")
		o.Trivial = true
		return
	}
	c15QuotaGate(r, s, quota)
	chain := c15ChainValues(s.store.Val)
	inChain := func(v ssa.Value) bool {
		for cv := range chain {
			if sameValueC(s.k, v, cv) {
				return true
			}
		}
		return false
	}
	selHeaders := map[*ssa.BasicBlock]bool{}
	for _, a := range s.classify() {
		if a.class == "new" && a.loop != nil {
			selHeaders[a.loop.Header] = true
		}
	}
	loops := sliceLoopsC(fn)
	n := 0
	for _, b := range fn.Blocks {
		for _, in := range b.Instrs {
			mu, ok := in.(*ssa.MapUpdate)
			if !ok {
				continue
			}
			mm, isMM := mu.Map.(*ssa.MakeMap)
			if !isMM || !quota[mm] {
				continue
			}
			if c, isC := constInt(mu.Value); isC && c == 0 {
				continue // initialisation of a counter
			}
			n++
			pos := r.Prog.Pos(instrPos(mu))
			// (i) inside the selection loop: the candidate under consideration
			inSelection := false
			for _, l := range loops {
				if selHeaders[l.Header] && l.In[b] {
					inSelection = true
				}
			}
			if inSelection {
				r.Check("C15.R13", "quota counts the candidate under consideration", pos, shortFunc(fn), "inside the selection loop the counter is advanced for the node being considered", true, "")
				continue
			}
			// (ii) elsewhere (seeding the counters): only for a node that is a member of the selection being built
			fs := s.ff.At(b)
			member, why := false, "no membership fact"
			for _, f := range fs {
				if !f.Pol {
					continue
				}
				if call, isCall := f.V.(*ssa.Call); isCall && len(call.Call.Args) == 2 {
					cal := staticCallee(&call.Call)
					if cal != nil && (membershipFuncC(cal) || strings.HasPrefix(funcName(cal), "slices.Contains")) {
						if inChain(call.Call.Args[0]) {
							member = true
						} else {
							why = "membership is tested in " + descValueC(call.Call.Args[0]) + ", which is not the selection being built"
						}
					}
				}
				if cf, okc := decodeCmpC(f); okc && cf.Op == "==" {
					for _, side := range []ssa.Value{cf.X, cf.Y} {
						for _, l := range loops {
							if l.In[b] && l.isElem(s.k, side) {
								if inChain(l.Slice) {
									member = true
								} else if !s.freshLoop(l) {
									why = "membership is tested in " + descValueC(l.Slice) + ", which is not the selection being built"
								}
							}
						}
					}
				}
			}
			r.Check("C15.R13", "quota seeded from the selection being built", pos, shortFunc(fn),
				"outside the selection loop a per-value counter is advanced only for a node that is a member of the list being built (the kept, still valid names), so that dropped names do not use up the quota", member, why)
		}
	}
	if n == 0 {
		o := r.Check("C15.R13", "anti-affinity quota", r.Prog.Pos(fn.Pos()), shortFunc(fn), "the quota counters are advanced", true, "no counter update found")
		o.Trivial = true
	}
}

// c15GlobalMapEntries reads a package-level map variable initialised with a literal of constant
// string keys and values (in the package initialiser) and never written elsewhere.
func c15GlobalMapEntries(g *ssa.Global) (map[string]string, bool) {
	var mm *ssa.MakeMap
	for _, rf := range refs(g) {
		if st, ok := rf.(*ssa.Store); ok && st.Addr == ssa.Value(g) {
			m, isMM := st.Val.(*ssa.MakeMap)
			if !isMM || mm != nil {
				return nil, false
			}
			mm = m
		}
	}
	if mm == nil {
		// referrers of globals are not tracked by go/ssa: scan the package initialiser
		if g.Pkg == nil {
			return nil, false
		}
		ini := g.Pkg.Func("init")
		if ini == nil {
			return nil, false
		}
		for _, b := range ini.Blocks {
			for _, in := range b.Instrs {
				if st, ok := in.(*ssa.Store); ok && st.Addr == ssa.Value(g) {
					m, isMM := st.Val.(*ssa.MakeMap)
					if !isMM || mm != nil {
						return nil, false
					}
					mm = m
				}
			}
		}
		// no other function of the package may store to the global or update the map through it
		for _, mem := range g.Pkg.Members {
			f, isF := mem.(*ssa.Function)
			if !isF || f == ini {
				continue
			}
			for _, b := range f.Blocks {
				for _, in := range b.Instrs {
					switch x := in.(type) {
					case *ssa.Store:
						if x.Addr == ssa.Value(g) {
							return nil, false
						}
					case *ssa.MapUpdate:
						if ld, ok := x.Map.(*ssa.UnOp); ok && ld.X == ssa.Value(g) {
							return nil, false
						}
					}
				}
			}
		}
	}
	if mm == nil {
		return nil, false
	}
	out := map[string]string{}
	for _, rf := range refs(mm) {
		if mu, ok := rf.(*ssa.MapUpdate); ok && mu.Map == ssa.Value(mm) {
			k, ok1 := constString(mu.Key)
			v, ok2 := constString(mu.Value)
			if !ok1 || !ok2 {
				return nil, false
			}
			out[k] = v
		}
	}
	return out, len(out) > 0
}

// c15QuotaGate (R13): the quota test really gates the selection and is not more generous than an
// even share. (a) every path of the selection loop that consults a quota counter and then reaches
// the append of the new name carries `counter < quota`; (b) the quota is, as a linear form, at most
// ceil(resolved replicas / number of values): (replicas + len(m) + c)/len(m) with c <= -1, or
// (replicas + c)/len(m) with c <= 0 (a more conservative quota is accepted).
func c15QuotaGate(r *Run, s *c15Sel, quota map[*ssa.MakeMap]bool) {
	fn := s.fn
	isCounter := func(v ssa.Value) bool {
		lk, ok := unwrap(v).(*ssa.Lookup)
		if !ok {
			return false
		}
		mm, ok := lk.X.(*ssa.MakeMap)
		return ok && quota[mm]
	}
	dependsOnNb := func(v ssa.Value) bool { return dependsOn(v, func(x ssa.Value) bool { return x == s.nb }) }
	// gates: branch conditions comparing a counter with a value that depends on the resolved replicas
	type gate struct {
		blk   *ssa.BasicBlock
		quota ssa.Value
	}
	var gates []gate
	for _, b := range fn.Blocks {
		iff := lastIfC(b)
		if iff == nil {
			continue
		}
		for _, f := range s.k.normCond(iff.Cond, true) {
			cf, ok := decodeCmpC(f)
			if !ok {
				continue
			}
			switch {
			case isCounter(cf.X) && dependsOnNb(cf.Y):
				gates = append(gates, gate{b, cf.Y})
			case isCounter(cf.Y) && dependsOnNb(cf.X):
				gates = append(gates, gate{b, cf.X})
			}
		}
	}
	if len(gates) == 0 {
		r.Check("C15.R13", "quota gates the selection", r.Prog.Pos(fn.Pos()), shortFunc(fn),
			"the per-value counters maintained by the selection limit it: some branch compares a counter with a quota derived from the resolved replicas", false,
			"counters are advanced per anti-affinity value but no branch condition compares them with a quota (the anti-affinity keys have no effect)")
		return
	}
	// (a) the gate guards the append of a new name
	for _, a := range s.classify() {
		if a.class != "new" || a.loop == nil {
			continue
		}
		l := a.loop
		isEnd := func(b *ssa.BasicBlock) bool { return b == a.ap.Block() }
		stop := func(b *ssa.BasicBlock) bool { return b == a.ap.Block() || !l.In[b] || b == l.Header }
		paths, ok := enumPaths(fn, s.k, l.Body, isEnd, stop, 5000)
		r.paths += len(paths)
		good, detail := ok && len(paths) > 0, ""
		for _, p := range paths {
			consulted := false
			for _, g := range gates {
				if p.Contains(g.blk) {
					consulted = true
				}
			}
			if !consulted {
				continue // the quota does not apply on this path (no anti-affinity keys)
			}
			below := false
			for _, f := range p.Facts {
				cf, okc := decodeCmpC(f)
				if okc && cf.Op == "<" && cf.Pol && isCounter(cf.X) && dependsOnNb(cf.Y) {
					below = true
				}
			}
			if !below {
				good = false
				detail = "a name is appended after the quota was consulted without the fact counter < quota; path facts: " + descFactsC(p.Facts)
			}
		}
		r.Check("C15.R13", "quota gates the selection", r.Prog.Pos(instrPos(a.ap)), shortFunc(fn),
			"when the per-value quota is consulted, a new node is appended only while its value's counter is below the quota", good, detail)
	}
	// (b) the quota is at most an even share
	seen := map[ssa.Value]bool{}
	for _, g := range gates {
		if seen[g.quota] {
			continue
		}
		seen[g.quota] = true
		pos := r.Prog.Pos(instrPos(lastIfC(g.blk)))
		q, ok := unwrap(g.quota).(*ssa.BinOp)
		isLen := func(v ssa.Value) bool {
			ln := builtinCallC(unwrap(v), "len")
			if ln == nil {
				return false
			}
			mm, isMM := ln.Call.Args[0].(*ssa.MakeMap)
			return isMM && quota[mm]
		}
		if !ok || q.Op != token.QUO || !isLen(q.Y) {
			r.Undecided("C15.R13", "quota is at most an even share", pos, shortFunc(fn), "the quota is not a quotient by the number of anti-affinity values: "+descValueC(g.quota))
			continue
		}
		var lin func(v ssa.Value) (nbC, lenC, c int64, ok bool)
		lin = func(v ssa.Value) (int64, int64, int64, bool) {
			v = unwrap(v)
			if v == s.nb {
				return 1, 0, 0, true
			}
			if isLen(v) {
				return 0, 1, 0, true
			}
			if cst, isC := constInt(v); isC {
				return 0, 0, cst, true
			}
			if b, isB := v.(*ssa.BinOp); isB && (b.Op == token.ADD || b.Op == token.SUB) {
				a1, b1, c1, ok1 := lin(b.X)
				a2, b2, c2, ok2 := lin(b.Y)
				if !ok1 || !ok2 {
					return 0, 0, 0, false
				}
				if b.Op == token.SUB {
					a2, b2, c2 = -a2, -b2, -c2
				}
				return a1 + a2, b1 + b2, c1 + c2, true
			}
			return 0, 0, 0, false
		}
		nbC, lenC, c, okL := lin(q.X)
		if !okL {
			r.Undecided("C15.R13", "quota is at most an even share", pos, shortFunc(fn), "the numerator of the quota is not a linear form of the resolved replicas and the number of values: "+descValueC(q.X))
			continue
		}
		good := nbC == 1 && ((lenC == 1 && c <= -1) || (lenC == 0 && c <= 0))
		r.Check("C15.R13", "quota is at most an even share", pos, shortFunc(fn),
			"the per-value quota is at most ceil(resolved replicas / number of values): (replicas + len(values) + c)/len(values) needs c <= -1", good,
			fmt.Sprintf("quota = (%d*replicas + %d*len(values) + %d) / len(values)", nbC, lenC, c))
	}
}
