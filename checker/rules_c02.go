package main

// C02 — convergence. Only the structural necessary conditions of the statement's *fixpoint*
// clause are decided here ("further reconciles create or delete nothing" once every eligible
// node runs one up-to-date pod); convergence itself (a liveness property over fair histories)
// is not.

import (
	"fmt"
	"go/token"
	"go/types"

	"golang.org/x/tools/go/ssa"
)

func init() {
	register("C02", "Decides necessary conditions of the fixpoint clause only: in the converged state (every eligible node holds exactly one up-to-date pod, no other daemon pod exists) a sync plans nothing — (Q1) every node that can reach Result.PodsToCreate was appended under the fact `the node's pod is nil`; (Q2) every node that can reach Result.PodsToDelete was appended under the fact `the up-to-date comparison of that node's pod is false`; (Q3) every pod that can reach the clean-up list is appended under `phase Failed`, under `node not in the eligible map`, or is a non-first element of a per-node duplicate list; (Q4) the planner of replica sets that are neither active nor canary stores no pod operation; (Q5) status.canary, whose nodes the active replica set leaves alone, is decided on every path to the status write, so a stale canary cannot keep nodes out of the rollout for ever. In addition, structural necessary conditions of progress towards that state, each of which stalls the rollout for ever when broken: (Q6) defaulting is a fixed point recognised by IsDefaulted; (Q7) eligibility is decided by selector, required affinity and NoSchedule/NoExecute taints; (Q8) creations/deletions are withheld exactly by the pause/freeze annotations; (Q9) the creation/deletion budgets are computed from the matching counters and spec values, percentages rounded up; (Q10) the comparison and the constructor build the node-resources annotation key from the same roles; (Q11) every outdated pod that is not already terminating becomes a deletion candidate; (Q12) a per-batch throttle lets the batch run once its period has elapsed. Reaching the converged state within a bounded number of rounds (liveness over fair histories of two controllers and the kubelet) is NOT decided.", runC02)
}

func ersReconcile(r *Run) (*ssa.Function, map[*ssa.Function]bool) {
	rec := r.Prog.Method(pkgERS, "Reconciler", "Reconcile")
	if rec == nil {
		r.Fatal("anchor (%s.Reconciler).Reconcile not found", pkgERS)
		return nil, nil
	}
	return rec, r.Prog.reachableFuncs(rec)
}

// isResultField reports whether addr is &<strategy.Result>.<name>.
func isStrategyResultField(addr ssa.Value, name string) bool {
	fa, ok := addr.(*ssa.FieldAddr)
	if !ok || fieldName(fa) != name {
		return false
	}
	return typeName(fa.X.Type()) == pkgStrategy+".Result"
}

// appendedElems returns the element values appended by a builtin append call (through the
// varargs backing array), or nil when the second argument is an existing slice (append(a, b...)).
func appendedElems(ap *ssa.Call) (elems []ssa.Value, spread ssa.Value) {
	if len(ap.Call.Args) < 2 {
		return nil, nil
	}
	if sl, ok := ap.Call.Args[1].(*ssa.Slice); ok {
		if a, ok := sl.X.(*ssa.Alloc); ok {
			if _, isArr := a.Type().(*types.Pointer).Elem().Underlying().(*types.Array); isArr {
				for _, rr := range refs(a) {
					if ia, ok := rr.(*ssa.IndexAddr); ok {
						for _, r2 := range refs(ia) {
							if st, ok := r2.(*ssa.Store); ok && st.Addr == ssa.Value(ia) {
								elems = append(elems, st.Val)
							}
						}
					}
				}
				return elems, nil
			}
		}
	}
	return nil, ap.Call.Args[1]
}

// podPairedWith reports whether pod is the map value paired with node: both extracted from the
// same map-range Next, or pod = extract #0 of a lookup m[node].
func podPairedWith(pod, node ssa.Value) bool {
	pe, ok := pod.(*ssa.Extract)
	if !ok {
		return false
	}
	switch t := pe.Tuple.(type) {
	case *ssa.Next:
		ne, ok := node.(*ssa.Extract)
		return ok && ne.Tuple == ssa.Value(t) && ne.Index == 1 && pe.Index == 2
	case *ssa.Lookup:
		return pe.Index == 0 && t.Index == node
	}
	return false
}

func isPodPtr(t types.Type) bool { return isPtrToNamed(t, pkgCoreV1, "Pod") }

func runC02(r *Run) {
	r.RuleDoc("C02.Q1", "creation candidates are appended only under `pod of that node == nil`")
	r.RuleDoc("C02.Q2", "update-deletion candidates are appended only under `up-to-date comparison of that node's pod is false`")
	r.RuleDoc("C02.Q3", "clean-up candidates are failed pods, pods of nodes outside the eligible map, or non-first duplicates")
	r.RuleDoc("C02.Q4", "the planner for replica sets that are neither active nor canary plans no pod operation")
	r.Floor("C02.Q1", 2)
	r.Floor("C02.Q2", 2)
	r.Floor("C02.Q3", 3)
	r.Floor("C02.Q4", 1)
	r.NotCovered("convergence within a bounded number of rounds, from every reachable state, under every fair order of reconciles (liveness over histories); that created pods become Ready; the interplay of two replica sets; that the converged state is actually reached — only `nothing is planned once it is reached` is decided")

	_, reach := ersReconcile(r)
	if reach == nil {
		return
	}
	// planners = functions storing Result.PodsToCreate / PodsToDelete
	deleteFeeders := map[*ssa.Call]bool{}
	for _, fn := range sortedFuncs(reach) {
		for _, b := range fn.Blocks {
			for _, in := range b.Instrs {
				st, ok := in.(*ssa.Store)
				if !ok {
					continue
				}
				var rule, what string
				switch {
				case isStrategyResultField(st.Addr, "PodsToCreate"):
					rule, what = "C02.Q1", "PodsToCreate"
				case isStrategyResultField(st.Addr, "PodsToDelete"):
					rule, what = "C02.Q2", "PodsToDelete"
				default:
					continue
				}
				apps := r.Prog.appendSitesIP(st.Val)
				if len(apps) == 0 {
					if isNilConst(st.Val) {
						continue
					}
					r.Undecided(rule, "store "+what, r.Prog.Pos(instrPos(st)), shortFunc(fn), "stored list is not built by append (also looking into helpers and returned structs)")
					continue
				}
				for ai := 0; ai < len(apps); ai++ {
					ap := apps[ai]
					elems, spread := appendedElems(ap)
					if rule == "C02.Q2" {
						deleteFeeders[ap] = true
					}
					pos := r.Prog.Pos(instrPos(ap))
					ff := r.Prog.factsOf(ap.Parent())
					fn := ap.Parent()
					if spread != nil {
						// concatenation of two candidate lists: the first argument is walked by
						// appendSitesIP; walk the second explicitly.
						for _, ap2 := range r.Prog.appendSitesIP(spread) {
							dup := false
							for _, e := range apps {
								if e == ap2 {
									dup = true
								}
							}
							if !dup {
								apps = append(apps, ap2)
							}
						}
						continue
					}
					for _, el := range elems {
						ok := false
						var need string
						if rule == "C02.Q1" {
							need = "node appended to a creation list only under `pod of that node == nil`"
							ok = ff.Holds(ap.Block(), true, func(v ssa.Value, _ string) bool {
								return isNilCompareOf(v, func(x ssa.Value) bool { return isPodPtr(x.Type()) && podPairedWith(x, el) })
							})
						} else {
							need = "node appended to an update-deletion list only under `compareCurrentPodWithNewPod(pod of that node, node) == false`"
							ok = ff.Holds(ap.Block(), false, func(v ssa.Value, _ string) bool {
								c, isC := v.(*ssa.Call)
								if !isC {
									return false
								}
								cal := staticCallee(&c.Call)
								if cal == nil || !r.Prog.podComparators()[cal] {
									return false
								}
								// the comparison is about this node and the pod paired with it
								hasNode, hasPod := false, false
								for _, a := range c.Call.Args {
									if a == el {
										hasNode = true
									}
									if isPodPtr(a.Type()) && podPairedWith(a, el) {
										hasPod = true
									}
								}
								return hasNode && hasPod
							})
						}
						r.Check(rule, fmt.Sprintf("append to %s candidates", what), pos, shortFunc(fn), need, ok, "must-facts: "+truncate(ff.At(ap.Block()).String(), 300))
					}
				}
			}
		}
	}
	c02OutdatedAlwaysCandidate(r, reach, deleteFeeders)
	c02Cleanup(r, reach)
	c02Unknown(r, reach)
	r.RuleDoc("C02.Q5", "a canary recorded in the status cannot outlive its cause: status.canary is decided on every path to the status write (stale canary nodes would stay hidden from the rolling update for ever)")
	r.Floor("C02.Q5", 1)
	c14CanaryAlwaysDecided(r, "C02.Q5")
	c02Imports(r)
}

func truncate(s string, n int) string {
	if len(s) > n {
		return s[:n] + "…"
	}
	return s
}

// c02Cleanup: the function that builds the per-node map (it calls CheckNodeFitness and returns a
// []*Pod clean-up list) appends to that list only failed pods, pods of nodes not in the map, or
// the duplicates computed by the duplicate filter.
func c02Cleanup(r *Run, reach map[*ssa.Function]bool) {
	// The mapping function is found from what it feeds: the value stored into
	// strategy.Parameters.PodToCleanUp is result #k of a repository function.
	type site struct {
		fn  *ssa.Function
		idx int
	}
	var sites []site
	for _, fn := range sortedFuncs(reach) {
		for _, st := range storesTo(fn, "PodToCleanUp") {
			for _, o := range origins(st.Val) {
				if ex, isE := o.(*ssa.Extract); isE {
					if c, isC := ex.Tuple.(*ssa.Call); isC {
						if cal := staticCallee(&c.Call); cal != nil && r.Prog.IsRuleSite(cal) {
							sites = append(sites, site{cal, ex.Index})
						}
					}
				}
			}
		}
	}
	if len(sites) == 0 {
		r.Undecided("C02.Q3", "clean-up list source", "-", "-", "no repository function result is stored into Parameters.PodToCleanUp")
		return
	}
	for _, s := range sites {
		c02CleanupFunc(r, s.fn, s.idx, 0)
	}
}

// c02CleanupFunc checks result #idx of fn (a []*Pod clean-up list).
func c02CleanupFunc(r *Run, fn *ssa.Function, idx int, depth int) {
	ff := computeFacts(fn)
	for _, b := range fn.Blocks {
		ret := returnOf(b)
		if ret == nil || len(ret.Results) <= idx {
			continue
		}
		apps := appendCallsOf(ret.Results[idx])
		for i := 0; i < len(apps); i++ {
			ap := apps[i]
			pos := r.Prog.Pos(instrPos(ap))
			elems, spread := appendedElems(ap)
			if spread != nil {
				// duplicates returned by the duplicate filter
				ok := false
				detail := "spread of " + spread.String()
				if ex, isE := spread.(*ssa.Extract); isE {
					if c, isC := ex.Tuple.(*ssa.Call); isC {
						if dup := staticCallee(&c.Call); dup != nil && r.Prog.IsRuleSite(dup) {
							ok = c02DuplicatesOnly(r, dup, ex.Index)
							detail = "duplicates from " + shortFunc(dup)
						}
					}
				}
				r.Check("C02.Q3", "clean-up list extended by a slice", pos, shortFunc(fn), "a slice appended to the clean-up list holds only non-first duplicates of a node", ok, detail)
				continue
			}
			for range elems {
				failed := ff.Holds(ap.Block(), true, func(v ssa.Value, _ string) bool {
					return isEqCompare(v, loadOfPath(nil, "Status", "Phase"), isConstStringVal("Failed"))
				})
				notInMap := ff.Holds(ap.Block(), false, func(v ssa.Value, _ string) bool {
					ex, isE := v.(*ssa.Extract)
					if !isE || ex.Index != 1 {
						return false
					}
					l, isL := ex.Tuple.(*ssa.Lookup)
					return isL && l.CommaOk
				})
				r.Check("C02.Q3", "append to clean-up list", pos, shortFunc(fn),
					"pod appended to the clean-up list only under phase==Failed or node-not-in-eligible-map", failed || notInMap,
					fmt.Sprintf("failed=%v notInMap=%v", failed, notInMap))
			}
		}
	}
}

// c02DuplicatesOnly: in the duplicate filter, elements reaching result #idx are appended only
// under `index != 0` of the per-node (sorted) pod list.
func c02DuplicatesOnly(r *Run, fn *ssa.Function, idx int) bool {
	ff := computeFacts(fn)
	okAll := true
	n := 0
	for _, b := range fn.Blocks {
		ret := returnOf(b)
		if ret == nil || len(ret.Results) <= idx {
			continue
		}
		for _, ap := range appendCallsOf(ret.Results[idx]) {
			elems, spread := appendedElems(ap)
			if spread != nil {
				// append(dups, pods[1:]...): everything but the first element of the (sorted) per-node list
				n++
				sl, isSl := spread.(*ssa.Slice)
				lowOK := false
				if isSl && sl.Low != nil {
					if z, okz := constInt(sl.Low); okz && z >= 1 {
						lowOK = true
					}
				}
				if !lowOK {
					okAll = false
				}
				continue
			}
			for range elems {
				n++
				if !ff.Holds(ap.Block(), false, func(v ssa.Value, _ string) bool {
					bo, isB := v.(*ssa.BinOp)
					if !isB || bo.Op != token.EQL {
						return false
					}
					z, okz := constInt(bo.Y)
					return okz && z == 0
				}) {
					okAll = false
				}
			}
		}
	}
	return okAll && n > 0
}

// c02Unknown: the planner called for the unknown role stores neither PodsToCreate nor PodsToDelete.
func c02Unknown(r *Run, reach map[*ssa.Function]bool) {
	// the unknown-role planner is the strategy function called by the role switch that is neither
	// the one storing PodsToDelete from a compare-guarded list... identify it as: a function of the
	// strategy package returning *Result that stores Result.NewStatus.Desired = 0.
	for _, fn := range sortedFuncs(reach) {
		if fn.Pkg == nil || fn.Pkg.Pkg.Path() != pkgStrategy {
			continue
		}
		storesZeroDesired := false
		plans := false
		for _, b := range fn.Blocks {
			for _, in := range b.Instrs {
				st, ok := in.(*ssa.Store)
				if !ok {
					continue
				}
				if hasPathSuffix(st.Addr, "NewStatus", "Desired") {
					if z, okz := constInt(st.Val); okz && z == 0 {
						storesZeroDesired = true
					}
				}
				if isStrategyResultField(st.Addr, "PodsToCreate") || isStrategyResultField(st.Addr, "PodsToDelete") {
					plans = true
				}
			}
		}
		if !storesZeroDesired {
			continue
		}
		// also no direct API write
		writes := false
		for _, e := range effectsOf(r.Prog.reachableFuncs(fn)) {
			if isWriteVerb(e.Verb) {
				writes = true
			}
		}
		r.Check("C02.Q4", "leftover replica set plans nothing", r.Prog.Pos(fn.Pos()), shortFunc(fn),
			"the planner that reports Desired=0 (replica set neither active nor canary) stores no PodsToCreate/PodsToDelete and performs no API write", !plans && !writes,
			fmt.Sprintf("plans=%v writes=%v", plans, writes))
	}
}

// c02OutdatedAlwaysCandidate (C02.Q11): the converse of Q2, needed for progress. In a planner that
// compares a node's pod with the template and feeds update-deletion candidates under the answer
// "outdated", EVERY iteration path on which the comparison is false reaches one of the appends that
// feed Result.PodsToDelete (or leaves the function with an error). Otherwise some class of outdated
// pods (say: the available ones) is never replaced and the rollout never reaches the final state.
// A path on which the pod is known to be terminating already (DeletionTimestamp != nil) is exempt.
// Decided only where the comparison and a feeder append live in the same function (the shape the
// rule can read); other shapes yield no obligation — the rule never guesses.
func c02OutdatedAlwaysCandidate(r *Run, reach map[*ssa.Function]bool, feeders map[*ssa.Call]bool) {
	r.RuleDoc("C02.Q11", "every outdated pod is a deletion candidate: each iteration path on which the up-to-date comparison is false passes an append feeding Result.PodsToDelete")
	n := 0
	for _, fn := range sortedFuncs(reach) {
		if !r.Prog.IsRuleSite(fn) {
			continue
		}
		feederBlocks := map[*ssa.BasicBlock]bool{}
		for ap := range feeders {
			if ap.Parent() == fn {
				feederBlocks[ap.Block()] = true
			}
		}
		if len(feederBlocks) == 0 {
			continue
		}
		k := newKeyer(fn)
		for _, b := range fn.Blocks {
			for _, in := range b.Instrs {
				c, ok := in.(*ssa.Call)
				if !ok {
					continue
				}
				cal := staticCallee(&c.Call)
				if cal == nil || !r.Prog.podComparators()[cal] {
					continue
				}
				headers := enclosingLoopHeaders(fn, b)
				inLoop := func(x *ssa.BasicBlock) bool {
					for h := range headers {
						if !enclosingLoopHeaders(fn, x)[h] {
							return false
						}
					}
					return true
				}
				isEnd := func(x *ssa.BasicBlock) bool {
					if headers[x] {
						return true
					}
					return returnOf(x) != nil
				}
				paths, okp := enumPaths(fn, k, b, isEnd, func(x *ssa.BasicBlock) bool { return false }, 20000)
				pos := r.Prog.Pos(instrPos(c))
				if !okp {
					r.Undecided("C02.Q11", "outdated pod becomes a deletion candidate", pos, shortFunc(fn), "path cap exceeded")
					continue
				}
				good, detail := true, ""
				cnt := 0
				ckey := k.key(c)
				for _, p := range paths {
					isFalse := false
					for _, f := range p.Facts {
						if f.Key == ckey && !f.Pol {
							isFalse = true
						}
					}
					if !isFalse {
						continue
					}
					cnt++
					hit := false
					for _, f := range p.Facts {
						// a pod that is already being deleted (DeletionTimestamp != nil) needs no new deletion
						if !f.Pol && isNilCompareOf(f.V, func(x ssa.Value) bool { return hasPathSuffix(x, "DeletionTimestamp") }) {
							hit = true
						}
					}
					for _, pb := range p.Blocks {
						if feederBlocks[pb] {
							hit = true
						}
					}
					last := p.Blocks[len(p.Blocks)-1]
					if !hit {
						if ret := returnOf(last); ret != nil && len(ret.Results) > 0 {
							// leaving with a non-nil error is fine
							if e := ret.Results[len(ret.Results)-1]; !isNilConst(e) && types.Identical(e.Type(), types.Universe.Lookup("error").Type()) {
								continue
							}
						}
						_ = inLoop
						good = false
						detail = "with the comparison false the iteration can end without appending the node to a list that feeds PodsToDelete: [" + shortFacts(p) + "]"
					}
				}
				r.paths += cnt
				if cnt == 0 {
					continue
				}
				n++
				r.Check("C02.Q11", "outdated pod becomes a deletion candidate", pos, shortFunc(fn),
					"every path with compareCurrentPodWithNewPod(...) == false reaches an append feeding Result.PodsToDelete", good, detail)
			}
		}
	}
	r.extra["C02.Q11 comparison sites decided"] = n
}
