package main

// C07 — a failed canary is rolled back to the active version.

import (
	"fmt"
	"go/constant"
	"go/token"
	"sort"
	"strings"

	"golang.org/x/tools/go/ssa"
)

func init() {
	register("C07", "Decides the structure of the rollback in the function that stores status.activeReplicaSet (found from that store): (R1) spec.template of the object to be written is stored only under IsCanaryDeploymentFailed(up-to-date replica set)=true, from <current>.Spec.Template where <current> is the parameter fed by the promotion decision's result (the active replica set unless explicitly validated, by C05.R1), and every path with failed=true performs that store; the status function called there ends every failed path with status.Canary=nil; the canary-active predicate is false whenever failed (so a failed path never re-selects canary nodes); (R2) on every failed path the status write precedes the object write, both are inside the guard !DeepEqual(reconciled object, new object) over whole objects, a successful status write is always followed by Update of the object, and the object handed to Update receives the new object's spec after the status write returned; the failed flag is read from the replica set, not from the object being written; (R3) the replica-set deletion predicate can be true only with all four pod counters of the replica set zero and, when its Canary-Failed condition (the type the canary evaluation writes) is true, only when now is not before LastTransitionTime + d with constant d ≥ 2 minutes; (R4) Delete(ExtendedDaemonSetReplicaSet) is reached only under current != nil, name ≠ current's name, up-to-date == nil or name ≠ its name, no deletion timestamp, and the deletion predicate true for the deleted element. (R11, imported C05.R6) the ExtendedDaemonSet controller's failed reader answers no only when the replica set's Canary-Failed condition is not true — no other condition can mask a failed canary between the status write and the spec write of the rollback.", runC07)
}

// c06FindEval returns the canary evaluation function (holds the IsFailed=true stores), or nil.
func c06FindEval(r *Run) *ssa.Function {
	entry := r.Prog.Func(pkgStrategy, "ManageCanaryDeployment")
	if entry == nil {
		return nil
	}
	var eval *ssa.Function
	for _, fn := range sortedFuncs(r.Prog.reachableFuncs(entry)) {
		for _, st := range storesToFieldOf(fn, pkgStrategy, "Result", "IsFailed") {
			if b, ok := constBool(st.Val); ok && b {
				eval = fn
			}
		}
	}
	return eval
}

type c07Ctx struct {
	r     *Run
	site  *decisionSite
	reach map[*ssa.Function]bool
	upd   *ssa.Function // function storing status.activeReplicaSet
	cur   *ssa.Parameter
	utd   *ssa.Parameter
	ds    *ssa.Parameter
	// the rollback frame: the function that restores the template (upd itself or a helper it calls)
	// with the roles seen from inside it, and the new object as upd sees it
	tFn                   *ssa.Function
	tCur, tUtd, tDs, tNew ssa.Value
	tCall                 *ssa.Call // call of tFn in upd (nil when tFn == upd)
	updNew                ssa.Value
}

// c07ParamFor returns the parameter of fn that, at every static call site, receives a value
// accepted by match.
func c07ParamFor(fn *ssa.Function, reach map[*ssa.Function]bool, match func(ssa.Value) bool) *ssa.Parameter {
	return c07ParamForD(fn, reach, match, 0)
}

// c07ParamForD: the parameter of fn that at every static call site receives a value accepted by
// match, directly or as the caller's own parameter with that role (helpers of helpers).
func c07ParamForD(fn *ssa.Function, reach map[*ssa.Function]bool, match func(ssa.Value) bool, depth int) *ssa.Parameter {
	cs := callSitesOf(fn, reach)
	if len(cs) == 0 || depth > 4 {
		return nil
	}
	var found *ssa.Parameter
	for i, p := range fn.Params {
		all := true
		for _, c := range cs {
			args := c.Common().Args
			if i >= len(args) {
				all = false
				continue
			}
			if match(args[i]) {
				continue
			}
			if q, isP := stripConv(args[i]).(*ssa.Parameter); isP && q.Parent() != fn && c07ParamForD(q.Parent(), reach, match, depth+1) == q {
				continue
			}
			all = false
		}
		if all {
			if found != nil {
				return nil // ambiguous
			}
			found = p
		}
	}
	return found
}

func (c *c07Ctx) fromDecision(v ssa.Value) bool {
	return derivesOnlyFrom(v, func(o ssa.Value) bool {
		if e, ok := o.(*ssa.Extract); ok && e.Index == 0 {
			if call, ok := e.Tuple.(*ssa.Call); ok {
				return staticCallee(&call.Call) == c.site.decision
			}
		}
		if call, ok := o.(*ssa.Call); ok {
			return staticCallee(&call.Call) == c.site.decision
		}
		return false
	})
}

func (c *c07Ctx) sameAsDecisionArg(role string) func(ssa.Value) bool {
	want := c.site.call.Call.Args[paramIndex(c.site.roles[role])]
	return func(v ssa.Value) bool { return v == want }
}

func runC07(r *Run) {
	r.RuleDoc("C07.R1", "under failed: template restored from the promotion decision's result, status.canary cleared, no canary-node selection")
	r.RuleDoc("C07.R2", "status write precedes the object write inside a whole-object diff guard; a successful status write is followed by the object write carrying the restored spec")
	r.RuleDoc("C07.R3", "deletion predicate: all four counters zero and ≥ 2 min after Canary-Failed")
	r.RuleDoc("C07.R4", "a replica set is deleted only if it is neither current nor up to date, not already deleting, and the deletion predicate holds")
	r.Floor("C07.R1", 8)
	r.Floor("C07.R2", 5)
	r.Floor("C07.R3", 3)
	r.Floor("C07.R4", 1)
	r.Floor("C07.R5", 2)
	r.Floor("C07.R6", 1)
	r.Floor("C07.R8", 2)
	r.RuleDoc("C07.R8", "the replica-set controller writes the replica set's status only by Status().Update of a copy of the object it read (a user's Canary-Failed mark is never overwritten silently)")
	r.RuleDoc("C07.R5", "the Canary-Failed verdict is reset to False only for the replica set that has become active; the canary strategy writes it from IsFailed")
	r.RuleDoc("C07.R6", "a failed canary is never promoted by elapsed time: status.activeReplicaSet stays unchanged")
	r.NotCovered("recovery from every crash point as a history property (only the write order, the guard and the recomputation inputs are decided); that the active replica set repopulates the former canary nodes (follows from C04.R2 once status.canary is nil); wall-clock arithmetic beyond the retention constant; the validated-and-failed corner (the decision then returns the up-to-date replica set itself, whose template is already the spec's)")

	site := findDecision(r, "C07.R1")
	if site == nil || !assignRolesA(r, "C07.R1", site) {
		return
	}
	c07FailedNotPromoted(r, site)
	c07StatusWriteIsConditional(r)
	failedConditionWrites(r, "C07.R5")
	_, reach := edsReconcile(r)
	c := &c07Ctx{r: r, site: site, reach: reach}
	// the update function: the callee of the decision's caller under which status.activeReplicaSet is
	// stored (by itself or by a helper that receives the status)
	var storeFns []*ssa.Function
	for _, fn := range sortedFuncs(reach) {
		if len(storesToFieldOf(fn, pkgAPI, "ExtendedDaemonSetStatus", "ActiveReplicaSet")) > 0 {
			storeFns = append(storeFns, fn)
		}
	}
	for _, ci := range callsIn(site.caller) {
		g := staticCallee(ci.Common())
		if g == nil || !r.Prog.IsRuleSite(g) || g == site.decision {
			continue
		}
		within := map[*ssa.Function]bool{}
		for _, h := range r.Prog.calleesWithin(g, 3) {
			within[h] = true
		}
		for _, sf := range storeFns {
			if within[sf] {
				c.upd = g
			}
		}
	}
	if c.upd == nil {
		for _, sf := range storeFns {
			if sf == site.caller {
				c.upd = sf
			}
		}
	}
	if c.upd == nil {
		return // reported by findDecision
	}
	c.cur = c07ParamFor(c.upd, reach, c.fromDecision)
	c.utd = c07ParamFor(c.upd, reach, c.sameAsDecisionArg("upToDate"))
	c.ds = c07ParamFor(c.upd, reach, c.sameAsDecisionArg("daemonset"))
	okRoles := c.cur != nil && c.utd != nil && c.ds != nil
	r.Check("C07.R1", "argument roles of the update call", r.Prog.Pos(c.upd.Pos()), shortFunc(c.upd),
		"the update function receives the promotion decision's result, the up-to-date replica set and the reconciled object", okRoles,
		fmt.Sprintf("current=%v upToDate=%v daemonset=%v", c.cur != nil, c.utd != nil, c.ds != nil))
	if okRoles {
		c07Rollback(c)
	}
	c07Cleanup(c)
	c07Imports(r)
}

func (c *c07Ctx) isFailedAtom(v ssa.Value) bool {
	call, ok := v.(*ssa.Call)
	utd := ssa.Value(c.utd)
	if c.tUtd != nil {
		utd = c.tUtd
	}
	return ok && calleeName(&call.Call) == pkgEDS+".IsCanaryDeploymentFailed" && len(call.Call.Args) == 1 && stripConv(call.Call.Args[0]) == utd
}

// c07Frame locates the function that restores spec.template: the update function itself or a
// repository function it calls, and translates the roles into that function's parameters.
func c07Frame(c *c07Ctx) bool {
	r := c.r
	hasTmpl := func(g *ssa.Function) bool {
		for _, st := range storesToFieldOf(g, pkgAPI, "ExtendedDaemonSetSpec", "Template") {
			if _, path := accessPath(st.Addr); len(path) == 2 && path[0] == "Spec" {
				return true
			}
		}
		return false
	}
	if hasTmpl(c.upd) {
		c.tFn, c.tCur, c.tUtd, c.tDs = c.upd, c.cur, c.utd, c.ds
		return true
	}
	for _, ci := range callsIn(c.upd) {
		call, isC := ci.(*ssa.Call)
		if !isC {
			continue
		}
		g := staticCallee(&call.Call)
		if g == nil || !r.Prog.IsRuleSite(g) || !hasTmpl(g) {
			continue
		}
		if c.tFn != nil {
			r.Undecided("C07.R1", "store Spec.Template", r.Prog.Pos(call.Pos()), shortFunc(c.upd), "spec.template is restored in more than one callee")
			return false
		}
		c.tFn, c.tCall = g, call
		for i, a := range call.Call.Args {
			if i >= len(g.Params) {
				break
			}
			sa := stripConv(a)
			switch {
			case sa == ssa.Value(c.cur):
				c.tCur = g.Params[i]
			case sa == ssa.Value(c.utd):
				c.tUtd = g.Params[i]
			case sa == ssa.Value(c.ds):
				c.tDs = g.Params[i]
			default:
				if cp, isCp := sa.(*ssa.Call); isCp && strings.HasSuffix(calleeName(&cp.Call), ".DeepCopy") && len(cp.Call.Args) == 1 && stripConv(cp.Call.Args[0]) == ssa.Value(c.ds) {
					c.tNew, c.updNew = g.Params[i], sa
				}
			}
		}
	}
	if c.tFn == nil {
		r.Check("C07.R1", "store Spec.Template", r.Prog.Pos(c.upd.Pos()), shortFunc(c.upd), "a failed canary restores spec.template", false, "no store to <object>.Spec.Template in the update function or a function it calls")
		return false
	}
	if c.tCur == nil || c.tUtd == nil || c.tDs == nil || c.tNew == nil {
		r.Undecided("C07.R1", "store Spec.Template", r.Prog.Pos(c.tCall.Pos()), shortFunc(c.upd), "the function restoring the template does not receive the decision's result, the up-to-date replica set, the reconciled object and its copy")
		return false
	}
	return true
}

type c07Write struct {
	call   ssa.CallInstruction
	status bool
	obj    ssa.Value
	idx    int // position in path order
}

func c07Rollback(c *c07Ctx) {
	if !c07Frame(c) {
		return
	}
	r, fn := c.r, c.tFn
	fname := shortFunc(fn)
	ff := computeFacts(fn)
	failedFact := func(v ssa.Value, _ string) bool { return c.isFailedAtom(v) }

	// template stores
	var tmplStores []*ssa.Store
	var newObj ssa.Value
	for _, st := range storesToFieldOf(fn, pkgAPI, "ExtendedDaemonSetSpec", "Template") {
		root, path := accessPath(st.Addr)
		if len(path) != 2 || path[0] != "Spec" {
			continue
		}
		tmplStores = append(tmplStores, st)
		pos := r.Prog.Pos(instrPos(st))
		if newObj != nil && newObj != root {
			r.Undecided("C07.R1", "store Spec.Template", pos, fname, "spec.template is stored into two different objects")
			return
		}
		newObj = root
		r.Check("C07.R1", "store Spec.Template guard", pos, fname, "spec.template is overwritten only when the canary replica set is failed",
			ff.Holds(st.Block(), true, failedFact), "must-facts: "+shortSet(ff.At(st.Block())))
		src, okS := singleRootWithSuffix(st.Val, "Spec", "Template")
		r.Check("C07.R1", "store Spec.Template source", pos, fname, "the template restored is the one of the promotion decision's result (the active replica set)",
			okS && src == c.tCur, "stored from "+describeVal(st.Val))
	}
	if len(tmplStores) == 0 {
		r.Check("C07.R1", "store Spec.Template", r.Prog.Pos(fn.Pos()), fname, "a failed canary restores spec.template", false, "no store to <object>.Spec.Template")
		return
	}
	if c.tFn == c.upd {
		if call, ok := newObj.(*ssa.Call); !ok || !strings.HasSuffix(calleeName(&call.Call), ".DeepCopy") || stripConv(call.Call.Args[0]) != ssa.Value(c.ds) {
			r.Undecided("C07.R1", "new object", r.Prog.Pos(fn.Pos()), fname, "the object receiving the restored template is not a DeepCopy of the reconciled object")
			return
		}
		c.tNew, c.updNew = newObj, newObj
	} else if newObj != c.tNew {
		r.Undecided("C07.R1", "new object", r.Prog.Pos(fn.Pos()), fname, "the object receiving the restored template is not the copy of the reconciled object handed in by the update function")
		return
	}
	r.Check("C07.R2", "failed flag source", r.Prog.Pos(fn.Pos()), fname, "the failed flag is read from the up-to-date replica set parameter, not from the object being written",
		isNamedType(c.utd.Type(), pkgAPI, "ExtendedDaemonSetReplicaSet"), "")

	// status functions: callees that store <status>.Canary
	c07StatusFunctions(c, newObj)

	// paths
	paths, k, ok := funcPaths(fn, 20000)
	r.paths += len(paths)
	if !ok {
		r.Undecided("C07.R2", "rollback paths", r.Prog.Pos(fn.Pos()), fname, "path cap exceeded")
		return
	}
	var failedPaths []*Path
	pruned := 0
	for _, p := range paths {
		if !p.Has(true, failedFact) {
			continue
		}
		if !pathFeasibleByCallees(r.Prog, p, k) {
			pruned++
			continue
		}
		failedPaths = append(failedPaths, p)
	}
	if len(failedPaths) == 0 {
		r.Check("C07.R1", "failed paths", r.Prog.Pos(fn.Pos()), fname, "the update function branches on IsCanaryDeploymentFailed(up-to-date replica set)", false, "no path carries the fact failed=true")
		return
	}
	isDeepEqual := func(v ssa.Value, _ string) bool {
		call, isC := v.(*ssa.Call)
		if !isC || !strings.HasSuffix(calleeName(&call.Call), ".DeepEqual") {
			return false
		}
		var hasDS, hasNew bool
		for _, a := range call.Call.Args {
			switch stripConv(a) {
			case ssa.Value(c.ds):
				hasDS = true
			case c.updNew:
				hasNew = true
			}
		}
		return hasDS && hasNew
	}
	type agg struct {
		ok     bool
		detail string
	}
	res := map[string]*agg{}
	names := []string{
		"failed paths restore the template",
		"failed paths never select canary nodes",
		"status write precedes object write",
		"writes inside the whole-object diff guard",
		"successful status write is followed by the object write",
		"object write carries the restored spec",
	}
	for _, n := range names {
		res[n] = &agg{ok: true}
	}
	bad := func(n, d string) {
		if res[n].ok {
			res[n].ok, res[n].detail = false, d
		}
	}
	// analyzeWrites checks the order and the payload of the API writes on one path of function w, in
	// which obj is the new object (with the restored template). It reports whether the path writes.
	analyzeWrites := func(w *ssa.Function, obj ssa.Value, p *Path, desc string, tmpl []*ssa.Store) bool {
		var writes []c07Write
		var specStores []int // path-order indices of stores <x>.Spec = … deriving from obj.Spec, with their root
		var specRoots []ssa.Value
		idx := 0
		for _, b := range p.Blocks {
			for _, in := range b.Instrs {
				idx++
				switch x := in.(type) {
				case ssa.CallInstruction:
					if e := clientEffect(w, x); e != nil && isWriteVerb(e.Verb) && shortKind(e.Kind) == "ExtendedDaemonSet" {
						writes = append(writes, c07Write{call: x, status: e.Status, obj: stripConv(e.Obj), idx: idx})
					}
					if g := staticCallee(x.Common()); g != nil && r.Prog.IsRuleSite(g) {
						for _, a := range x.Common().Args {
							if rt, pp := accessPath(a); rt == obj && len(pp) >= 2 && pp[0] == "Status" && pp[1] == "Canary" {
								bad("failed paths never select canary nodes", desc+" hands status.canary to "+shortFunc(g))
							}
						}
					}
				case *ssa.Store:
					if isFieldAddrOf(x.Addr, pkgAPI, "ExtendedDaemonSet", "Spec") {
						root, _ := accessPath(x.Addr)
						if dependsOn(x.Val, func(v ssa.Value) bool {
							rt, pp := accessPath(v)
							return rt == obj && len(pp) >= 1 && pp[0] == "Spec"
						}) {
							specStores = append(specStores, idx)
							specRoots = append(specRoots, root)
						}
					}
				}
			}
		}
		var statusW, objW *c07Write
		for i := range writes {
			wr := &writes[i]
			if wr.status && statusW == nil {
				statusW = wr
			}
			if !wr.status && objW == nil {
				objW = wr
			}
		}
		if statusW == nil && objW == nil {
			return false // nothing written: either equal objects or an error return before the writes
		}
		if objW != nil && (statusW == nil || statusW.idx > objW.idx) {
			bad("status write precedes object write", desc+" calls Update before Status().Update")
		}
		if statusW != nil {
			// success edge of the status write: fact (err == nil) true
			errV, _ := statusW.call.(ssa.Value)
			success := errV != nil && p.Has(true, func(v ssa.Value, _ string) bool {
				return isNilCompareOf(v, func(x ssa.Value) bool { return x == errV })
			})
			if success && objW == nil {
				bad("successful status write is followed by the object write", desc+" returns after a successful status write without Update")
			}
		}
		if objW != nil {
			okSpec := false
			if objW.obj == obj && (statusW == nil || statusW.obj != obj) {
				okSpec = true
			}
			// a copy of the new object that no earlier write has refreshed from the server
			if cp, isC := objW.obj.(*ssa.Call); isC && strings.HasSuffix(calleeName(&cp.Call), ".DeepCopy") && len(cp.Call.Args) == 1 && stripConv(cp.Call.Args[0]) == obj {
				fresh := true
				for _, wr := range writes {
					if wr.idx < objW.idx && wr.obj == objW.obj {
						fresh = false
					}
				}
				for _, st := range tmpl {
					if !mayFollow(st, cp) {
						fresh = false
					}
				}
				if fresh {
					okSpec = true
				}
			}
			for i, si := range specStores {
				if specRoots[i] == objW.obj && si < objW.idx && (statusW == nil || statusW.obj != objW.obj || si > statusW.idx) {
					okSpec = true
				}
			}
			if !okSpec {
				bad("object write carries the restored spec", desc+": the object handed to Update does not receive the new object's spec after the status write returned (Status().Update refreshes its argument from the server)")
			}
		}
		return true
	}
	// hasEDSWrite: functions that themselves write the ExtendedDaemonSet
	hasEDSWrite := func(g *ssa.Function) bool {
		for _, ci := range callsIn(g) {
			if e := clientEffect(g, ci); e != nil && isWriteVerb(e.Verb) && shortKind(e.Kind) == "ExtendedDaemonSet" {
				return true
			}
		}
		return false
	}
	type delegation struct {
		g     *ssa.Function
		pidx  int
		known map[int]bool
		desc  string
	}
	var delegations []delegation
	nWritePaths := 0
	// R1 on the failed paths of the function restoring the template
	for _, p := range failedPaths {
		desc := "path [" + c07PathDesc(p) + "]"
		hasTmpl := false
		for _, st := range tmplStores {
			if p.Contains(st.Block()) {
				hasTmpl = true
			}
		}
		if !hasTmpl {
			bad("failed paths restore the template", desc+" does not store spec.template")
		}
		if c.tFn != c.upd {
			analyzeWrites(fn, newObj, p, desc, tmplStores) // node selection on failed paths
		}
	}
	// R2 on the paths of the update function that a failed canary can take: the failed paths
	// themselves, or — when the template is restored in a callee — the paths compatible with what
	// that callee returns on its failed paths
	wPaths := failedPaths
	if c.tFn != c.upd {
		updPaths, ku, okU := funcPaths(c.upd, 20000)
		r.paths += len(updPaths)
		if !okU {
			r.Undecided("C07.R2", "rollback paths", r.Prog.Pos(c.upd.Pos()), shortFunc(c.upd), "path cap exceeded")
			return
		}
		k = ku
		type outcome struct {
			b      map[int]bool
			errNil map[int]bool
		}
		var outs []outcome
		for _, hq := range failedPaths {
			ret := returnOf(hq.Blocks[len(hq.Blocks)-1])
			o := outcome{map[int]bool{}, map[int]bool{}}
			for i, rv := range ret.Results {
				v := hq.Resolve(rv)
				if cb, isC := constBool(v); isC {
					o.b[i] = cb
				} else if rv.Type().String() == "error" {
					if isNilConst(v) {
						o.errNil[i] = true
					} else if hq.Has(false, func(x ssa.Value, _ string) bool {
						return isNilCompareOf(x, func(y ssa.Value) bool { return y == v })
					}) {
						o.errNil[i] = false
					}
				}
			}
			outs = append(outs, o)
		}
		resultVal := func(i int) ssa.Value {
			if c.tFn.Signature.Results().Len() == 1 {
				return c.tCall
			}
			for _, rf := range refs(c.tCall) {
				if e, isE := rf.(*ssa.Extract); isE && e.Index == i {
					return e
				}
			}
			return nil
		}
		wPaths = nil
		for _, p := range updPaths {
			if !p.Contains(c.tCall.Block()) {
				continue
			}
			compatible := false
			for _, o := range outs {
				okO := true
				for i, b := range o.b {
					if rv := resultVal(i); rv != nil && p.Facts.has(ku.key(rv), !b) {
						okO = false
					}
				}
				for i, isNil := range o.errNil {
					rv := resultVal(i)
					if rv != nil && p.Has(!isNil, func(x ssa.Value, _ string) bool {
						return isNilCompareOf(x, func(y ssa.Value) bool { return y == rv })
					}) {
						okO = false
					}
				}
				if okO {
					compatible = true
				}
			}
			if compatible {
				wPaths = append(wPaths, p)
			}
		}
		fn, newObj, tmplStores = c.upd, c.updNew, nil
	}
	for _, p := range wPaths {
		desc := "path [" + c07PathDesc(p) + "]"
		wrote := analyzeWrites(fn, newObj, p, desc, tmplStores)
		// the writes may be delegated to a repository function that receives the new object
		for _, b := range p.Blocks {
			for _, in := range b.Instrs {
				ci, isCall := in.(ssa.CallInstruction)
				if !isCall {
					continue
				}
				g := staticCallee(ci.Common())
				if g == nil || !r.Prog.IsRuleSite(g) || !hasEDSWrite(g) {
					continue
				}
				pidx := -1
				known := map[int]bool{}
				for ai, a := range ci.Common().Args {
					if stripConv(a) == newObj {
						pidx = ai
					}
					if a.Type().String() == "bool" {
						rv := p.Resolve(a)
						if cb, isC := constBool(rv); isC {
							known[ai] = cb
						} else if p.Facts.has(k.key(rv), true) {
							known[ai] = true
						} else if p.Facts.has(k.key(rv), false) {
							known[ai] = false
						}
					}
				}
				if pidx < 0 {
					bad("object write carries the restored spec", desc+": "+shortFunc(g)+" writes the ExtendedDaemonSet but does not receive the new object")
					continue
				}
				wrote = true
				delegations = append(delegations, delegation{g, pidx, known, desc + " → " + shortFunc(g)})
			}
		}
		if !wrote {
			continue
		}
		nWritePaths++
		if !p.Has(false, isDeepEqual) {
			bad("writes inside the whole-object diff guard", desc+" writes without the fact DeepEqual(reconciled object, new object)=false")
		}
	}
	doneDeleg := map[string]bool{}
	for _, d := range delegations {
		key := fmt.Sprintf("%p|%d|%v", d.g, d.pidx, d.known)
		if doneDeleg[key] {
			continue
		}
		doneDeleg[key] = true
		gpaths, _, okg := funcPaths(d.g, 20000)
		r.paths += len(gpaths)
		if !okg {
			bad("status write precedes object write", d.desc+": path cap exceeded")
			continue
		}
		nW := 0
		for _, q := range gpaths {
			compatible := true
			for _, f := range q.Facts {
				if pr, isP := f.V.(*ssa.Parameter); isP {
					if kv, okk := d.known[paramIndex(pr)]; okk && kv != f.Pol {
						compatible = false
					}
				}
			}
			if !compatible {
				continue
			}
			if analyzeWrites(d.g, d.g.Params[d.pidx], q, d.desc+" ["+c07PathDesc(q)+"]", nil) {
				nW++
			}
		}
		if nW == 0 {
			bad("status write precedes object write", d.desc+": no path of the callee performs a write")
		}
	}
	if nWritePaths == 0 {
		bad("status write precedes object write", "no failed path performs a write")
	}
	for _, n := range names {
		rule := "C07.R2"
		if strings.HasPrefix(n, "failed paths") {
			rule = "C07.R1"
		}
		r.Check(rule, n, r.Prog.Pos(fn.Pos()), fname, n+" (on every feasible path with failed=true)", res[n].ok, res[n].detail)
	}
	// the pruning relies on the canary-active predicate being false under failed: make it explicit
	for _, ci := range callsIn(c.tFn) {
		call, isC := ci.(*ssa.Call)
		if !isC {
			continue
		}
		g := staticCallee(&call.Call)
		if g == nil || !r.Prog.IsRuleSite(g) || g.Signature.Results().Len() != 1 || g.Signature.Results().At(0).Type().String() != "bool" {
			continue
		}
		for i, a := range call.Call.Args {
			if c.isFailedAtom(stripConv(a)) {
				can := boolCalleeCanReturn(g, true, map[int]bool{i: true})
				used := false
				for _, rf := range refs(call) {
					if _, isIf := rf.(*ssa.If); isIf {
						used = true
					}
				}
				if used {
					r.Check("C07.R1", "predicate "+shortFunc(g)+" under failed", r.Prog.Pos(call.Pos()), fname,
						"the canary-active predicate is false whenever the failed flag is true", !can, "")
				}
			}
		}
	}
	_ = pruned
}

func c07PathDesc(p *Path) string {
	var out []string
	for _, f := range p.Facts {
		if call, ok := f.V.(*ssa.Call); ok {
			n := calleeName(&call.Call)
			if i := strings.LastIndex(n, "."); i >= 0 {
				n = n[i+1:]
			}
			if i := strings.LastIndex(n, ")"); i >= 0 {
				n = n[i+1:]
			}
			if f.Pol {
				out = append(out, n)
			} else {
				out = append(out, "¬"+n)
			}
		}
	}
	sort.Strings(out)
	return strings.Join(out, " ")
}

// c07StatusFunctions checks the functions called with &newObj.Status that store <status>.Canary.
func c07StatusFunctions(c *c07Ctx, newObj ssa.Value) {
	r, fn := c.r, c.tFn
	n := 0
	for _, ci := range callsIn(fn) {
		call, isC := ci.(*ssa.Call)
		if !isC {
			continue
		}
		g := staticCallee(&call.Call)
		if g == nil || !r.Prog.IsRuleSite(g) || len(storesToFieldOf(g, pkgAPI, "ExtendedDaemonSetStatus", "Canary")) == 0 {
			continue
		}
		var statusParam, failedParam *ssa.Parameter
		for i, a := range call.Call.Args {
			if i >= len(g.Params) {
				break
			}
			if rt, pp := accessPath(a); rt == newObj && len(pp) == 1 && pp[0] == "Status" {
				statusParam = g.Params[i]
			}
			if c.isFailedAtom(stripConv(a)) {
				failedParam = g.Params[i]
			}
		}
		n++
		pos := r.Prog.Pos(call.Pos())
		if statusParam == nil || failedParam == nil {
			r.Check("C07.R1", "status function "+shortFunc(g)+" wiring", pos, shortFunc(fn), "the status function receives the new object's status and the failed flag", false, "")
			continue
		}
		// the call dominates every return reached with failed=true … it is in the block that tests failed or before
		paths, _, ok := funcPaths(g, 5000)
		r.paths += len(paths)
		if !ok {
			r.Undecided("C07.R1", "status function "+shortFunc(g), pos, shortFunc(g), "path cap exceeded")
			continue
		}
		okAll, detail, nf := true, "", 0
		for _, p := range paths {
			if !p.Has(true, func(v ssa.Value, _ string) bool { return v == ssa.Value(failedParam) }) {
				continue
			}
			nf++
			var last *ssa.Store
			for _, b := range p.Blocks {
				for _, in := range b.Instrs {
					if s, isS := in.(*ssa.Store); isS && isFieldAddrOf(s.Addr, pkgAPI, "ExtendedDaemonSetStatus", "Canary") {
						if rt, _ := accessPath(s.Addr); rt == ssa.Value(statusParam) {
							last = s
						}
					}
				}
			}
			if last == nil || !isNilConst(p.Resolve(last.Val)) {
				okAll = false
				detail = "a path with failed=true does not end with status.Canary = nil: " + shortFacts(p)
			}
		}
		if nf == 0 {
			okAll, detail = false, "no path branches on the failed flag"
		}
		r.Check("C07.R1", "status function "+shortFunc(g)+" clears status.canary when failed", r.Prog.Pos(g.Pos()), shortFunc(g),
			"every path with failed=true ends with status.Canary = nil (the failed case comes first)", okAll, detail)
		// the call is not skipped on failed paths: it is not under a failed=false fact and dominates the diff guard … approximated by: the call's block must-facts do not contain failed=false
		ffu := computeFacts(fn)
		skipped := ffu.Holds(call.Block(), false, func(v ssa.Value, _ string) bool { return c.isFailedAtom(v) })
		r.Check("C07.R1", "status function "+shortFunc(g)+" runs when failed", pos, shortFunc(fn), "the status function is called on failed paths", !skipped, "")
	}
	if n == 0 {
		r.Check("C07.R1", "status function", r.Prog.Pos(fn.Pos()), shortFunc(fn), "a callee of the update function clears status.canary", false, "no callee stores <status>.Canary")
	}
}

// c07Cleanup implements R3 and R4.
func c07Cleanup(c *c07Ctx) {
	r := c.r
	effs := effectsOf(c.reach)
	n := 0
	for _, e := range effs {
		if e.Verb != "Delete" || shortKind(e.Kind) != "ExtendedDaemonSetReplicaSet" {
			continue
		}
		n++
		// where is it decided that this object goes? at the Delete itself, or — collect-then-act —
		// where the object was appended to the slice of candidates that a helper returned
		obj := stripConv(e.Obj)
		decided := false
		if ps := pathsOf(obj); len(ps) == 1 && len(ps[0].fields) == 0 {
			if ia, isIA := ps[0].root.(*ssa.IndexAddr); isIA {
				var g *ssa.Function
				var idx int
				switch x := stripConv(ia.X).(type) {
				case *ssa.Call:
					g = staticCallee(&x.Call)
				case *ssa.Extract:
					if cc, isC := x.Tuple.(*ssa.Call); isC {
						g, idx = staticCallee(&cc.Call), x.Index
					}
				}
				if g != nil && r.Prog.IsRuleSite(g) {
					for _, b := range g.Blocks {
						ret := returnOf(b)
						if ret == nil || idx >= len(ret.Results) {
							continue
						}
						for _, ap := range appendCallsOf(ret.Results[idx]) {
							elems, complete := varargElems(ap.Call.Args[1])
							if !complete || len(elems) != 1 {
								r.Undecided("C07.R4", "Delete(ExtendedDaemonSetReplicaSet)", r.Prog.Pos(ap.Pos()), shortFunc(g), "the candidates for deletion are not appended one by one")
								decided = true
								continue
							}
							decided = true
							c07DeleteSite(c, g, ap, stripConv(elems[0]), r.Prog.Pos(ap.Pos()))
						}
					}
				}
			}
		}
		if !decided {
			c07DeleteSite(c, e.Fn, e.Call.(*ssa.Call), obj, r.Prog.Pos(e.Call.Pos()))
		}
	}
	if n == 0 {
		r.Check("C07.R4", "Delete(ExtendedDaemonSetReplicaSet)", "-", "-", "replica sets are garbage-collected by the ExtendedDaemonSet reconciler", false, "no Delete effect found")
	}
}

// c07DeleteSite checks the place where a replica set is selected for deletion: the Delete call
// itself, or the append to the list of candidates that is deleted afterwards.
func c07DeleteSite(c *c07Ctx, fn *ssa.Function, call *ssa.Call, obj ssa.Value, pos string) {
	r := c.r
	fname := shortFunc(fn)
	cur := c07ParamFor(fn, c.reach, c.fromDecision)
	utd := c07ParamFor(fn, c.reach, c.sameAsDecisionArg("upToDate"))
	if cur == nil || utd == nil {
		r.Undecided("C07.R4", "Delete(ExtendedDaemonSetReplicaSet)", pos, fname, "cannot find the parameters fed by the promotion decision's result and the up-to-date replica set")
		return
	}
	header := innermostLoopHeader(call.Block())
	if header == nil {
		r.Undecided("C07.R4", "Delete(ExtendedDaemonSetReplicaSet)", pos, fname, "the Delete is not inside a loop over the listed replica sets")
		return
	}
	k := newKeyer(fn)
	paths, ok := loopBodyPaths(fn, k, header, 20000)
	r.paths += len(paths)
	if !ok {
		r.Undecided("C07.R4", "Delete(ExtendedDaemonSetReplicaSet)", pos, fname, "path cap exceeded")
		return
	}
	// facts established before the loop (e.g. an early return on current == nil) hold in every iteration
	hf := computeFacts(fn).At(header)
	for _, p := range paths {
		for kk, f := range hf {
			if _, dup := p.Facts[kk]; !dup {
				p.Facts[kk] = f
			}
		}
	}
	// element identity: the address &items[i]; a range copy `rs` is a local cell holding *(&items[i])
	elemKey := func(root ssa.Value) string {
		if a, isA := root.(*ssa.Alloc); isA {
			var only ssa.Value
			cnt := 0
			for _, rf := range refs(a) {
				if st, isS := rf.(*ssa.Store); isS && st.Addr == ssa.Value(a) {
					cnt++
					only = st.Val
				}
			}
			if cnt == 1 {
				if u, isU := only.(*ssa.UnOp); isU && u.Op == token.MUL {
					return k.key(u.X)
				}
			}
		}
		return k.key(root)
	}
	objKey := elemKey(obj)
	isElemField := func(suffix ...string) func(ssa.Value) bool {
		return func(v ssa.Value) bool {
			root, okR := singleRootWithSuffix(stripConv(v), suffix...)
			if !okR {
				return false
			}
			ps := pathsOf(stripConv(v))
			for _, p := range ps {
				for _, f := range p.fields[:len(p.fields)-len(suffix)] {
					if f != "ObjectMeta" {
						return false
					}
				}
			}
			return elemKey(root) == objKey
		}
	}
	elemName := isElemField("Name")
	var pred *ssa.Function
	okAll, detail, nDel := true, "", 0
	for _, p := range paths {
		if !p.Contains(call.Block()) {
			continue
		}
		nDel++
		var missing []string
		if !p.Has(false, func(v ssa.Value, _ string) bool { return isNilCompareOf(v, isParam(cur)) }) {
			missing = append(missing, "current != nil")
		}
		if !p.Has(false, func(v ssa.Value, _ string) bool { return isEqCompare(v, elemName, nameOf(isParam(cur))) }) {
			missing = append(missing, "name != current.Name")
		}
		if !(p.Has(true, func(v ssa.Value, _ string) bool { return isNilCompareOf(v, isParam(utd)) }) ||
			p.Has(false, func(v ssa.Value, _ string) bool { return isEqCompare(v, elemName, nameOf(isParam(utd))) })) {
			missing = append(missing, "upToDate == nil ∨ name != upToDate.Name")
		}
		if !p.Has(true, func(v ssa.Value, _ string) bool { return isNilCompareOf(v, isElemField("DeletionTimestamp")) }) {
			missing = append(missing, "DeletionTimestamp == nil")
		}
		var g *ssa.Function
		for _, f := range p.Facts {
			cl, isC := f.V.(*ssa.Call)
			if !isC || !f.Pol {
				continue
			}
			gg := staticCallee(&cl.Call)
			if gg == nil || !r.Prog.IsRuleSite(gg) {
				continue
			}
			for _, a := range cl.Call.Args {
				if elemKey(stripConv(a)) == objKey {
					g = gg
				}
			}
		}
		if g == nil {
			missing = append(missing, "deletion predicate(element) == true")
		} else {
			pred = g
		}
		if len(missing) > 0 && okAll {
			okAll = false
			detail = "missing on a path to the Delete: " + strings.Join(missing, ", ") + "; path facts: " + shortFacts(p)
		}
	}
	if nDel == 0 {
		okAll, detail = false, "no iteration path reaches the Delete"
	}
	r.Check("C07.R4", "Delete(ExtendedDaemonSetReplicaSet) guard", pos, fname,
		"deleted only under current != nil ∧ name != current.Name ∧ (upToDate == nil ∨ name != upToDate.Name) ∧ DeletionTimestamp == nil ∧ deletion predicate", okAll, detail)
	if pred != nil {
		c07DeletionPredicate(c, pred)
	}
}

// c07DeletionPredicate implements R3 on the predicate found at the Delete site.
func c07DeletionPredicate(c *c07Ctx, g *ssa.Function) {
	r := c.r
	gname := shortFunc(g)
	pos := r.Prog.Pos(g.Pos())
	var ers, now *ssa.Parameter
	for _, p := range g.Params {
		if isNamedType(p.Type(), pkgAPI, "ExtendedDaemonSetReplicaSet") {
			ers = p
		}
		if typeName(p.Type()) == "time.Time" {
			now = p
		}
	}
	paths, k, ok := funcPaths(g, 5000)
	r.paths += len(paths)
	if !ok || ers == nil || now == nil {
		r.Undecided("C07.R3", "deletion predicate", pos, gname, "path cap exceeded or unexpected signature")
		return
	}
	// the condition type written from IsFailed by the canary evaluation
	written := ""
	if eval := c06FindEval(r); eval != nil {
		if w := c06FlagConditionWrite(eval, "IsFailed"); w != nil {
			written = w.typ
		}
	}
	counters := []string{"Desired", "Current", "Ready", "Available"}
	// matchers read a value in the environment of the helper it was found in (the predicate may
	// delegate to helpers that receive &ers.Status, now, …)
	counterOf := func(v ssa.Value, env *envT) string {
		ps := pathsOfE(v, env)
		if len(ps) != 1 || ps[0].root != ssa.Value(ers) || len(ps[0].fields) != 2 || ps[0].fields[0] != "Status" {
			return ""
		}
		return ps[0].fields[1]
	}
	statusOfErs := func(v ssa.Value, env *envT) bool {
		ps := pathsOfE(v, env)
		return len(ps) == 1 && ps[0].root == ssa.Value(ers) && len(ps[0].fields) == 1 && ps[0].fields[0] == "Status"
	}
	isNow := func(v ssa.Value, env *envT) bool {
		sv, _ := stripConvE(v, env)
		return sv == ssa.Value(now)
	}
	stop := func(h *ssa.Function) bool {
		return token.IsExported(h.Name()) || (h.Pkg != nil && h.Pkg.Pkg.Path() == pkgERSCond)
	}
	descAlt := func(alt []xfact) string {
		fs := factSet{}
		for _, xf := range alt {
			fs[fkey(xf.Fact)] = xf.Fact
		}
		return shortSet(fs)
	}
	var condTypes []string
	zeroOK, zeroDetail := true, ""
	retOK, retDetail := true, ""
	nTrue := 0
	for _, p := range paths {
		ret := returnOf(p.Blocks[len(p.Blocks)-1])
		res := p.Resolve(ret.Results[0])
		facts := factList(p.Facts)
		if b, isC := constBool(res); isC {
			if !b {
				continue
			}
		} else {
			facts = append(facts, k.normCond(res, true)...) // the result expression holds when true is returned
		}
		for _, alt := range expandAlternatives(r.Prog, facts, nil, 0, stop) {
			ersNil := false
			for _, xf := range alt {
				if xf.Pol && isNilCompareOf(xf.V, func(x ssa.Value) bool { sv, _ := stripConvE(x, xf.env); return sv == ssa.Value(ers) }) {
					ersNil = true
				}
			}
			if ersNil {
				continue // no replica set: nothing to keep
			}
			nTrue++
			// counters: facts x == 0 where x is a counter or a sum of counters
			zero := map[string]bool{}
			for _, xf := range alt {
				if !xf.Pol {
					continue
				}
				x, y, okE := eqOperands(xf.V)
				if !okE {
					continue
				}
				var sum ssa.Value
				if z, okz := constInt(y); okz && z == 0 {
					sum = x
				} else if z, okz := constInt(x); okz && z == 0 {
					sum = y
				}
				var leaves func(v ssa.Value)
				leaves = func(v ssa.Value) {
					if v == nil {
						return
					}
					if b2, isB2 := v.(*ssa.BinOp); isB2 && b2.Op == token.ADD {
						leaves(b2.X)
						leaves(b2.Y)
						return
					}
					if cn := counterOf(v, xf.env); cn != "" {
						zero[cn] = true
					}
				}
				leaves(sum)
			}
			var lacking []string
			for _, cn := range counters {
				if !zero[cn] {
					lacking = append(lacking, cn)
				}
			}
			if len(lacking) > 0 && zeroOK {
				zeroOK, zeroDetail = false, "the predicate can be true without requiring Status."+strings.Join(lacking, ", Status.")+" == 0: "+descAlt(alt)
			}
			// retention: what is known about the failure condition of this replica set
			var failedT tri
			byEnv := map[*envT][]Fact{}
			var envs []*envT
			for _, xf := range alt {
				if _, seen := byEnv[xf.env]; !seen {
					envs = append(envs, xf.env)
				}
				byEnv[xf.env] = append(byEnv[xf.env], xf.Fact)
			}
			for _, env := range envs {
				for _, a := range condTrueAtoms(byEnv[env]) {
					if !statusOfErs(a.call.Call.Args[0], env) {
						continue
					}
					failedT = a.val
					if a.typ != "" {
						condTypes = append(condTypes, a.typ)
					}
				}
			}
			switch failedT {
			case triFalse:
			case triUnknown:
				if retOK {
					retOK, retDetail = false, "the predicate can be true without consulting the replica set's Canary-Failed condition: "+descAlt(alt)
				}
			case triTrue:
				kept := false
				for _, xf := range alt {
					call, isC := xf.V.(*ssa.Call)
					if !isC || len(call.Call.Args) != 2 || xf.Pol {
						continue
					}
					var deadline ssa.Value
					switch calleeName(&call.Call) {
					case "(time.Time).Before": // now.Before(deadline) == false
						if isNow(call.Call.Args[0], xf.env) {
							deadline = call.Call.Args[1]
						}
					case "(time.Time).After": // deadline.After(now) == false
						if isNow(call.Call.Args[1], xf.env) {
							deadline = call.Call.Args[0]
						}
					}
					if deadline == nil {
						continue
					}
					dv, denv := stripConvE(deadline, xf.env)
					add, isAdd := dv.(*ssa.Call)
					if !isAdd || len(add.Call.Args) != 2 {
						continue
					}
					an := calleeName(&add.Call)
					if an != "(time.Time).Add" && !strings.HasSuffix(an, "v1.Time).Add") {
						continue
					}
					d, okD := constInt(add.Call.Args[1])
					if !okD || d < int64(2*60*1e9) {
						if retOK {
							retOK, retDetail = false, fmt.Sprintf("the retention added to the failure time is %v ns, less than 2 minutes", constant.MakeInt64(d))
						}
						continue
					}
					if c07IsFailureTime(add.Call.Args[0], ers, denv) {
						kept = true
					}
				}
				if !kept && retOK {
					retOK, retDetail = false, "with the Canary-Failed condition true the predicate can be true without the fact ¬now.Before(LastTransitionTime + d), d ≥ 2 min: "+descAlt(alt)
				}
			}
		}
	}
	if nTrue == 0 {
		zeroOK, zeroDetail = false, "the predicate can never be true for an existing replica set"
	}
	r.Check("C07.R3", "true only with all four counters zero", pos, gname, "a replica set is deleted only once it reports no pods (Desired, Current, Ready, Available all zero)", zeroOK, zeroDetail)
	r.Check("C07.R3", "failed replica set kept for two minutes", pos, gname, "with the Canary-Failed condition true, true only when now is not before LastTransitionTime + d, d ≥ 2 min", retOK, retDetail)
	okT := written != "" && len(condTypes) > 0
	for _, t := range condTypes {
		if t != written {
			okT = false
		}
	}
	r.Check("C07.R3", "retention reads the condition the canary evaluation writes", pos, gname, "the failure condition consulted is the one written from Result.IsFailed", okT, fmt.Sprintf("written %q, consulted %v", written, condTypes))
}

// c07IsFailureTime: v is <cond>.LastTransitionTime(.Time) where <cond> is the Canary-Failed
// condition of ers.Status: Conditions[GetIndexForConditionType(&ers.Status, T)] or
// GetExtendedDaemonSetReplicaSetStatusCondition(&ers.Status, T).
func c07IsFailureTime(v ssa.Value, ers *ssa.Parameter, env *envT) bool {
	ps := pathsOfE(v, env)
	if len(ps) != 1 {
		return false
	}
	p := ps[0]
	f := p.fields
	if len(f) >= 1 && f[len(f)-1] == "Time" {
		f = f[:len(f)-1]
	}
	if len(f) != 1 || f[0] != "LastTransitionTime" {
		return false
	}
	// the root lives in the function where the value was found: its own arguments are read in env
	statusOfErs := func(x ssa.Value) bool {
		q := pathsOfE(x, env)
		return len(q) == 1 && q[0].root == ssa.Value(ers) && len(q[0].fields) >= 1 && q[0].fields[0] == "Status"
	}
	switch root := p.root.(type) {
	case *ssa.IndexAddr:
		idx, isC := stripConv(root.Index).(*ssa.Call)
		if !isC || calleeName(&idx.Call) != pkgERSCond+".GetIndexForConditionType" || !statusOfErs(idx.Call.Args[0]) {
			return false
		}
		q := pathsOfE(root.X, env)
		return len(q) == 1 && q[0].root == ssa.Value(ers) && len(q[0].fields) == 2 && q[0].fields[0] == "Status" && q[0].fields[1] == "Conditions"
	case *ssa.Call:
		return calleeName(&root.Call) == pkgERSCond+".GetExtendedDaemonSetReplicaSetStatusCondition" && statusOfErs(root.Call.Args[0])
	}
	return false
}

// c07FailedNotPromoted implements R6: status.activeReplicaSet stays unchanged for a failed canary —
// every path of the promotion decision that returns the up-to-date replica set without
// active==upToDate / active==nil / no canary strategy / explicit validation carries failed=false
// (the failed reader applied to the up-to-date replica set).
func c07FailedNotPromoted(r *Run, site *decisionSite) {
	fn := site.decision
	paths, _, ok := funcPaths(fn, 5000)
	r.paths += len(paths)
	if !ok {
		r.Undecided("C07.R6", "failed canary never becomes the active replica set", r.Prog.Pos(fn.Pos()), shortFunc(fn), "path cap exceeded")
		return
	}
	utd := site.roles["upToDate"]
	okAll, detail, n := true, "", 0
	for _, p := range paths {
		ret := returnOf(p.Blocks[len(p.Blocks)-1])
		if unwrap(p.Resolve(ret.Results[0])) != ssa.Value(utd) {
			continue
		}
		// every alternative of the path (helpers of the decision expanded) must justify the promotion
		for _, alt := range decisionAlternatives(r.Prog, p) {
			var notes []string
			a := classifyDecisionA(r.Prog, site, alt, &notes)
			if is(a.eqActive, true) || is(a.activeNil, true) || is(a.noCanary, true) || is(a.valid, true) {
				continue
			}
			n++
			if !is(a.failed, false) && okAll {
				okAll = false
				detail = "a path returns the up-to-date replica set without explicit validation and without failed=false: " + describeAtoms(a)
				if len(notes) > 0 {
					detail += "; " + strings.Join(notes, "; ")
				}
			}
		}
	}
	o := r.Check("C07.R6", "failed canary never becomes the active replica set", r.Prog.Pos(fn.Pos()), shortFunc(fn),
		"the promotion decision returns the up-to-date replica set by elapsed time only under IsCanaryDeploymentFailed(up-to-date replica set)=false, so status.activeReplicaSet and the restored template stay those of the active replica set", okAll, detail)
	if n == 0 {
		o.Trivial = true
	}
}

// c07StatusWriteIsConditional implements R8: the failure mark lives in the replica set's status
// and is also written by the user (kubectl eds canary fail). The replica-set controller therefore
// writes that status only with optimistic concurrency: every write of an
// ExtendedDaemonSetReplicaSet reachable from its Reconcile is Status().Update (never Patch / a merge
// patch, which carries no resourceVersion and replaces status.conditions wholesale, and never a
// plain Update, which ignores the status) of a copy of the replica set object it was handed (the
// one read at the start of this reconcile, carrying the resourceVersion that was read).
func c07StatusWriteIsConditional(r *Run) {
	rec := r.Prog.Method(pkgERS, "Reconciler", "Reconcile")
	if rec == nil {
		r.Fatal("anchor (%s.Reconciler).Reconcile not found", pkgERS)
		return
	}
	n := 0
	for _, e := range effectsOf(r.Prog.reachableFuncs(rec)) {
		if !isWriteVerb(e.Verb) || shortKind(e.Kind) != "ExtendedDaemonSetReplicaSet" {
			continue
		}
		n++
		pos := r.Prog.Pos(e.Call.Pos())
		okVerb := e.Status && e.Verb == "Update"
		detail := ""
		if !okVerb {
			detail = "the replica set is written with " + e.String() + ": no conflict detection against a concurrent status write (or the status is not written at all)"
		}
		r.Check("C07.R8", "replica-set status write is Status().Update", pos, shortFunc(e.Fn),
			"the replica-set controller writes the replica set only through Status().Update, which fails on a concurrent change instead of overwriting a user's Canary-Failed mark", okVerb, detail)
		// the written object is (a copy of) the replica set handed to the function, i.e. the one read in this reconcile
		obj := stripConv(e.Obj)
		src := obj
		if cp, isC := obj.(*ssa.Call); isC && strings.HasSuffix(calleeName(&cp.Call), ".DeepCopy") && len(cp.Call.Args) == 1 {
			src = stripConv(cp.Call.Args[0])
		}
		okObj := false
		for _, s := range argSources(r.Prog, src, 0) {
			// the object fetched by Get in this reconcile: a local allocation passed to client.Get, or the result of the function doing so
			if c07IsFetched(r, s, 0) {
				okObj = true
			} else {
				okObj = false
				break
			}
		}
		d2 := ""
		if !okObj {
			d2 = "the written object is " + describeVal(obj) + ", not a copy of the replica set read by this reconcile (its resourceVersion is what makes the write conditional)"
		}
		r.Check("C07.R8", "replica-set status write uses the object that was read", pos, shortFunc(e.Fn),
			"the object handed to Status().Update is a copy of the replica set read at the start of the reconcile", okObj, d2)
	}
	if n == 0 {
		r.Check("C07.R8", "replica-set status write", "-", "-", "the replica-set controller persists the replica set's status", false, "no write of an ExtendedDaemonSetReplicaSet found")
	}
}

// c07IsFetched: v is an object filled by client.Get — the allocation handed to Get, or the result
// of a repository function all of whose non-nil returns are such an allocation.
func c07IsFetched(r *Run, v ssa.Value, depth int) bool {
	v = stripConv(v)
	if depth > 3 {
		return false
	}
	switch x := v.(type) {
	case *ssa.Alloc:
		for _, rf := range refs(x) {
			mi, isMI := rf.(*ssa.MakeInterface)
			if !isMI {
				continue
			}
			for _, rf2 := range refs(mi) {
				if ci, isCall := rf2.(ssa.CallInstruction); isCall {
					if e := clientEffect(ci.Parent(), ci); e != nil && e.Verb == "Get" {
						return true
					}
				}
			}
		}
		return false
	case *ssa.Call, *ssa.Extract:
		outs := r.Prog.stepOut(v)
		n := 0
		for _, o := range outs {
			if isNilConst(stripConv(o)) {
				continue
			}
			n++
			if !c07IsFetched(r, o, depth+1) {
				return false
			}
		}
		return n > 0
	case *ssa.Phi:
		n := 0
		for _, e := range x.Edges {
			if isNilConst(stripConv(e)) {
				continue
			}
			n++
			if !c07IsFetched(r, e, depth+1) {
				return false
			}
		}
		return n > 0
	}
	return false
}
