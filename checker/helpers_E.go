package main

// Generic helpers added for the C10 / C13 / C20 rules.

import (
	"fmt"
	"go/constant"
	"go/token"
	"go/types"
	"sort"
	"strings"

	"golang.org/x/tools/go/ssa"
)

// constNum returns the numeric value of an integer or floating point constant.
func constNum(v ssa.Value) (float64, bool) {
	c, ok := unwrap(v).(*ssa.Const)
	if !ok || c.Value == nil {
		return 0, false
	}
	switch c.Value.Kind() {
	case constant.Int, constant.Float:
		f, _ := constant.Float64Val(constant.ToFloat(c.Value))
		return f, true
	}
	return 0, false
}

// resolveDeep resolves phis along the path and strips value-preserving conversions, alternately.
func resolveDeep(p *Path, v ssa.Value) ssa.Value {
	for i := 0; i < 16; i++ {
		w := p.Resolve(v)
		switch x := w.(type) {
		case *ssa.Convert:
			w = x.X
		case *ssa.ChangeType:
			w = x.X
		}
		if w == v {
			return v
		}
		v = w
	}
	return v
}

// cellStores lists the stores whose address is exactly the alloc a (the variable cell itself).
func cellStores(a *ssa.Alloc) []*ssa.Store {
	var out []*ssa.Store
	for _, rr := range refs(a) {
		if st, ok := rr.(*ssa.Store); ok && st.Addr == ssa.Value(a) {
			out = append(out, st)
		}
	}
	return out
}

// readOnlyCopy reports whether the local alloc is written exactly once (a whole-value store) and
// otherwise only read through field addresses and loads (a local copy such as `st := obj.Status`).
func readOnlyCopy(a *ssa.Alloc) (*ssa.Store, bool) {
	var only func(v ssa.Value, root bool) bool
	var st *ssa.Store
	only = func(v ssa.Value, root bool) bool {
		for _, rr := range refs(v) {
			switch x := rr.(type) {
			case *ssa.FieldAddr:
				if !only(x, false) {
					return false
				}
			case *ssa.UnOp:
				if x.Op != token.MUL {
					return false
				}
			case *ssa.Store:
				if !root || x.Addr != v || st != nil {
					return false
				}
				st = x
			case *ssa.DebugRef:
			default:
				return false
			}
		}
		return true
	}
	if !only(a, true) || st == nil {
		return nil, false
	}
	return st, true
}

// accessPathThroughCopies is accessPath extended through read-only local copies of struct values
// (`st := obj.Status; st.Desired` has the path obj.Status.Desired).
func accessPathThroughCopies(v ssa.Value) (ssa.Value, []string) {
	root, p := accessPath(v)
	for i := 0; i < 8; i++ {
		a, ok := root.(*ssa.Alloc)
		if !ok {
			break
		}
		st, ro := readOnlyCopy(a)
		if !ro {
			break
		}
		if u, isLoad := st.Val.(*ssa.UnOp); !isLoad || u.Op != token.MUL {
			break
		}
		r2, p2 := accessPath(st.Val)
		root, p = r2, append(append([]string{}, p2...), p...)
	}
	return root, p
}

// orderedArrayElems returns the values stored into a local array alloc by constant index, in index
// order (slice literals and variadic backing arrays). ok=false if a store has a non-constant index
// or an index is written twice.
func orderedArrayElems(a *ssa.Alloc) ([]ssa.Value, bool) {
	byIdx := map[int64]ssa.Value{}
	for _, rr := range refs(a) {
		switch x := rr.(type) {
		case *ssa.IndexAddr:
			i, ok := constInt(x.Index)
			if !ok {
				return nil, false
			}
			for _, r2 := range refs(x) {
				if st, isSt := r2.(*ssa.Store); isSt && st.Addr == ssa.Value(x) {
					if _, dup := byIdx[i]; dup {
						return nil, false
					}
					byIdx[i] = st.Val
				}
			}
		case *ssa.Slice, *ssa.DebugRef:
		default:
			return nil, false
		}
	}
	var idx []int64
	for i := range byIdx {
		idx = append(idx, i)
	}
	sort.Slice(idx, func(i, j int) bool { return idx[i] < idx[j] })
	var out []ssa.Value
	for _, i := range idx {
		out = append(out, byIdx[i])
	}
	return out, true
}

// isBuiltinCall reports whether v is a call of the named builtin.
func isBuiltinCall(v ssa.Value, name string) (*ssa.Call, bool) {
	c, ok := v.(*ssa.Call)
	if !ok {
		return nil, false
	}
	b, ok := c.Call.Value.(*ssa.Builtin)
	if !ok || b.Name() != name {
		return nil, false
	}
	return c, true
}

// onEveryIteration reports whether block b is passed on every path from `from` back to `header`
// (i.e. b is executed on every loop iteration that enters at from).
func onEveryIteration(fn *ssa.Function, from, header, b *ssa.BasicBlock) bool {
	k := newKeyer(fn)
	paths, ok := enumPaths(fn, k, from, func(x *ssa.BasicBlock) bool { return x == header }, func(x *ssa.BasicBlock) bool { return x == header }, 2000)
	if !ok || len(paths) == 0 {
		return false
	}
	for _, p := range paths {
		if !p.Contains(b) {
			return false
		}
	}
	return true
}

// jsonName returns the JSON name of struct field i ("" if none).
func jsonName(st *types.Struct, i int) string {
	tag := st.Tag(i)
	const key = `json:"`
	for j := 0; j+len(key) <= len(tag); j++ {
		if tag[j:j+len(key)] == key {
			rest := tag[j+len(key):]
			for e := 0; e < len(rest); e++ {
				if rest[e] == '"' || rest[e] == ',' {
					return rest[:e]
				}
			}
		}
	}
	return ""
}

// namedStruct returns the struct underlying a (pointer to a) named type.
func namedStruct(t types.Type) *types.Struct {
	if p, ok := t.Underlying().(*types.Pointer); ok {
		t = p.Elem()
	}
	st, _ := t.Underlying().(*types.Struct)
	return st
}

// structField returns the index and type of the named field.
func structField(st *types.Struct, name string) (int, types.Type) {
	if st == nil {
		return -1, nil
	}
	for i := 0; i < st.NumFields(); i++ {
		if st.Field(i).Name() == name {
			return i, st.Field(i).Type()
		}
	}
	return -1, nil
}

// fieldVals returns the values stored into the field path of the struct base points to, looking
// through composite-literal lowering (a nested literal is built in a local alloc and copied as a
// whole). opaque=true when a whole-struct store on the way is not a load of a local alloc.
func fieldVals(base ssa.Value, path ...string) (vals []ssa.Value, opaque bool) {
	if len(path) == 0 {
		return nil, false
	}
	for _, rr := range refs(base) {
		fa, ok := rr.(*ssa.FieldAddr)
		if !ok || fieldName(fa) != path[0] {
			continue
		}
		if len(path) == 1 {
			for _, r2 := range refs(fa) {
				if st, isSt := r2.(*ssa.Store); isSt && st.Addr == ssa.Value(fa) {
					vals = append(vals, st.Val)
				}
			}
			continue
		}
		v2, op2 := fieldVals(fa, path[1:]...)
		vals = append(vals, v2...)
		opaque = opaque || op2
		for _, r2 := range refs(fa) {
			st, isSt := r2.(*ssa.Store)
			if !isSt || st.Addr != ssa.Value(fa) {
				continue
			}
			if u, isLoad := st.Val.(*ssa.UnOp); isLoad && u.Op == token.MUL {
				if a, isA := u.X.(*ssa.Alloc); isA {
					v3, op3 := fieldVals(a, path[1:]...)
					vals = append(vals, v3...)
					opaque = opaque || op3
					continue
				}
				// whole-struct copy from another object: the field of that object
				vals = append(vals, st.Val)
				opaque = true
				continue
			}
			opaque = true
		}
	}
	return vals, opaque
}

// tplHash describes which object's field path a template hash was computed over.
type tplHash struct {
	root ssa.Value
	path []string
}

func (h *tplHash) String() string {
	if h == nil {
		return "<none>"
	}
	n := h.root.Name()
	if p, ok := h.root.(*ssa.Parameter); ok {
		n = p.Name()
	}
	return "hash(" + n + "." + joinPath(h.path) + ")"
}

func joinPath(p []string) string {
	s := ""
	for i, f := range p {
		if i > 0 {
			s += "."
		}
		s += f
	}
	return s
}

func samePath(a, b []string) bool {
	if len(a) != len(b) {
		return false
	}
	for i := range a {
		if a[i] != b[i] {
			return false
		}
	}
	return true
}

// templateHashSource decides whether the string v is, on every origin, result #0 of the template
// hash function applied to the address of one field path of one object, directly or through
// repository functions that return such a hash of a parameter's field (their empty-string error
// returns are ignored). Returns the object and field path, or a reason.
func templateHashSource(p *Prog, v ssa.Value, depth int) (*tplHash, string) {
	gen := p.Func(pkgComparison, "GenerateMD5PodTemplateSpec")
	if gen == nil {
		return nil, "hash function anchor not found"
	}
	var out *tplHash
	merge := func(h *tplHash) string {
		if out == nil {
			out = h
			return ""
		}
		if out.root != h.root || !samePath(out.path, h.path) {
			return "hash taken over different objects: " + out.String() + " vs " + h.String()
		}
		return ""
	}
	os := origins(v)
	if len(os) == 0 {
		return nil, "no origin"
	}
	for _, o := range os {
		ex, ok := o.(*ssa.Extract)
		if !ok || ex.Index != 0 {
			return nil, "value " + o.Name() + " (" + o.String() + ") is not the first result of a hash call"
		}
		call, ok := ex.Tuple.(*ssa.Call)
		if !ok {
			return nil, "not a call result"
		}
		cal := staticCallee(&call.Call)
		switch {
		case cal == gen:
			arg := call.Call.Args[0]
			if _, isAddr := arg.(*ssa.FieldAddr); !isAddr {
				if _, isParam := arg.(*ssa.Parameter); !isParam {
					return nil, "hash argument is not the address of a field"
				}
			}
			r0, p0 := accessPath(arg)
			if why := merge(&tplHash{root: r0, path: p0}); why != "" {
				return nil, why
			}
		case cal != nil && p.IsRuleSite(cal) && depth < 3:
			paths, _, okp := funcPaths(cal, 2000)
			if !okp {
				return nil, "path cap exceeded in " + shortFunc(cal)
			}
			n := 0
			for _, pa := range paths {
				ret := returnOf(pa.Blocks[len(pa.Blocks)-1])
				res := pa.Resolve(ret.Results[0])
				if s, isC := constString(res); isC && s == "" {
					continue
				}
				n++
				hh, why := templateHashSource(p, res, depth+1)
				if hh == nil {
					return nil, shortFunc(cal) + ": " + why
				}
				par, isPar := hh.root.(*ssa.Parameter)
				if !isPar || par.Parent() != cal {
					return nil, shortFunc(cal) + " hashes something that is not a field of one of its parameters"
				}
				arg := call.Call.Args[paramIndex(par)]
				r0, p0 := accessPath(arg)
				if why := merge(&tplHash{root: r0, path: append(append([]string{}, p0...), hh.path...)}); why != "" {
					return nil, why
				}
			}
			if n == 0 {
				return nil, shortFunc(cal) + " never returns a hash"
			}
		default:
			return nil, "result of " + calleeName(&call.Call) + ", not of the template hash function"
		}
	}
	return out, ""
}

// indexLoopOver reports whether idx enumerates every index 0..len(S)-1 of slice S in a loop
// (range-over-slice lowering, or `for i := 0; i < len(S); i++`), and returns the loop header.
func indexLoopOver(k *keyer, idx, S ssa.Value) (*ssa.BasicBlock, string) {
	plusOne := func(v ssa.Value) *ssa.Phi {
		bo, ok := v.(*ssa.BinOp)
		if !ok || bo.Op != token.ADD {
			return nil
		}
		if n, isC := constInt(bo.Y); !isC || n != 1 {
			return nil
		}
		ph, _ := bo.X.(*ssa.Phi)
		return ph
	}
	var phi *ssa.Phi
	initWant := int64(0)
	if ph := plusOne(idx); ph != nil { // range form: idx = phi+1, phi starts at -1
		phi, initWant = ph, -1
	} else if ph, ok := idx.(*ssa.Phi); ok { // classic: idx = phi, phi starts at 0
		phi = ph
	}
	if phi == nil {
		return nil, "undecided: the index is not a loop counter"
	}
	header := phi.Block()
	okInit, okStep := false, true
	for _, e := range phi.Edges {
		if n, isC := constInt(e); isC && n == initWant {
			okInit = true
		} else if e == idx && initWant == -1 {
			// range form back edge: phi <- idx (= phi+1)
		} else if plusOne(e) == phi {
		} else {
			okStep = false
		}
	}
	if !okInit || !okStep {
		return nil, "the loop counter does not start at the first index and advance by one"
	}
	iff, ok := header.Instrs[len(header.Instrs)-1].(*ssa.If)
	if !ok {
		return nil, "undecided: loop header has no condition"
	}
	cond, _ := iff.Cond.(*ssa.BinOp)
	lenS := "builtin:len(" + k.key(S) + ")"
	if cond == nil || cond.Op != token.LSS || cond.X != idx || k.key(cond.Y) != lenS {
		return nil, "the loop condition is not `index < len(S)`"
	}
	return header, ""
}

// loopBlocks returns the natural loop of header: header plus every block that reaches one of
// header's predecessors dominated by header without passing header.
func loopBlocks(header *ssa.BasicBlock) map[*ssa.BasicBlock]bool {
	in := map[*ssa.BasicBlock]bool{header: true}
	var work []*ssa.BasicBlock
	for _, p := range header.Preds {
		if header.Dominates(p) && !in[p] {
			in[p] = true
			work = append(work, p)
		}
	}
	for len(work) > 0 {
		b := work[len(work)-1]
		work = work[:len(work)-1]
		for _, p := range b.Preds {
			if !in[p] {
				in[p] = true
				work = append(work, p)
			}
		}
	}
	return in
}

// reaches reports whether block to is reachable from block from (from itself included).
func reaches(from, to *ssa.BasicBlock) bool {
	seen := map[*ssa.BasicBlock]bool{}
	work := []*ssa.BasicBlock{from}
	for len(work) > 0 {
		b := work[len(work)-1]
		work = work[:len(work)-1]
		if b == to {
			return true
		}
		if seen[b] {
			continue
		}
		seen[b] = true
		work = append(work, b.Succs...)
	}
	return false
}

// provablyNonNil: addresses, fresh allocations, and DeepCopy() of such a receiver.
func provablyNonNil(v ssa.Value) bool {
	switch x := v.(type) {
	case *ssa.Alloc, *ssa.IndexAddr, *ssa.FieldAddr, *ssa.MakeMap, *ssa.MakeSlice:
		return true
	case *ssa.Call:
		if cal := staticCallee(&x.Call); cal != nil && cal.Name() == "DeepCopy" && len(x.Call.Args) == 1 {
			return provablyNonNil(x.Call.Args[0])
		}
	}
	return false
}

// resolveInLoop resolves phis along the path but never the phis of block stop (the loop header).
func resolveInLoop(p *Path, v ssa.Value, stop *ssa.BasicBlock) ssa.Value {
	for i := 0; i < 32; i++ {
		phi, ok := v.(*ssa.Phi)
		if !ok || phi.Block() == stop {
			return v
		}
		w := p.ResolveOnce(v)
		if w == v {
			return v
		}
		v = w
	}
	return v
}

// deepPath is accessPath that also walks through slice/array element addresses (rendered as "[]")
// and map lookups are not followed. Returns the root value and the field path.
func deepPath(v ssa.Value) (ssa.Value, []string) {
	var rev []string
	for {
		switch x := v.(type) {
		case *ssa.UnOp:
			if x.Op == token.MUL {
				v = x.X
				continue
			}
		case *ssa.FieldAddr:
			rev = append(rev, fieldName(x))
			v = x.X
			continue
		case *ssa.Field:
			rev = append(rev, fieldName(x))
			v = x.X
			continue
		case *ssa.IndexAddr:
			rev = append(rev, "[]")
			v = x.X
			continue
		case *ssa.Index:
			rev = append(rev, "[]")
			v = x.X
			continue
		case *ssa.ChangeType:
			v = x.X
			continue
		case *ssa.Convert:
			v = x.X
			continue
		case *ssa.MakeInterface:
			v = x.X
			continue
		}
		break
	}
	for i, j := 0, len(rev)-1; i < j; i, j = i+1, j-1 {
		rev[i], rev[j] = rev[j], rev[i]
	}
	return v, rev
}

func hasPrefixPath(p, prefix []string) bool {
	if len(prefix) > len(p) {
		return false
	}
	for i := range prefix {
		if p[i] != prefix[i] {
			return false
		}
	}
	return true
}

// paramWrite is one write a function performs through a pointer parameter.
type paramWrite struct {
	path    []string // field path relative to the parameter ("[]" = element)
	mapKey  string   // for map updates with a constant key
	isMap   bool
	dynKey  bool // map update with a non-constant key
	nilInit bool // store of a fresh map/slice guarded by `field == nil`
	all     bool // unknown effect (passed to an unknown callee)
	val     ssa.Value
	in      ssa.Instruction
}

// knownReader reports callees that only read the objects passed to them.
func knownReader(name string) bool {
	switch {
	case strings.HasSuffix(name, ".DeepCopy"), strings.HasSuffix(name, ".DeepCopyInto"),
		strings.HasSuffix(name, ".GetName"), strings.HasSuffix(name, ".GetNamespace"),
		strings.HasSuffix(name, ".GetAnnotations"), strings.HasSuffix(name, ".GetLabels"),
		strings.HasPrefix(name, "fmt."), strings.HasPrefix(name, "(github.com/go-logr/logr.Logger)"),
		strings.HasPrefix(name, "encoding/json.Marshal"), strings.Contains(name, "reflect.Equalities).DeepEqual"),
		strings.HasPrefix(name, "builtin:"):
		return true
	}
	return false
}

// paramWrites summarises the stores and map updates fn performs through parameter idx (and through
// repository callees it passes the parameter to).
func paramWrites(prog *Prog, fn *ssa.Function, idx int, depth int) []paramWrite {
	if idx < 0 || idx >= len(fn.Params) || len(fn.Blocks) == 0 {
		return []paramWrite{{all: true}}
	}
	par := fn.Params[idx]
	var ff *FuncFacts // computed lazily: only a store of a fresh map/slice needs the nil-guard facts
	var out []paramWrite
	for _, b := range fn.Blocks {
		for _, in := range b.Instrs {
			switch x := in.(type) {
			case *ssa.Store:
				root, p := deepPath(x.Addr)
				if root != ssa.Value(par) || len(p) == 0 {
					continue
				}
				w := paramWrite{path: p, val: x.Val, in: x}
				switch x.Val.(type) {
				case *ssa.MakeMap, *ssa.MakeSlice:
					if ff == nil {
						ff = computeFacts(fn)
					}
					addrKey := ff.K.key(x.Addr)
					if ff.Holds(b, true, func(v ssa.Value, _ string) bool {
						return isNilCompareOf(v, func(y ssa.Value) bool {
							u, ok := y.(*ssa.UnOp)
							return ok && u.Op == token.MUL && ff.K.key(u.X) == addrKey
						})
					}) {
						w.nilInit = true
					}
				}
				out = append(out, w)
			case *ssa.MapUpdate:
				root, p := deepPath(x.Map)
				if root != ssa.Value(par) {
					continue
				}
				w := paramWrite{path: p, isMap: true, val: x.Value, in: x}
				if s, ok := constString(x.Key); ok {
					w.mapKey = s
				} else {
					w.dynKey = true
				}
				out = append(out, w)
			case ssa.CallInstruction:
				c := x.Common()
				if n := calleeName(c); (n == "builtin:delete" || n == "builtin:clear") && len(c.Args) >= 1 {
					if root, p := deepPath(c.Args[0]); root == ssa.Value(par) {
						w := paramWrite{path: p, isMap: true, dynKey: true, in: x}
						if len(c.Args) == 2 {
							if s, ok := constString(c.Args[1]); ok {
								w.mapKey, w.dynKey = s, false
							}
						}
						out = append(out, w)
					}
					continue
				}
				for ai, a := range c.Args {
					root, p := deepPath(a)
					if root != ssa.Value(par) {
						continue
					}
					// only pointers into the object can be written through
					if _, isPtr := a.Type().Underlying().(*types.Pointer); !isPtr {
						if _, isIface := a.Type().Underlying().(*types.Interface); !isIface {
							continue
						}
					}
					name := calleeName(c)
					if knownReader(name) {
						continue
					}
					cal := staticCallee(c)
					if cal == nil || !prog.IsRuleSite(cal) || depth >= 3 {
						out = append(out, paramWrite{path: p, all: true, in: x})
						continue
					}
					ci := ai
					if c.IsInvoke() {
						out = append(out, paramWrite{path: p, all: true, in: x})
						continue
					}
					for _, w := range paramWrites(prog, cal, ci, depth+1) {
						w2 := w
						w2.path = append(append([]string{}, p...), w.path...)
						w2.in = x
						out = append(out, w2)
					}
				}
			}
		}
	}
	return out
}

// litElem is one element of a slice literal / variadic backing array: the stored value, or — for a
// struct element initialised in place (`&arr[i].Field = …`) — the element's address.
type litElem struct {
	val  ssa.Value
	addr ssa.Value
}

// litElems lists the elements of a local array alloc in index order.
func litElems(a *ssa.Alloc) ([]litElem, bool) {
	byIdx := map[int64]litElem{}
	for _, rr := range refs(a) {
		switch x := rr.(type) {
		case *ssa.IndexAddr:
			i, ok := constInt(x.Index)
			if !ok {
				return nil, false
			}
			var e litElem
			for _, r2 := range refs(x) {
				switch y := r2.(type) {
				case *ssa.Store:
					if y.Addr != ssa.Value(x) || e.val != nil {
						return nil, false
					}
					e.val = y.Val
				case *ssa.FieldAddr:
					e.addr = x
				case *ssa.DebugRef:
				default:
					return nil, false
				}
			}
			if (e.val == nil) == (e.addr == nil) {
				return nil, false
			}
			if _, dup := byIdx[i]; dup {
				return nil, false
			}
			byIdx[i] = e
		case *ssa.Slice, *ssa.DebugRef:
		default:
			return nil, false
		}
	}
	var idx []int64
	for i := range byIdx {
		idx = append(idx, i)
	}
	sort.Slice(idx, func(i, j int) bool { return idx[i] < idx[j] })
	var out []litElem
	for _, i := range idx {
		out = append(out, byIdx[i])
	}
	return out, true
}

// structBase returns the address whose fields hold the element's value: the in-place element
// address, or the local literal the stored value was loaded from.
func (e litElem) structBase() ssa.Value {
	if e.addr != nil {
		return e.addr
	}
	if u, ok := e.val.(*ssa.UnOp); ok && u.Op == token.MUL {
		if a, ok := u.X.(*ssa.Alloc); ok {
			return a
		}
	}
	return nil
}

// sliceLit returns the backing array of a slice literal value.
func sliceLit(v ssa.Value) *ssa.Alloc {
	sl, ok := v.(*ssa.Slice)
	if !ok || sl.Low != nil || sl.High != nil {
		return nil
	}
	a, _ := sl.X.(*ssa.Alloc)
	return a
}

// dependsOnV is dependsOn extended through local aggregates: a value that is (a slice of, or a load
// from) a local alloc depends on everything stored into that alloc's elements and fields — needed
// for variadic argument arrays such as fmt.Sprintf(format, a, b).
func dependsOnV(v ssa.Value, match func(ssa.Value) bool) bool {
	seen := map[ssa.Value]bool{}
	var rec func(v ssa.Value, d int) bool
	var stored func(addr ssa.Value, d int) bool
	stored = func(addr ssa.Value, d int) bool {
		for _, rr := range refs(addr) {
			switch x := rr.(type) {
			case *ssa.Store:
				if x.Addr == addr && rec(x.Val, d+1) {
					return true
				}
			case *ssa.IndexAddr:
				if x.X == addr && stored(x, d+1) {
					return true
				}
			case *ssa.FieldAddr:
				if x.X == addr && stored(x, d+1) {
					return true
				}
			}
		}
		return false
	}
	rec = func(v ssa.Value, d int) bool {
		if v == nil || seen[v] || d > 60 {
			return false
		}
		seen[v] = true
		if match(v) {
			return true
		}
		if a, ok := v.(*ssa.Alloc); ok {
			return stored(a, d)
		}
		in, ok := v.(ssa.Instruction)
		if !ok {
			return false
		}
		for _, op := range in.Operands(nil) {
			if *op != nil && rec(*op, d+1) {
				return true
			}
		}
		return false
	}
	return rec(v, 0)
}

// assignedOnlyUnder reports whether every assignment that can reach v (looking through phis) of a
// value other than nil happens under a must-fact accepted by match. Unlike looking at the defining
// block of the assigned value (rules_c05.go: definedUnderUpToDate / assignRoles), this looks at the
// CFG edge on which the assignment takes effect, so `item := &list[i]; if test(item) { x = item }`
// is recognised although item is defined before the test.
func assignedOnlyUnder(ff *FuncFacts, v ssa.Value, match func(c ssa.Value, key string) bool) bool {
	seen := map[ssa.Value]bool{}
	n := 0
	var rec func(v ssa.Value, at factSet) bool
	rec = func(v ssa.Value, at factSet) bool {
		if isNilConst(v) {
			return true
		}
		if phi, ok := v.(*ssa.Phi); ok {
			if seen[v] {
				return true
			}
			seen[v] = true
			for i, e := range phi.Edges {
				if e == v {
					continue
				}
				if !rec(e, ff.FactsAtEdge(phi.Block().Preds[i], phi.Block())) {
					return false
				}
			}
			return true
		}
		n++
		if at != nil && at.any(true, match) {
			return true
		}
		if b := blockOf(v); b != nil && ff.Holds(b, true, match) {
			return true
		}
		return false
	}
	return rec(v, nil) && n > 0
}

// ---------------------------------------------------------------------------------------------
// Frames: values seen through repository helper calls and closures.
//
// A frame is one activation of a function: its actual arguments and (for closures) the bindings of
// its free variables, each evaluated in the frame of the caller / creator. An fval is an SSA value
// together with the frame it is evaluated in. resolve follows parameters to arguments, free
// variables to their bindings, loads of capture cells to the single stored value and — for calls a
// simulation has walked (rets) or, with enterCalls, for repository calls whose result is one and
// the same value on every return — call results to the returned value in the callee's frame.

type frame struct {
	fn   *ssa.Function
	args []fval
	free []fval
	id   int
}

type fval struct {
	v  ssa.Value
	fr *frame
	// deref: the value is the struct stored AT address v (an argument instantiated with one entry of a
	// table of struct literals: v is the entry's address)
	deref bool
}

type frames struct {
	prog       *Prog
	cache      map[string]*frame
	n          int
	enterCalls bool
	rets       func(call *ssa.Call, fr *frame) ([]fval, bool)
}

func newFrames(prog *Prog) *frames { return &frames{prog: prog, cache: map[string]*frame{}} }

func (F *frames) top(fn *ssa.Function) *frame {
	F.n++
	return &frame{fn: fn, id: F.n}
}

// closureFrame: frame of a function value created by MakeClosure mc inside frame fr (args filled by the caller).
func (F *frames) calleeOf(cc *ssa.CallCommon, fr *frame) (*ssa.Function, []fval) {
	if cc.IsInvoke() {
		return nil, nil
	}
	x := F.resolve(fval{v: cc.Value, fr: fr})
	for i := 0; i < 4; i++ { // a function literal converted to a named function type
		ct, isCT := x.v.(*ssa.ChangeType)
		if !isCT {
			break
		}
		x = F.resolve(fval{v: ct.X, fr: x.fr})
	}
	switch f := x.v.(type) {
	case *ssa.Function:
		return f, nil
	case *ssa.MakeClosure:
		fn, _ := f.Fn.(*ssa.Function)
		var free []fval
		for _, b := range f.Bindings {
			free = append(free, fval{v: b, fr: x.fr})
		}
		return fn, free
	}
	return nil, nil
}

// callFrame returns the callee and the frame of a call made in frame fr (nil if not resolvable to a
// function with a body).
func (F *frames) callFrame(call ssa.CallInstruction, fr *frame) (*ssa.Function, *frame) {
	cc := call.Common()
	fn, free := F.calleeOf(cc, fr)
	if fn == nil || len(fn.Blocks) == 0 {
		return nil, nil
	}
	id := 0
	if fr != nil {
		id = fr.id
	}
	key := fmt.Sprintf("%p|%d", call, id)
	if f, ok := F.cache[key]; ok {
		return fn, f
	}
	F.n++
	f := &frame{fn: fn, free: free, id: F.n}
	for _, a := range cc.Args {
		f.args = append(f.args, fval{v: a, fr: fr})
	}
	if len(f.args) != len(fn.Params) {
		return nil, nil
	}
	F.cache[key] = f
	return fn, f
}

// singleReturn: result idx of fn is the same SSA value on every return (nil otherwise).
func singleReturn(fn *ssa.Function, idx int) ssa.Value {
	var out ssa.Value
	for _, b := range fn.Blocks {
		ret := returnOf(b)
		if ret == nil {
			continue
		}
		if idx >= len(ret.Results) {
			return nil
		}
		if out != nil && out != ret.Results[idx] {
			return nil
		}
		out = ret.Results[idx]
	}
	return out
}

func (F *frames) resolve(x fval) fval {
	for i := 0; i < 48; i++ {
		switch v := x.v.(type) {
		case *ssa.Parameter:
			if x.fr == nil || x.fr.args == nil || v.Parent() != x.fr.fn {
				return x
			}
			x = x.fr.args[paramIndex(v)]
		case *ssa.FreeVar:
			if x.fr == nil || x.fr.free == nil || v.Parent() != x.fr.fn {
				return x
			}
			idx := -1
			for j, f := range x.fr.fn.FreeVars {
				if f == v {
					idx = j
				}
			}
			if idx < 0 || idx >= len(x.fr.free) {
				return x
			}
			x = x.fr.free[idx]
		case *ssa.Field:
			// field of a struct value whose literal is known (a table entry, a captured receiver)
			if b, ok := F.valueStructBase(fval{v: v.X, fr: x.fr}, 0); ok {
				if vs := fieldStores(b.v, fieldName(v)); len(vs) == 1 {
					x = fval{v: vs[0], fr: b.fr}
					continue
				}
			}
			return x
		case *ssa.UnOp:
			if v.Op != token.MUL {
				return x
			}
			if fa, isFA := v.X.(*ssa.FieldAddr); isFA {
				if b, ok := F.structBase(fval{v: fa.X, fr: x.fr}, 0); ok {
					if vs := fieldStores(b.v, fieldName(fa)); len(vs) == 1 {
						x = fval{v: vs[0], fr: b.fr}
						continue
					}
				}
				return x
			}
			// load of a variable cell reached through a free variable / parameter: the single stored value
			inner := F.resolve(fval{v: v.X, fr: x.fr})
			a, ok := inner.v.(*ssa.Alloc)
			if !ok || (inner.v == v.X && inner.fr == x.fr) {
				return x
			}
			sts := cellStores(a)
			if len(sts) != 1 {
				return x
			}
			x = fval{v: sts[0].Val, fr: inner.fr}
		case *ssa.Call, *ssa.Extract:
			var call *ssa.Call
			idx := 0
			if ex, isE := v.(*ssa.Extract); isE {
				call, _ = ex.Tuple.(*ssa.Call)
				idx = ex.Index
			} else {
				call = v.(*ssa.Call)
			}
			if call == nil {
				return x
			}
			if F.rets != nil {
				if vals, ok := F.rets(call, x.fr); ok && idx < len(vals) {
					x = vals[idx]
					continue
				}
			}
			if !F.enterCalls {
				return x
			}
			fn, fr2 := F.callFrame(call, x.fr)
			if fn == nil || !F.prog.IsRuleSite(fn) {
				return x
			}
			rv := singleReturn(fn, idx)
			if rv == nil {
				return x
			}
			x = fval{v: rv, fr: fr2}
		default:
			return x
		}
	}
	return x
}

// structBase follows the address of a struct to the place where its fields were stored once: through
// captured variables, through a local copy of a struct value, through a value parameter to the
// argument (for an argument instantiated with a table entry: the entry itself). Only resolutions
// that leave the current frame are reported (a plain local struct is left to the caller).
func (F *frames) structBase(addr fval, depth int) (fval, bool) {
	if depth > 8 {
		return fval{}, false
	}
	switch a := addr.v.(type) {
	case *ssa.FreeVar:
		r := F.resolve(addr)
		if r.v == addr.v && r.fr == addr.fr {
			return fval{}, false
		}
		if r.deref {
			return fval{v: r.v, fr: r.fr}, true
		}
		return F.structBaseAny(r, depth+1)
	case *ssa.Parameter:
		r := F.resolve(addr)
		if r.v == addr.v && r.fr == addr.fr {
			return fval{}, false
		}
		return F.structBaseAny(r, depth+1)
	case *ssa.Alloc:
		sts := cellStores(a)
		if len(sts) == 1 {
			return F.valueStructBase(fval{v: sts[0].Val, fr: addr.fr}, depth+1)
		}
	}
	return fval{}, false
}

// structBaseAny: like structBase, but an address that is itself a literal (alloc / element) is a base.
func (F *frames) structBaseAny(addr fval, depth int) (fval, bool) {
	if b, ok := F.structBase(addr, depth); ok {
		return b, true
	}
	switch addr.v.(type) {
	case *ssa.Alloc, *ssa.IndexAddr:
		return addr, true
	}
	return fval{}, false
}

// valueStructBase: the literal a struct VALUE was loaded from / instantiated with.
func (F *frames) valueStructBase(val fval, depth int) (fval, bool) {
	if depth > 8 {
		return fval{}, false
	}
	if val.deref {
		return fval{v: val.v, fr: val.fr}, true
	}
	switch v := val.v.(type) {
	case *ssa.Parameter:
		if val.fr == nil || val.fr.args == nil || v.Parent() != val.fr.fn {
			return fval{}, false
		}
		return F.valueStructBase(val.fr.args[paramIndex(v)], depth+1)
	case *ssa.UnOp:
		if v.Op == token.MUL {
			return F.structBase(fval{v: v.X, fr: val.fr}, depth+1)
		}
	}
	return fval{}, false
}

// loc returns the object a value/address is rooted at (through loads, fields, elements, helper
// parameters and captures) and the field path from it.
func (F *frames) loc(x fval) (fval, []string) {
	var path []string
	for i := 0; i < 24; i++ {
		root, p := deepPath(x.v)
		path = append(append([]string{}, p...), path...)
		r := F.resolve(fval{v: root, fr: x.fr})
		if a, ok := r.v.(*ssa.Alloc); ok && (r.v != root || r.fr != x.fr) {
			// a capture cell holding a pointer / function: continue with the stored value
			if _, isStruct := a.Type().Underlying().(*types.Pointer).Elem().Underlying().(*types.Struct); !isStruct {
				if sts := cellStores(a); len(sts) == 1 {
					x = fval{v: sts[0].Val, fr: r.fr}
					continue
				}
			}
		}
		if r.v == root && r.fr == x.fr {
			return r, path
		}
		x = r
	}
	return x, path
}

// hasLoop reports whether the function has a back edge.
func hasLoop(fn *ssa.Function) bool {
	for _, b := range fn.Blocks {
		for _, s := range b.Succs {
			if s.Dominates(b) {
				return true
			}
		}
	}
	return false
}

func stripMeta(p []string) []string {
	var out []string
	for _, f := range p {
		if f != "ObjectMeta" {
			out = append(out, f)
		}
	}
	return out
}

// mapSetter recognises a repository helper of the shape `func(m map, key, value) map` that returns,
// on every path, a map (its parameter, or a fresh one when that was nil) in which key→value has been
// set. Returns the parameter indices.
func mapSetter(prog *Prog, fn *ssa.Function) (mi, ki, vi int, ok bool) {
	if fn == nil || !prog.IsRuleSite(fn) || fn.Signature.Results().Len() != 1 {
		return 0, 0, 0, false
	}
	rv := singleReturn(fn, 0)
	if rv == nil {
		return 0, 0, 0, false
	}
	if _, isMap := rv.Type().Underlying().(*types.Map); !isMap {
		return 0, 0, 0, false
	}
	mi = -1
	for _, o := range origins(rv) {
		switch x := o.(type) {
		case *ssa.Parameter:
			mi = paramIndex(x)
		case *ssa.MakeMap:
		default:
			return 0, 0, 0, false
		}
	}
	if mi < 0 {
		return 0, 0, 0, false
	}
	for _, b := range fn.Blocks {
		for _, in := range b.Instrs {
			mu, isMU := in.(*ssa.MapUpdate)
			if !isMU || mu.Map != rv {
				continue
			}
			kp, isK := mu.Key.(*ssa.Parameter)
			vp, isV := mu.Value.(*ssa.Parameter)
			if !isK || !isV {
				continue
			}
			dom := true
			for _, rb := range fn.Blocks {
				if returnOf(rb) != nil && !b.Dominates(rb) {
					dom = false
				}
			}
			if dom {
				return mi, paramIndex(kp), paramIndex(vp), true
			}
		}
	}
	return 0, 0, 0, false
}

// annWrite is one write of a constant key into obj.Annotations.
type annWrite struct {
	in  ssa.Instruction
	val ssa.Value
}

// annotationWrites lists the writes of annotation `key` of the object obj in fn: map updates on
// obj.Annotations, and `obj.Annotations = setter(obj.Annotations, key, v)` through a mapSetter helper.
// lost reports a write that a later reassignment of the Annotations field can undo.
func annotationWrites(prog *Prog, fn *ssa.Function, isObj func(ssa.Value) bool, key string) (ws []annWrite, lost string) {
	isAnnField := func(addr ssa.Value) bool {
		if _, isFA := addr.(*ssa.FieldAddr); !isFA {
			return false
		}
		root, p := accessPath(addr)
		return len(p) > 0 && p[len(p)-1] == "Annotations" && isObj(root)
	}
	isAnnLoad := func(v ssa.Value) bool {
		u, ok := v.(*ssa.UnOp)
		return ok && u.Op == token.MUL && isAnnField(u.X)
	}
	var fieldStores []*ssa.Store
	ff := computeFacts(fn)
	for _, b := range fn.Blocks {
		for _, in := range b.Instrs {
			switch x := in.(type) {
			case *ssa.MapUpdate:
				if s, isC := constString(x.Key); !isC || s != key {
					continue
				}
				if isAnnLoad(x.Map) {
					ws = append(ws, annWrite{x, x.Value})
				}
			case *ssa.Store:
				if !isAnnField(x.Addr) {
					continue
				}
				fieldStores = append(fieldStores, x)
				if mm, isMM := x.Val.(*ssa.MakeMap); isMM {
					// obj.Annotations = map[string]string{key: v, …}: a fresh map, filled before it is installed
					var vals []ssa.Value
					okLit := true
					for _, rr := range refs(mm) {
						switch y := rr.(type) {
						case *ssa.MapUpdate:
							if y.Map != ssa.Value(mm) || y.Block() != mm.Block() {
								okLit = false
							} else if s, isC := constString(y.Key); isC && s == key {
								vals = append(vals, y.Value)
							} else if !isC {
								okLit = false // a key the rule cannot read may be this one
							}
						case *ssa.Store:
							if y != x {
								okLit = false
							}
						case *ssa.DebugRef:
						default:
							okLit = false
						}
					}
					if okLit && len(vals) == 1 && mm.Block() == x.Block() {
						ws = append(ws, annWrite{x, vals[0]})
					}
					continue
				}
				call, isCall := x.Val.(*ssa.Call)
				if !isCall {
					continue
				}
				mi, ki, vi, ok := mapSetter(prog, staticCallee(&call.Call))
				if !ok {
					continue
				}
				if s, isC := constString(call.Call.Args[ki]); isC && s == key {
					_ = mi
					ws = append(ws, annWrite{x, call.Call.Args[vi]})
				}
			}
		}
	}
	keeps := func(st *ssa.Store) bool {
		if call, isCall := st.Val.(*ssa.Call); isCall {
			if mi, _, _, ok := mapSetter(prog, staticCallee(&call.Call)); ok && isAnnLoad(call.Call.Args[mi]) {
				return true
			}
		}
		if _, isMM := st.Val.(*ssa.MakeMap); isMM {
			k := ff.K.key(st.Addr)
			return ff.Holds(st.Block(), true, func(v ssa.Value, _ string) bool {
				return isNilCompareOf(v, func(y ssa.Value) bool {
					u, ok := y.(*ssa.UnOp)
					return ok && u.Op == token.MUL && ff.K.key(u.X) == k
				})
			})
		}
		return false
	}
	for _, w := range ws {
		for _, st := range fieldStores {
			if ssa.Instruction(st) == w.in || keeps(st) {
				continue
			}
			after := false
			if st.Block() == w.in.Block() {
				seen := false
				for _, in := range st.Block().Instrs {
					if in == w.in {
						seen = true
					}
					if in == ssa.Instruction(st) && seen {
						after = true
					}
				}
			} else {
				for _, sc := range w.in.Block().Succs {
					if reaches(sc, st.Block()) {
						after = true
					}
				}
			}
			if after {
				lost = "the Annotations field is reassigned after the annotation was written"
			}
		}
	}
	return ws, lost
}

// metaFieldOwner: v reads the metadata field (Name, Namespace, …) of an object, as obj.<field>,
// obj.ObjectMeta.<field> or obj.Get<field>(); the result is the value that stands for the object (a
// pointer to it, however it was reached), nil when v is not such a read.
func metaFieldOwner(v ssa.Value, field string) ssa.Value {
	v = unwrap(v)
	up := func(x ssa.Value) ssa.Value {
		for {
			fa, ok := x.(*ssa.FieldAddr)
			if !ok || fieldName(fa) != "ObjectMeta" {
				return x
			}
			x = fa.X
		}
	}
	switch x := v.(type) {
	case *ssa.Call:
		if !strings.HasSuffix(calleeName(&x.Call), ".Get"+field) {
			return nil
		}
		if x.Call.IsInvoke() {
			if mi, ok := unwrap(x.Call.Value).(*ssa.MakeInterface); ok {
				return mi.X
			}
			return unwrap(x.Call.Value)
		}
		if len(x.Call.Args) == 1 {
			return up(x.Call.Args[0])
		}
	case *ssa.UnOp:
		if x.Op != token.MUL {
			return nil
		}
		if fa, ok := x.X.(*ssa.FieldAddr); ok && fieldName(fa) == field {
			return up(fa.X)
		}
	}
	return nil
}
