package main

// Positive and negative controls (thorough tier): realistic bad edits that must make a named rule
// fire, and behaviour-preserving rewrites that must stay silent. Each control is applied to a
// fresh scratch copy of the *current* /repo tree (outside /repo and /verif), analysed by a
// subprocess of this binary, and the copy is removed. A control that no longer applies to an
// edited tree is skipped; one that applies but does not behave as expected is a checker failure.

import (
	"crypto/sha256"
	"encoding/hex"
	"fmt"
	"io/fs"
	"os"
	"os/exec"
	"path/filepath"
	"sort"
	"strings"
	"sync"
)

type controlResult struct {
	Name     string `json:"name"`
	Kind     string `json:"kind"` // positive | negative
	Expect   string `json:"expect,omitempty"`
	Outcome  string `json:"outcome"` // fired | silent | skipped(patch does not apply) | FAILED ...
	FiredBy  string `json:"fired_by,omitempty"`
	firstMsg string
}

// treeDigest hashes the non-test Go sources, go.mod and go.work files of the tree (vendor, .git and
// build output excluded): the identity of the tree the controls were validated on.
func treeDigest(repo string) string {
	h := sha256.New()
	var files []string
	_ = filepath.WalkDir(repo, func(p string, d fs.DirEntry, err error) error {
		if err != nil {
			return nil
		}
		if d.IsDir() {
			switch d.Name() {
			case ".git", "vendor", "bin", "_out", "node_modules":
				return filepath.SkipDir
			}
			return nil
		}
		n := d.Name()
		if (strings.HasSuffix(n, ".go") && !strings.HasSuffix(n, "_test.go")) || n == "go.mod" || n == "go.work" {
			files = append(files, p)
		}
		return nil
	})
	sort.Strings(files)
	for _, f := range files {
		rel, _ := filepath.Rel(repo, f)
		b, err := os.ReadFile(f)
		if err != nil {
			continue
		}
		fmt.Fprintf(h, "%s\x00%d\x00", rel, len(b))
		h.Write(b)
	}
	return hex.EncodeToString(h.Sum(nil))
}

// failingNow: the rules already report a violation that is not a listed known finding.
func failingNow(r *Run) bool {
	known, _ := loadKnown(r.Root)
	isKnown := map[string]bool{}
	for _, k := range known {
		if k.Property == r.Property && k.Status == "known" {
			isKnown[k.Key] = true
		}
	}
	if len(r.fatal) > 0 {
		return true
	}
	for _, o := range r.Obs {
		if !o.OK && !isKnown[o.Key] {
			return true
		}
	}
	return false
}

func runControls(r *Run, def *propertyDef, repo string) {
	// The controls test the checker, not the tree. They were validated on the reference tree whose
	// digest is committed in controls/REFERENCE.sha256. On that tree a control that misbehaves fails
	// the check (checker self-test). On any other tree a control may legitimately apply and yet mean
	// something else, so a deviation is recorded in the evidence ("control drift") and printed, but
	// is no verdict about the property; and when the tree's own rules already report a violation the
	// controls are skipped (every negative control would trivially repeat it).
	if failingNow(r) {
		r.extra["controls_summary"] = "skipped: the rules already report a violation on this tree"
		fmt.Printf("  controls: %s\n", r.extra["controls_summary"])
		return
	}
	digest := treeDigest(repo)
	refBytes, _ := os.ReadFile(filepath.Join(r.Root, "controls", "REFERENCE.sha256"))
	onReference := strings.TrimSpace(string(refBytes)) == digest
	r.extra["controls_tree_digest"] = digest
	r.extra["controls_on_reference_tree"] = onReference
	self, err := os.Executable()
	if err != nil {
		r.Fatal("controls: cannot locate own executable: %v", err)
		return
	}
	type job struct {
		path, kind, expect, name string
	}
	var jobs []job
	pos, _ := filepath.Glob(filepath.Join(r.Root, "controls", def.id, "*.patch"))
	sort.Strings(pos)
	for _, p := range pos {
		base := strings.TrimSuffix(filepath.Base(p), ".patch")
		expect := def.id + "."
		if i := strings.Index(base, "__"); i > 0 {
			expect = def.id + "." + base[:i]
		}
		jobs = append(jobs, job{p, "positive", expect, base})
	}
	neg, _ := filepath.Glob(filepath.Join(r.Root, "controls", "negative", def.id+"-*.patch"))
	sort.Strings(neg)
	for _, p := range neg {
		jobs = append(jobs, job{p, "negative", "", strings.TrimSuffix(filepath.Base(p), ".patch")})
	}
	// independently seeded changes (written by fault-seeding agents that saw only the property
	// text): recorded as evidence of what the rules catch, never part of the verdict
	seeds, _ := filepath.Glob(filepath.Join(r.Root, "seeded", def.id+"-*", "patch.diff"))
	sort.Strings(seeds)
	for _, p := range seeds {
		jobs = append(jobs, job{p, "seeded", def.id + ".", filepath.Base(filepath.Dir(p))})
	}
	results := make([]controlResult, len(jobs))
	sem := make(chan struct{}, 4)
	var wg sync.WaitGroup
	for i, j := range jobs {
		wg.Add(1)
		go func(i int, j job) {
			defer wg.Done()
			sem <- struct{}{}
			defer func() { <-sem }()
			res := controlResult{Name: j.name, Kind: j.kind, Expect: j.expect}
			tmp, err := os.MkdirTemp("", "edsctl")
			if err != nil {
				res.Outcome = "FAILED: " + err.Error()
				results[i] = res
				return
			}
			defer os.RemoveAll(tmp)
			_ = os.MkdirAll(filepath.Join(tmp, "root"), 0o755)
			if kf, err := os.ReadFile(filepath.Join(r.Root, "known_findings.json")); err == nil {
				_ = os.WriteFile(filepath.Join(tmp, "root", "known_findings.json"), kf, 0o644)
			}
			if out, err := exec.Command("rsync", "-a", "--exclude", ".git", repo+"/", filepath.Join(tmp, "repo")+"/").CombinedOutput(); err != nil {
				res.Outcome = "FAILED: copy: " + string(out)
				results[i] = res
				return
			}
			pc := exec.Command("patch", "-p1", "-s", "--no-backup-if-mismatch", "-i", j.path)
			pc.Dir = filepath.Join(tmp, "repo")
			if _, err := pc.CombinedOutput(); err != nil {
				res.Outcome = "skipped (patch does not apply to the current tree)"
				results[i] = res
				return
			}
			c := exec.Command(self, "-repo", filepath.Join(tmp, "repo"), "-root", filepath.Join(tmp, "root"), "-property", def.id, "-tier", "quick", "-nocontrols")
			c.Env = append(os.Environ(), "VERIF_TIER=quick")
			out, _ := c.CombinedOutput()
			code := c.ProcessState.ExitCode()
			var fired []string
			for _, line := range strings.Split(string(out), "\n") {
				if strings.HasPrefix(line, def.id+".") {
					f := strings.Fields(line)[0]
					fired = append(fired, f)
					if res.firstMsg == "" {
						res.firstMsg = line
					}
				}
			}
			switch j.kind {
			case "positive":
				ok := false
				for _, f := range fired {
					if strings.HasPrefix(f, j.expect) && !strings.HasSuffix(f, ".LOAD") {
						ok = true
						res.FiredBy = f
					}
				}
				if ok && code == 1 {
					res.Outcome = "fired"
				} else {
					res.Outcome = fmt.Sprintf("FAILED: expected %s to fire; exit=%d fired=%v", j.expect, code, fired)
				}
			case "seeded":
				if code == 1 && len(fired) > 0 {
					res.Outcome = "caught"
					res.FiredBy = strings.Join(uniqStrings(fired), " ")
				} else {
					res.Outcome = "missed"
				}
			case "negative":
				if code == 0 && len(fired) == 0 {
					res.Outcome = "silent"
				} else {
					res.Outcome = fmt.Sprintf("FAILED: behaviour-preserving rewrite raised an alarm; exit=%d first=%s", code, res.firstMsg)
				}
			}
			results[i] = res
		}(i, j)
	}
	wg.Wait()
	nFired, nSilent, nSkipped := 0, 0, 0
	nCaught, nMissed := 0, 0
	var drift []string
	for _, res := range results {
		switch {
		case res.Kind == "seeded":
			if res.Outcome == "caught" {
				nCaught++
			} else if res.Outcome == "missed" {
				nMissed++
			}
		case res.Outcome == "fired":
			nFired++
		case res.Outcome == "silent":
			nSilent++
		case strings.HasPrefix(res.Outcome, "skipped"):
			nSkipped++
		default:
			if onReference {
				r.Fatal("control %s (%s): %s", res.Name, res.Kind, res.Outcome)
			} else {
				drift = append(drift, fmt.Sprintf("control %s (%s): %s", res.Name, res.Kind, res.Outcome))
			}
		}
	}
	if len(drift) > 0 {
		r.extra["control_drift"] = drift
		for _, d := range drift {
			fmt.Printf("  control drift (tree differs from the controls' reference tree; not a verdict): %s\n", d)
		}
	}
	r.extra["controls"] = results
	r.extra["controls_summary"] = fmt.Sprintf("%d positive controls fired, %d negative controls silent, %d skipped (do not apply to this tree); independently seeded changes of this property: %d caught, %d missed (informational)", nFired, nSilent, nSkipped, nCaught, nMissed)
	fmt.Printf("  controls: %s\n", r.extra["controls_summary"])
}

func uniqStrings(in []string) []string {
	seen := map[string]bool{}
	var out []string
	for _, s := range in {
		if !seen[s] {
			seen[s] = true
			out = append(out, s)
		}
	}
	sort.Strings(out)
	return out
}
