package main

// C19 — kubectl-eds commands change only what they document.

import (
	"fmt"
	"go/token"
	"go/types"
	"sort"
	"strings"

	"golang.org/x/tools/go/ssa"
)

func init() {
	register("C19", "Decides, for the run methods of canary.{pause,validate,fail}Options, pause.pauseOptions and freeze.freezeOptions: (R1) exactly one API write site is reachable, of the documented verb and kind (Patch of the ExtendedDaemonSet; Status().Update of the replica set for fail), not in a loop, and no other kubectl-eds code writes to the API; (R2) the written object is DeepCopy() of the object read by Get with the user's namespace/name (for fail: of the replica set named by status.canary.replicaSet of that object, same namespace), the read object is never modified, the patch base is MergeFrom(read object), the copy is modified only by creating the annotation map and by annotation writes whose final key/value set on every path to the write is one of the command's documented tables (validate: canary-valid = status.canary.replicaSet of the object read; fail: one append to Status.Conditions of a condition whose constructor puts type Canary-Failed and status True), and the table written is the one of the command word that the cobra constructor binds to the mode field tested on that path; (R3) the write is dominated by the canary precondition (status.canary != nil, plus spec.strategy.canary != nil for pause/fail; status.canary == nil for rolling-update pause and freeze); (R4) every annotation key written is looked up by a function reachable from the controllers' Reconcile, the reader compares with a constant the writer writes (or, for canary-valid, with a name parameter), and the condition type/status written by fail are the constants the controller's failed-reader tests; (R5) reader side of validate: status.activeReplicaSet comes from one decision function, and on every path of it on which IsCanaryDeploymentValid(daemonset annotations, up-to-date replica set name) is true the up-to-date replica set is returned (no pause/fail/time condition can mask a validation); (R6) reader side of unpause: Result.IsUnpaused is stored only from IsCanaryDeploymentUnpaused applied to the parent's annotations, every store IsPaused=true reachable from the canary strategy is under the must-fact IsUnpaused=false of the same Result (an unpaused canary is not re-paused by the per-pod evaluation), IsPaused is otherwise stored only from the persisted reader, and a store IsPaused=false under IsUnpaused=true exists; (R7) refusal table: every path of a canary command's run() that returns an error without reaching the write carries a documented refusal reason — a Get error, spec.strategy.canary == nil / status.canary == nil (as documented for the command), or an equality between the looked-up annotation of a documented key and the very value the command would write for the mode of that path (the annotation is present and already expresses the requested state); a refusal on the mere absence of the annotation (an auto-paused canary has no annotation) is reported. The rolling-update and freeze commands, whose documented behaviour refuses unpause/unfreeze on absence, are not subject to R7.", runC19)
}

type c19Cmd struct {
	label        string
	pkg, typ     string
	write        string // expected write effect
	statusCanary string // "present" or "absent"
	specCanary   bool
	tables       map[string]map[string]string // command word -> key -> value
	cond         bool
}

const c19CanaryRS = "status.canary.replicaSet of the object read"

func c19Const(r *Run, name string) string {
	s, ok := r.Prog.constStr(pkgAPI, name)
	if !ok {
		r.Fatal("constant %s.%s not found", pkgAPI, name)
	}
	return s
}

func runC19(r *Run) {
	r.RuleDoc("C19.R1", "exactly one API write site per command, of the documented verb and kind; no other write in kubectl-eds code")
	r.RuleDoc("C19.R2", "written object = DeepCopy of the object read with the user's key; only the documented annotations/condition are changed; table ↔ command word binding; patch base = object read")
	r.RuleDoc("C19.R3", "the write is dominated by the command's canary precondition")
	r.RuleDoc("C19.R4", "wire agreement: written keys/values/condition are the ones the controller's readers test")
	r.Floor("C19.R1", 6)
	r.Floor("C19.R2", 30)
	r.Floor("C19.R3", 7)
	r.Floor("C19.R4", 7)
	r.RuleDoc("C19.R5", "reader side of validate: every path of the promotion decision with canary-valid true returns the up-to-date replica set")
	r.RuleDoc("C19.R6", "reader side of unpause: IsUnpaused is the canary-unpaused reader on the parent's annotations; IsPaused=true is stored only under IsUnpaused=false; the unpause reset exists")
	r.Floor("C19.R5", 3)
	r.Floor("C19.R6", 4)
	r.RuleDoc("C19.R7", "refusal table of the canary commands: an error return before the write carries Get failure, a missing canary precondition, or the annotation present with the value that already expresses the requested state")
	r.Floor("C19.R7", 8)
	r.NotCovered("what the controller does in the following reconciles (C05/C07/C08 decide the reader side structurally); the 'already in that state' refusals (dropping one only makes the command rewrite the same value); how complete() fills the user's namespace/name; a pre-existing Canary-Failed condition with status False on the canary replica set (fail appends a second condition, the reader takes the first); concurrent changes between the Get and the write")

	pausedK := c19Const(r, "ExtendedDaemonSetCanaryPausedAnnotationKey")
	unpausedK := c19Const(r, "ExtendedDaemonSetCanaryUnpausedAnnotationKey")
	validK := c19Const(r, "ExtendedDaemonSetCanaryValidAnnotationKey")
	ruK := c19Const(r, "ExtendedDaemonSetRollingUpdatePausedAnnotationKey")
	frozenK := c19Const(r, "ExtendedDaemonSetRolloutFrozenAnnotationKey")
	tr, fa := c19Const(r, "ValueStringTrue"), c19Const(r, "ValueStringFalse")
	if len(r.fatal) > 0 {
		return
	}
	cmds := []*c19Cmd{
		{label: "canary pause/unpause", pkg: pkgPlugCanary, typ: "pauseOptions", write: "Patch(ExtendedDaemonSet)", statusCanary: "present", specCanary: true,
			tables: map[string]map[string]string{"pause": {pausedK: tr, unpausedK: fa}, "unpause": {pausedK: fa, unpausedK: tr}}},
		{label: "canary validate", pkg: pkgPlugCanary, typ: "validateOptions", write: "Patch(ExtendedDaemonSet)", statusCanary: "present",
			tables: map[string]map[string]string{"validate": {validK: c19CanaryRS}}},
		{label: "canary fail", pkg: pkgPlugCanary, typ: "failOptions", write: "Status.Update(ExtendedDaemonSetReplicaSet)", statusCanary: "present", specCanary: true, cond: true},
		{label: "rolling-update pause/unpause", pkg: pkgPlugPause, typ: "pauseOptions", write: "Patch(ExtendedDaemonSet)", statusCanary: "absent",
			tables: map[string]map[string]string{"pause-rolling-update": {ruK: tr}, "unpause-rolling-update": {ruK: fa}}},
		{label: "rollout freeze/unfreeze", pkg: pkgPlugFreeze, typ: "freezeOptions", write: "Patch(ExtendedDaemonSet)", statusCanary: "absent",
			tables: map[string]map[string]string{"freeze-rollout": {frozenK: tr}, "unfreeze-rollout": {frozenK: fa}}},
	}
	runFns := map[*ssa.Function]bool{}
	var failCond *c19CondWrite
	for _, c := range cmds {
		run := r.Prog.declaredMethod(c.pkg, c.typ, "run")
		if run == nil {
			r.Fatal("anchor (%s.%s).run not found", c.pkg, c.typ)
			continue
		}
		runFns[run] = true
		if cw := c19Command(r, c, run); cw != nil {
			failCond = cw
		}
	}
	// R1: no other write effect in kubectl-eds code
	plugin := map[*ssa.Function]bool{}
	for _, fn := range r.Prog.RepoFuncs() {
		root := fn
		for root.Parent() != nil {
			root = root.Parent()
		}
		if root.Pkg != nil && strings.HasPrefix(root.Pkg.Pkg.Path(), repoMod+"/pkg/plugin") {
			plugin[fn] = true
		}
	}
	extra := 0
	for _, e := range effectsOf(plugin) {
		if isWriteVerb(e.Verb) && !runFns[e.Fn] {
			extra++
			r.Check("C19.R1", "write outside the documented commands: "+e.String(), r.Prog.Pos(e.Call.Pos()), shortFunc(e.Fn), "kubectl-eds writes to the API only in the run methods of the pause/validate/fail/freeze commands", false, e.String())
		}
	}
	if extra == 0 {
		r.Check("C19.R1", "no write outside the documented commands", "-", "pkg/plugin/...", "kubectl-eds writes to the API only in the run methods of the pause/validate/fail/freeze commands", true, fmt.Sprintf("%d functions scanned", len(plugin)))
	}
	_ = failCond
	wantT, _ := r.Prog.constStr(pkgAPI, "ConditionTypeCanaryFailed")
	wantS, _ := r.Prog.constStr(pkgCoreV1, "ConditionTrue")
	c19Wire(r, cmds, &c19CondWrite{typ: wantT, status: wantS})
	c19ValidateReader(r)
	c19UnpauseReader(r)
}

// c19CondWrite is what the fail command appends.
type c19CondWrite struct {
	typ, status string
}

func c19Command(r *Run, c *c19Cmd, run *ssa.Function) *c19CondWrite {
	fnName := shortFunc(run)
	pos := r.Prog.Pos(run.Pos())
	reach := r.Prog.reachableFuncs(run)
	effs := effectsOf(reach)
	var writes, gets []*Effect
	for _, e := range effs {
		if isWriteVerb(e.Verb) {
			writes = append(writes, e)
		} else if e.Verb == "Get" {
			gets = append(gets, e)
		}
	}
	// R1
	var w *Effect
	for _, e := range writes {
		if e.String() == c.write && w == nil {
			w = e
			continue
		}
		r.Check("C19.R1", c.label+": undocumented write "+e.String(), r.Prog.Pos(e.Call.Pos()), shortFunc(e.Fn), "the command performs exactly one write: "+c.write, false, "found "+e.String())
	}
	if w == nil {
		if len(writes) != 1 {
			r.Check("C19.R1", c.label+": write", pos, fnName, "the command performs exactly one write: "+c.write, false, fmt.Sprintf("%d write site(s), none is %s", len(writes), c.write))
			return nil
		}
		w = writes[0] // reported above as an additional write; the other rules are still evaluated on it
	} else {
		loop := inAnyLoop(w.Fn, w.Call.Block())
		r.Check("C19.R1", c.label+": write", r.Prog.Pos(w.Call.Pos()), shortFunc(w.Fn), "the command performs exactly one write: "+c.write+", once", !loop && w.Fn == run, fmt.Sprintf("in a loop=%v; in the run method=%v", loop, w.Fn == run))
	}
	if w.Fn != run {
		return nil
	}
	wcall, _ := w.Call.(*ssa.Call)
	if wcall == nil {
		r.Undecided("C19.R2", c.label+": written object", r.Prog.Pos(w.Call.Pos()), fnName, "the write is a go/defer statement")
		return nil
	}

	// R2: provenance of the written object
	O := unwrap(w.Obj)
	dc, isCall := O.(*ssa.Call)
	var G ssa.Value
	if isCall && strings.HasSuffix(calleeName(&dc.Call), ".DeepCopy") && !dc.Call.IsInvoke() && len(dc.Call.Args) == 1 {
		G = dc.Call.Args[0]
	}
	var getG, getEDS *Effect
	for _, g := range gets {
		if g.Fn != run {
			continue
		}
		if G != nil && unwrap(g.Obj) == G {
			getG = g
		}
		if shortKind(g.Kind) == "ExtendedDaemonSet" {
			getEDS = g
		}
	}
	r.Check("C19.R2", c.label+": written object", r.Prog.Pos(w.Call.Pos()), fnName, "the written object is DeepCopy() of the object read by Get in this command", getG != nil, "written object: "+O.String())
	if getEDS == nil {
		r.Check("C19.R2", c.label+": read", pos, fnName, "the command reads the targeted ExtendedDaemonSet with Get", false, "no Get(ExtendedDaemonSet)")
		return nil
	}
	E := unwrap(getEDS.Obj) // the ExtendedDaemonSet read

	// R3
	ff := computeFacts(run)
	isEO := func(v ssa.Value) bool { return v == E || v == O && (G == E || O == E) }
	stat := loadOfPath(isEO, "Status", "Canary")
	wantNil := c.statusCanary == "absent"
	okS := ff.Holds(wcall.Block(), wantNil, func(v ssa.Value, _ string) bool { return isNilCompareOf(v, stat) })
	need := "status.canary != nil (an active canary) holds at the write"
	if wantNil {
		need = "status.canary == nil (no active canary) holds at the write"
	}
	r.Check("C19.R3", c.label+": status.canary precondition", r.Prog.Pos(w.Call.Pos()), fnName, need, okS, "must-facts: "+c19ShortFacts(ff.At(wcall.Block())))
	if c.specCanary {
		spec := loadOfPath(isEO, "Spec", "Strategy", "Canary")
		okC := ff.Holds(wcall.Block(), false, func(v ssa.Value, _ string) bool { return isNilCompareOf(v, spec) })
		r.Check("C19.R3", c.label+": spec.strategy.canary precondition", r.Prog.Pos(w.Call.Pos()), fnName, "spec.strategy.canary != nil holds at the write", okC, "must-facts: "+c19ShortFacts(ff.At(wcall.Block())))
	}

	if getG == nil {
		return nil
	}
	recv := run.Params[0]

	// Get keys
	nsField := c19KeyCheck(r, c, run, getEDS, recv, nil, "")
	if getG != getEDS {
		c19KeyCheck(r, c, run, getG, recv, E, nsField)
	}

	// the objects read are never modified and do not escape
	readObjs := []*Effect{getEDS}
	if getG != getEDS {
		readObjs = append(readObjs, getG)
	}
	for _, g := range readObjs {
		g := g
		obj := unwrap(g.Obj)
		ok, why := readOnlyValue(obj, func(ci ssa.CallInstruction, _ ssa.Value) bool {
			if ci == g.Call {
				return true
			}
			n := calleeName(ci.Common())
			return n == pkgClient+".MergeFrom" || strings.HasSuffix(n, ".DeepCopy") && !ci.Common().IsInvoke()
		}, 0)
		r.Check("C19.R2", c.label+": object read ("+shortKind(g.Kind)+") is not modified", r.Prog.Pos(g.Call.Pos()), fnName, "the object returned by Get is only read (it is the patch base / the source of the copy)", ok, why)
	}

	// patch base
	if w.Verb == "Patch" {
		args := wcall.Call.Args
		ok := false
		detail := "no patch argument"
		if len(args) >= 3 {
			detail = args[2].String()
			if pc, isC := args[2].(*ssa.Call); isC && calleeName(&pc.Call) == pkgClient+".MergeFrom" && len(pc.Call.Args) == 1 && unwrap(pc.Call.Args[0]) == G {
				ok = true
				detail = "client.MergeFrom(object read)"
			}
		}
		r.Check("C19.R2", c.label+": patch base", r.Prog.Pos(w.Call.Pos()), fnName, "the patch is the merge difference from the object read (only the changed annotations are sent)", ok, detail)
	}

	// modifications of the copy
	mods := c19CopyMods(r, c, run, O, wcall)
	var cw *c19CondWrite
	if c.cond {
		cw = c19ConditionAppend(r, c, run, O, wcall, mods)
	} else {
		c19Tables(r, c, run, G, O, wcall, mods)
	}
	if c.statusCanary == "present" {
		var getCalls []ssa.Value
		for _, g := range gets {
			if cv := callValue(g.Call); cv != nil && g.Fn == run {
				getCalls = append(getCalls, cv)
			}
		}
		c19Refusals(r, c, run, E, G, O, wcall, getCalls)
	}

	return cw
}

func c19ShortFacts(s factSet) string {
	str := strings.ReplaceAll(s.String(), repoMod+"/", "")
	if len(str) > 400 {
		str = str[:400] + "…"
	}
	return str
}

// c19KeyCheck checks the key of a Get: namespace/name from two receiver fields (the user's
// input) or, for the replica set of fail, name = status.canary.replicaSet of the ExtendedDaemonSet
// read and the same namespace field. Returns the receiver field used as namespace.
func c19KeyCheck(r *Run, c *c19Cmd, run *ssa.Function, g *Effect, recv *ssa.Parameter, eds ssa.Value, nsField string) string {
	pos := r.Prog.Pos(g.Call.Pos())
	fnName := shortFunc(run)
	construct := c.label + ": key of Get(" + shortKind(g.Kind) + ")"
	key := g.Call.Common().Args[1]
	u, ok := key.(*ssa.UnOp)
	if !ok || u.Op != token.MUL {
		r.Undecided("C19.R2", construct, pos, fnName, "key is not a composite literal")
		return ""
	}
	recvField := func(vals []ssa.Value) string {
		if len(vals) != 1 {
			return ""
		}
		root, p := accessPath(vals[0])
		if root == ssa.Value(recv) && len(p) == 1 {
			return p[0]
		}
		return ""
	}
	ns := recvField(fieldStores(u.X, "Namespace"))
	names := fieldStores(u.X, "Name")
	if eds == nil {
		name := recvField(names)
		r.Check("C19.R2", construct, pos, fnName, "the targeted object is read with the namespace and name given by the user (two fields of the options)", ns != "" && name != "" && ns != name, fmt.Sprintf("namespace from field %q, name from field %q", ns, name))
		return ns
	}
	okName := false
	if len(names) == 1 {
		root, p := accessPath(names[0])
		okName = root == eds && len(p) == 3 && p[0] == "Status" && p[1] == "Canary" && p[2] == "ReplicaSet"
	}
	r.Check("C19.R2", construct, pos, fnName, "the replica set read is the one named by status.canary.replicaSet of the ExtendedDaemonSet read, in the same namespace", okName && ns != "" && ns == nsField, fmt.Sprintf("namespace from field %q (ExtendedDaemonSet: %q), name is the canary replica set=%v", ns, nsField, okName))
	return ns
}

type c19Mods struct {
	updates  []*ssa.MapUpdate // annotation writes on the copy
	condSets []*ssa.Store     // stores to Status.Conditions
	bad      bool
}

// c19CopyMods walks every use of the copy and classifies the modifications.
func c19CopyMods(r *Run, c *c19Cmd, run *ssa.Function, O ssa.Value, wcall *ssa.Call) *c19Mods {
	m := &c19Mods{}
	fnName := shortFunc(run)
	construct := c.label + ": modification of the copy"
	bad := func(in ssa.Instruction, what string, more ...string) {
		m.bad = true
		detail := what
		if len(more) > 0 {
			detail += " " + strings.Join(more, " ")
		}
		r.Check("C19.R2", construct+": "+what, r.Prog.Pos(instrPos(in)), fnName, "between DeepCopy and the write the copy is changed only in the documented annotations"+map[bool]string{true: " / by one appended condition", false: ""}[c.cond], false, detail)
	}
	isAnn := func(p []string) bool {
		return len(p) >= 1 && p[len(p)-1] == "Annotations" && (len(p) == 1 || len(p) == 2 && p[0] == "ObjectMeta")
	}
	isCond := func(p []string) bool { return c.cond && len(p) == 2 && p[0] == "Status" && p[1] == "Conditions" }
	var walk func(v ssa.Value, path []string, depth int)
	loaded := func(ld *ssa.UnOp, path []string) {
		switch {
		case isAnn(path):
			for _, rr := range refs(ld) {
				switch x := rr.(type) {
				case *ssa.DebugRef, *ssa.BinOp, *ssa.Range:
				case *ssa.Lookup:
					if x.X != ssa.Value(ld) {
						bad(x, "annotation map used as a key")
					}
				case *ssa.MapUpdate:
					if x.Map == ssa.Value(ld) {
						m.updates = append(m.updates, x)
					} else {
						bad(x, "annotation map stored into another map")
					}
				case ssa.CallInstruction:
					if b, isB := x.Common().Value.(*ssa.Builtin); isB && b.Name() == "len" {
						continue
					}
					if b, isB := x.Common().Value.(*ssa.Builtin); isB && b.Name() == "delete" {
						k := "?"
						if s, okc := constString(x.Common().Args[1]); okc {
							k = s
						}
						bad(x, "annotation "+k+" is deleted")
						continue
					}
					bad(x, "annotation map passed to a call", calleeName(x.Common()))
				default:
					bad(rr, "annotation map used in an unexpected way", rr.String())
				}
			}
		case isCond(path):
			for _, rr := range refs(ld) {
				if ci, isC := rr.(*ssa.Call); isC {
					if b, isB := ci.Call.Value.(*ssa.Builtin); isB && (b.Name() == "append" && ci.Call.Args[0] == ssa.Value(ld) || b.Name() == "len") {
						continue
					}
				}
				if _, isD := rr.(*ssa.DebugRef); isD {
					continue
				}
				bad(rr, "Status.Conditions of the copy used in an unexpected way", rr.String())
			}
		default:
			if isRefType(ld.Type()) {
				if ok, why := readOnlyValue(ld, nil, 0); !ok {
					bad(ld, strings.Join(path, ".")+" of the copy: "+why)
				}
			} else if ok, why := readOnlyValue(ld, nil, 0); !ok {
				_ = why // scalar copies cannot modify the object
			}
		}
	}
	walk = func(v ssa.Value, path []string, depth int) {
		if depth > 8 {
			return
		}
		for _, rr := range refs(v) {
			switch x := rr.(type) {
			case *ssa.DebugRef:
			case *ssa.FieldAddr:
				if x.X == v {
					walk(x, append(append([]string{}, path...), fieldName(x)), depth+1)
				}
			case *ssa.UnOp:
				if x.Op == token.MUL {
					loaded(x, path)
				}
			case *ssa.Store:
				if x.Addr != v {
					bad(x, "address of "+strings.Join(path, ".")+" of the copy is stored")
					continue
				}
				switch {
				case isAnn(path):
					mm, isMM := x.Val.(*ssa.MakeMap)
					if !isMM {
						bad(x, "annotation map replaced by a value that is not a new map", x.Val.String())
						continue
					}
					for _, r2 := range refs(mm) {
						switch y := r2.(type) {
						case *ssa.DebugRef, *ssa.Lookup:
						case *ssa.Store:
							if y != x {
								bad(y, "the new annotation map is also stored elsewhere")
							}
						case *ssa.MapUpdate:
							if y.Map == ssa.Value(mm) {
								m.updates = append(m.updates, y)
							} else {
								bad(y, "the new annotation map is stored into another map")
							}
						default:
							bad(r2, "the new annotation map is used in an unexpected way", r2.String())
						}
					}
				case isCond(path):
					m.condSets = append(m.condSets, x)
				default:
					bad(x, "store into "+strings.Join(path, ".")+" of the copy")
				}
			case *ssa.MakeInterface:
				for _, r2 := range refs(x) {
					if r2 == ssa.Instruction(wcall) {
						continue
					}
					if _, isD := r2.(*ssa.DebugRef); isD {
						continue
					}
					bad(r2, "the copy is handed to another call", r2.String())
				}
			case *ssa.IndexAddr:
				bad(x, "element of "+strings.Join(path, ".")+" of the copy addressed")
			case ssa.CallInstruction:
				bad(x, "the copy ("+strings.Join(path, ".")+") is passed to a call", calleeName(x.Common()))
			default:
				bad(rr, "the copy is used in an unexpected way", rr.String())
			}
		}
	}
	walk(O, nil, 0)
	if !m.bad {
		r.Check("C19.R2", construct, r.Prog.Pos(instrPos(wcall)), fnName, "between DeepCopy and the write the copy is changed only in the documented annotations"+map[bool]string{true: " / by one appended condition", false: ""}[c.cond], true,
			fmt.Sprintf("%d annotation write(s), %d condition store(s)", len(m.updates), len(m.condSets)))
	}
	return m
}

type c19Mode struct{ field, val string }

// c19Bindings maps the command word (first word of cobra.Command.Use) to the mode the options
// constructor stores: word -> (field, constant).
func c19Bindings(r *Run, c *c19Cmd) (map[string]c19Mode, string) {
	out := map[string]c19Mode{}
	named := r.Prog.Named(c.pkg, c.typ)
	if named == nil {
		return out, "options type not found"
	}
	isOpt := func(t types.Type) bool {
		p, ok := t.(*types.Pointer)
		return ok && types.Identical(p.Elem(), named)
	}
	// constructors: functions returning *typ that store a parameter into a field of a new typ
	type ctorInfo struct{ field map[int]string }
	ctors := map[*ssa.Function]*ctorInfo{}
	modeFields := map[string]bool{}
	var pkgFns []*ssa.Function
	for _, fn := range r.Prog.RepoFuncs() {
		root := fn
		for root.Parent() != nil {
			root = root.Parent()
		}
		if root.Pkg != nil && root.Pkg.Pkg.Path() == c.pkg {
			pkgFns = append(pkgFns, fn)
		}
	}
	for _, fn := range pkgFns {
		res := fn.Signature.Results()
		if res.Len() != 1 || !isOpt(res.At(0).Type()) {
			continue
		}
		ci := &ctorInfo{field: map[int]string{}}
		for _, b := range fn.Blocks {
			for _, in := range b.Instrs {
				st, ok := in.(*ssa.Store)
				if !ok {
					continue
				}
				fa, ok := st.Addr.(*ssa.FieldAddr)
				par, isPar := st.Val.(*ssa.Parameter)
				if !ok || !isPar || !isOpt(fa.X.Type()) {
					continue
				}
				switch par.Type().Underlying().(type) {
				case *types.Basic:
					ci.field[paramIndex(par)] = fieldName(fa)
					modeFields[fieldName(fa)] = true
				}
			}
		}
		if len(ci.field) > 0 {
			ctors[fn] = ci
		}
	}
	useWord := func(fn *ssa.Function) string {
		word := ""
		for _, b := range fn.Blocks {
			for _, in := range b.Instrs {
				if st, ok := in.(*ssa.Store); ok {
					if fa, isFA := st.Addr.(*ssa.FieldAddr); isFA && fieldName(fa) == "Use" && typeName(fa.X.Type()) == "github.com/spf13/cobra.Command" {
						if s, isC := constString(st.Val); isC {
							word = firstWord(s)
						}
					}
				}
			}
		}
		return word
	}
	// options built inline next to the cobra command: constant stores into basic-typed fields
	for _, fn := range pkgFns {
		word := useWord(fn)
		if word == "" {
			continue
		}
		for _, b := range fn.Blocks {
			for _, in := range b.Instrs {
				st, ok := in.(*ssa.Store)
				if !ok {
					continue
				}
				fa, isFA := st.Addr.(*ssa.FieldAddr)
				if !isFA || !isOpt(fa.X.Type()) {
					continue
				}
				if bv, isB := constBool(st.Val); isB {
					out[word] = c19Mode{fieldName(fa), fmt.Sprint(bv)}
					modeFields[fieldName(fa)] = true
				} else if sv, isS := constString(st.Val); isS {
					out[word] = c19Mode{fieldName(fa), sv}
					modeFields[fieldName(fa)] = true
				}
			}
		}
	}
	// the mode fields are written nowhere else
	for _, fn := range pkgFns {
		if ctors[fn] != nil || useWord(fn) != "" {
			continue
		}
		for _, b := range fn.Blocks {
			for _, in := range b.Instrs {
				if st, ok := in.(*ssa.Store); ok {
					if fa, isFA := st.Addr.(*ssa.FieldAddr); isFA && isOpt(fa.X.Type()) && modeFields[fieldName(fa)] {
						return out, "mode field " + fieldName(fa) + " is also written in " + shortFunc(fn)
					}
				}
			}
		}
	}
	for _, fn := range pkgFns {
		word := useWord(fn)
		if word == "" {
			continue
		}
		for _, ci := range callsIn(fn) {
			cal := staticCallee(ci.Common())
			info := ctors[cal]
			if info == nil {
				continue
			}
			for idx, f := range info.field {
				a := ci.Common().Args[idx]
				if b, ok := constBool(a); ok {
					out[word] = c19Mode{f, fmt.Sprint(b)}
				} else if s, ok := constString(a); ok {
					out[word] = c19Mode{f, s}
				}
			}
		}
	}
	return out, ""
}

func c19TableString(t map[string]string) string {
	var ks []string
	for k := range t {
		ks = append(ks, k)
	}
	sort.Strings(ks)
	var out []string
	for _, k := range ks {
		short := k
		if i := strings.LastIndex(k, "/"); i >= 0 {
			short = k[i+1:]
		}
		out = append(out, short+"="+t[k])
	}
	return "{" + strings.Join(out, ", ") + "}"
}

func c19SameTable(a, b map[string]string) bool {
	if len(a) != len(b) {
		return false
	}
	for k, v := range a {
		if b[k] != v {
			return false
		}
	}
	return true
}

// c19Tables: on every path to the write, the final set of annotation writes is a documented
// table, bound to the command word through the mode field.
func c19Tables(r *Run, c *c19Cmd, run *ssa.Function, G, O ssa.Value, wcall *ssa.Call, mods *c19Mods) {
	fnName := shortFunc(run)
	recv := run.Params[0]
	k := newKeyer(run)
	wb := wcall.Block()
	paths, ok := enumPaths(run, k, run.Blocks[0], func(b *ssa.BasicBlock) bool { return b == wb }, func(b *ssa.BasicBlock) bool { return b == wb }, 20000)
	r.paths += len(paths)
	if !ok {
		r.Undecided("C19.R2", c.label+": annotation table", r.Prog.Pos(run.Pos()), fnName, "path cap exceeded")
		return
	}
	bind, berr := c19Bindings(r, c)
	isUpd := map[ssa.Instruction]bool{}
	for _, u := range mods.updates {
		isUpd[u] = true
	}
	type agg struct {
		ok     bool
		detail string
		need   string
		pos    token.Pos
		triv   bool
	}
	res := map[string]*agg{}
	var order []string
	for _, p := range paths {
		delta := map[string]string{}
		var lastU ssa.Instruction
		for bi, b := range p.Blocks {
			for _, in := range b.Instrs {
				if bi == len(p.Blocks)-1 && in == ssa.Instruction(wcall) {
					break
				}
				u, isU := in.(*ssa.MapUpdate)
				if !isU || !isUpd[in] {
					continue
				}
				lastU = in
				key, isC := constString(u.Key)
				if !isC {
					key = "<dynamic key " + u.Key.String() + ">"
				}
				if s, isS := constString(u.Value); isS {
					delta[key] = s
				} else if root, pth := accessPath(u.Value); (root == G || root == O) && len(pth) == 3 && pth[0] == "Status" && pth[1] == "Canary" && pth[2] == "ReplicaSet" {
					delta[key] = c19CanaryRS
				} else {
					delta[key] = "<" + pathString(u.Value) + ">"
				}
			}
		}
		// mode facts
		modes := map[c19Mode]bool{}
		for _, br := range pathBranches(p) {
			cond, pol := stripNot(br.Cond, br.Pol)
			if ld, isLd := cond.(*ssa.UnOp); isLd && ld.Op == token.MUL {
				if root, pth := accessPath(ld); root == ssa.Value(recv) && len(pth) == 1 {
					modes[c19Mode{pth[0], fmt.Sprint(pol)}] = true
				}
				continue
			}
			if x, y, equal, isEq := eqTruth(cond, pol); isEq {
				for _, pr := range [][2]ssa.Value{{x, y}, {y, x}} {
					root, pth := accessPath(pr[0])
					if _, isLd := pr[0].(*ssa.UnOp); !isLd || root != ssa.Value(recv) || len(pth) != 1 {
						continue
					}
					if s, isC := constString(pr[1]); isC && equal {
						modes[c19Mode{pth[0], s}] = true
					} else if b, isB := constBool(pr[1]); isB {
						modes[c19Mode{pth[0], fmt.Sprint(b == equal)}] = true
					}
				}
			}
		}
		// two different constants for one mode field: the path is infeasible
		perField := map[string]int{}
		for m := range modes {
			perField[m.field]++
		}
		infeasible := false
		for _, n := range perField {
			if n > 1 {
				infeasible = true
			}
		}
		if infeasible {
			continue
		}
		var ms []string
		for m := range modes {
			ms = append(ms, m.field+"="+m.val)
		}
		sort.Strings(ms)
		construct := c.label + ": annotations written on paths with [" + strings.Join(ms, " ") + "] " + c19TableString(delta)
		a := res[construct]
		if a == nil {
			a = &agg{ok: true, pos: wcall.Pos()}
			if lastU != nil {
				a.pos = instrPos(lastU)
			}
			res[construct] = a
			order = append(order, construct)
		}
		if len(delta) == 0 {
			a.need = "a path that writes no annotation changes nothing"
			a.triv = true
			continue
		}
		word := ""
		var words []string
		for w, t := range c.tables {
			words = append(words, w+": "+c19TableString(t))
			if c19SameTable(t, delta) {
				word = w
			}
		}
		sort.Strings(words)
		a.need = "the annotations written are exactly one documented table (" + strings.Join(words, "; ") + ")"
		if word == "" {
			a.ok = false
			a.detail = "writes " + c19TableString(delta) + ", not a documented table"
			continue
		}
		if len(c.tables) == 1 {
			a.detail = "table of `" + word + "`"
			continue
		}
		a.need += " and it is the table of the command word whose constructor sets the mode tested on the path"
		b, has := bind[word]
		switch {
		case berr != "":
			a.ok, a.detail = false, "undecided: "+berr
		case !has:
			a.ok, a.detail = false, "undecided: no cobra command with Use word `"+word+"` constructs the options with a constant mode"
		case !modes[b]:
			a.ok, a.detail = false, fmt.Sprintf("the table of `%s` is written on a path where %s=%s (the mode the `%s` command is built with) is not established; path modes: [%s]", word, b.field, b.val, word, strings.Join(ms, " "))
		default:
			a.detail = fmt.Sprintf("table of `%s`, bound by %s=%s", word, b.field, b.val)
		}
	}
	sort.Strings(order)
	for _, cst := range order {
		a := res[cst]
		o := r.Check("C19.R2", cst, r.Prog.Pos(a.pos), fnName, a.need, a.ok, a.detail)
		o.Trivial = a.triv
	}
	// every documented table is written on some path
	anyBad := false
	for _, a := range res {
		if !a.ok {
			anyBad = true
		}
	}
	for w, t := range c.tables {
		if anyBad {
			break // already reported above
		}
		found := false
		for cst, a := range res {
			if a.ok && strings.HasSuffix(cst, c19TableString(t)) {
				found = true
			}
		}
		r.Check("C19.R2", c.label+": table of `"+w+"` is written", r.Prog.Pos(wcall.Pos()), fnName, "the command word `"+w+"` has a path that writes "+c19TableString(t), found, "")
	}
}

// c19ConditionAppend: fail appends exactly one condition {type Canary-Failed, status True}.
func c19ConditionAppend(r *Run, c *c19Cmd, run *ssa.Function, O ssa.Value, wcall *ssa.Call, mods *c19Mods) *c19CondWrite {
	fnName := shortFunc(run)
	pos := r.Prog.Pos(wcall.Pos())
	construct := c.label + ": appended condition"
	if len(mods.updates) > 0 {
		r.Check("C19.R2", c.label+": no annotation write", r.Prog.Pos(instrPos(mods.updates[0])), fnName, "fail changes only the replica set's conditions", false, "annotation written on the replica set copy")
	}
	if len(mods.condSets) != 1 {
		r.Check("C19.R2", construct, pos, fnName, "exactly one store to Status.Conditions of the copy: append(conditions, failed condition)", false, fmt.Sprintf("%d stores", len(mods.condSets)))
		return nil
	}
	st := mods.condSets[0]
	dom := st.Block() == wcall.Block() && instrIndex(st) < instrIndex(wcall) || st.Block() != wcall.Block() && st.Block().Dominates(wcall.Block())
	ap, isAp := st.Val.(*ssa.Call)
	okShape := false
	var elems []ssa.Value
	if isAp {
		if b, isB := ap.Call.Value.(*ssa.Builtin); isB && b.Name() == "append" && len(ap.Call.Args) == 2 {
			base, bp := accessPath(ap.Call.Args[0])
			var complete bool
			elems, complete = varargElems(ap.Call.Args[1])
			okShape = base == O && len(bp) == 2 && bp[0] == "Status" && bp[1] == "Conditions" && complete && len(elems) == 1
		}
	}
	if !okShape || !dom || inAnyLoop(run, st.Block()) {
		r.Check("C19.R2", construct, r.Prog.Pos(instrPos(st)), fnName, "Status.Conditions of the copy = append(its own conditions, one condition), once, before the write", false, fmt.Sprintf("shape ok=%v dominates write=%v", okShape, dom))
		return nil
	}
	// the element: a struct built by a repository constructor; resolve its Type and Status
	el := elems[0]
	typV, statV, why := c19CondFields(r, el)
	if why != "" {
		r.Undecided("C19.R2", construct, r.Prog.Pos(instrPos(st)), fnName, why)
		return nil
	}
	wantT, _ := r.Prog.constStr(pkgAPI, "ConditionTypeCanaryFailed")
	wantS, _ := r.Prog.constStr(pkgCoreV1, "ConditionTrue")
	gotT, okT := constString(typV)
	gotS, okS := c19StatusConst(r, statV)
	r.Check("C19.R2", construct, r.Prog.Pos(instrPos(st)), fnName, fmt.Sprintf("the appended condition has type %q and status %q", wantT, wantS), okT && okS && gotT == wantT && gotS == wantS,
		fmt.Sprintf("type=%q (const=%v) status=%q (decided=%v)", gotT, okT, gotS, okS))
	if okT && okS {
		return &c19CondWrite{typ: gotT, status: gotS}
	}
	return nil
}

// c19CondFields resolves the Type and Status of a condition value: either a local composite
// literal, or the result of a repository constructor that stores its parameters in those fields.
func c19CondFields(r *Run, el ssa.Value) (typ, status ssa.Value, why string) {
	fromAlloc := func(a ssa.Value) (t, s ssa.Value) {
		ts, ss := fieldStores(a, "Type"), fieldStores(a, "Status")
		if len(ts) == 1 && len(ss) == 1 {
			return ts[0], ss[0]
		}
		return nil, nil
	}
	switch x := el.(type) {
	case *ssa.UnOp:
		if x.Op == token.MUL {
			if t, s := fromAlloc(x.X); t != nil {
				return t, s, ""
			}
		}
	case *ssa.Call:
		cal := staticCallee(&x.Call)
		if cal == nil || !r.Prog.IsRuleSite(cal) {
			return nil, nil, "the appended condition is built by a function outside the repository"
		}
		var t, s ssa.Value
		n := 0
		for _, b := range cal.Blocks {
			ret := returnOf(b)
			if ret == nil {
				continue
			}
			n++
			ld, ok := ret.Results[0].(*ssa.UnOp)
			if !ok || ld.Op != token.MUL {
				return nil, nil, "condition constructor does not return a composite literal"
			}
			t, s = fromAlloc(ld.X)
		}
		if n != 1 || t == nil {
			return nil, nil, "condition constructor is not a single composite literal with Type and Status"
		}
		tp, ok1 := t.(*ssa.Parameter)
		sp, ok2 := s.(*ssa.Parameter)
		if !ok1 || !ok2 {
			return nil, nil, "condition constructor does not take Type and Status from its parameters"
		}
		return x.Call.Args[paramIndex(tp)], x.Call.Args[paramIndex(sp)], ""
	}
	return nil, nil, "the appended condition is not a composite literal or a constructor call: " + el.String()
}

// c19StatusConst evaluates a condition status argument: a constant, or f(const bool) for a
// repository function whose paths under that parameter value all return one constant.
func c19StatusConst(r *Run, v ssa.Value) (string, bool) {
	if s, ok := constString(v); ok {
		return s, true
	}
	c, ok := v.(*ssa.Call)
	if !ok || len(c.Call.Args) != 1 {
		return "", false
	}
	arg, isB := constBool(c.Call.Args[0])
	cal := staticCallee(&c.Call)
	if !isB || cal == nil || !r.Prog.IsRuleSite(cal) || len(cal.Params) != 1 {
		return "", false
	}
	paths, _, okp := funcPaths(cal, 100)
	r.paths += len(paths)
	if !okp {
		return "", false
	}
	out, n := "", 0
	for _, p := range paths {
		feasible := true
		for _, br := range pathBranches(p) {
			cond, pol := stripNot(br.Cond, br.Pol)
			if cond != ssa.Value(cal.Params[0]) {
				return "", false
			}
			if pol != arg {
				feasible = false
			}
		}
		if !feasible {
			continue
		}
		ret := returnOf(p.Blocks[len(p.Blocks)-1])
		s, isC := constString(p.Resolve(ret.Results[0]))
		if !isC || n > 0 && s != out {
			return "", false
		}
		out = s
		n++
	}
	return out, n > 0
}

// ---------------------------------------------------------------------------------------------
// R4

type c19Reader struct {
	fn      *ssa.Function
	consts  map[string]bool
	dynamic bool
}

func c19Wire(r *Run, cmds []*c19Cmd, cw *c19CondWrite) {
	var roots []*ssa.Function
	for _, pkg := range []string{pkgEDS, pkgERS} {
		if fn := r.Prog.Method(pkg, "Reconciler", "Reconcile"); fn != nil {
			roots = append(roots, fn)
		} else {
			r.Fatal("anchor (%s.Reconciler).Reconcile not found", pkg)
		}
	}
	reach := r.Prog.reachableFuncs(roots...)
	readers := map[string][]*c19Reader{}
	for _, fn := range sortedFuncs(reach) {
		for _, b := range fn.Blocks {
			for _, in := range b.Instrs {
				lk, ok := in.(*ssa.Lookup)
				if !ok {
					continue
				}
				key, isC := constString(lk.Index)
				mt, isM := lk.X.Type().Underlying().(*types.Map)
				if !isC || !isM || !types.Identical(mt.Elem(), types.Typ[types.String]) {
					continue
				}
				rd := &c19Reader{fn: fn, consts: map[string]bool{}}
				var vals []ssa.Value
				if lk.CommaOk {
					for _, rr := range refs(lk) {
						if ex, isE := rr.(*ssa.Extract); isE && ex.Index == 0 {
							vals = append(vals, ex)
						}
					}
				} else {
					vals = append(vals, lk)
				}
				for _, v := range vals {
					for _, rr := range refs(v) {
						bo, isB := rr.(*ssa.BinOp)
						if !isB || bo.Op != token.EQL && bo.Op != token.NEQ {
							continue
						}
						other := bo.X
						if other == v {
							other = bo.Y
						}
						if s, isS := constString(other); isS {
							rd.consts[s] = true
						} else if _, isP := unwrap(other).(*ssa.Parameter); isP {
							rd.dynamic = true
						}
					}
				}
				readers[key] = append(readers[key], rd)
			}
		}
	}
	written := map[string]map[string]bool{}
	var keys []string
	for _, c := range cmds {
		for _, t := range c.tables {
			for k, v := range t {
				if written[k] == nil {
					written[k] = map[string]bool{}
					keys = append(keys, k)
				}
				written[k][v] = true
			}
		}
	}
	sort.Strings(keys)
	for _, k := range keys {
		rds := readers[k]
		short := k[strings.LastIndex(k, "/")+1:]
		var where []string
		match, dyn := false, false
		for _, rd := range rds {
			where = append(where, shortFunc(rd.fn))
			for cst := range rd.consts {
				if written[k][cst] {
					match = true
				}
			}
			if rd.dynamic {
				dyn = true
			}
		}
		pos, fn := "-", "-"
		if len(rds) > 0 {
			pos, fn = r.Prog.Pos(rds[0].fn.Pos()), shortFunc(rds[0].fn)
		}
		var ws []string
		for v := range written[k] {
			ws = append(ws, v)
		}
		sort.Strings(ws)
		if written[k][c19CanaryRS] {
			r.Check("C19.R4", "reader of annotation "+short, pos, fn, "a function reachable from the controllers looks the key up and compares the value with a name it is given", len(rds) > 0 && dyn, "readers: "+strings.Join(where, ", "))
			continue
		}
		r.Check("C19.R4", "reader of annotation "+short, pos, fn, "a function reachable from the controllers looks the key up and compares the value with a constant the command writes; the command writes two distinct values", len(rds) > 0 && match && len(ws) >= 2,
			fmt.Sprintf("written values %v; readers: %s", ws, strings.Join(where, ", ")))
	}
	// fail: condition type and status
	if cw == nil {
		r.Check("C19.R4", "reader of the failed condition", "-", "-", "the condition appended by fail is known", false, "the appended condition could not be resolved (see C19.R2)")
		return
	}
	isTrue := r.Prog.Func(pkgERSCond, "IsConditionTrue")
	if isTrue == nil {
		r.Fatal("anchor %s.IsConditionTrue not found", pkgERSCond)
		return
	}
	var sites []string
	var first ssa.CallInstruction
	for _, fn := range sortedFuncs(reach) {
		for _, ci := range callsIn(fn) {
			if staticCallee(ci.Common()) != isTrue || len(ci.Common().Args) < 2 {
				continue
			}
			if s, ok := constString(ci.Common().Args[1]); ok && s == cw.typ {
				sites = append(sites, shortFunc(fn))
				if first == nil {
					first = ci
				}
			}
		}
	}
	pos, fn := "-", "-"
	if first != nil {
		pos, fn = r.Prog.Pos(first.Pos()), shortFunc(first.Parent())
	}
	r.Check("C19.R4", "reader of the failed condition: type", pos, fn, fmt.Sprintf("the controllers test the condition type %q that fail appends", cw.typ), len(sites) > 0, "tested in: "+strings.Join(sites, ", "))
	// IsConditionTrue compares the condition's Status with the constant fail writes
	cmp := false
	for _, b := range isTrue.Blocks {
		for _, in := range b.Instrs {
			if bo, ok := in.(*ssa.BinOp); ok && bo.Op == token.EQL {
				for _, pr := range [][2]ssa.Value{{bo.X, bo.Y}, {bo.Y, bo.X}} {
					if s, isC := constString(pr[1]); isC && s == cw.status && hasPathSuffix(pr[0], "Status") {
						cmp = true
					}
				}
			}
		}
	}
	r.Check("C19.R4", "reader of the failed condition: status", r.Prog.Pos(isTrue.Pos()), shortFunc(isTrue), fmt.Sprintf("the condition reader tests Status == %q, the status fail writes", cw.status), cmp, "")
}

// ---------------------------------------------------------------------------------------------
// R5: reader side of validate

func c19ValidateReader(r *Run) {
	site := findDecision(r, "C19.R5")
	if site == nil {
		return
	}
	if !assignRoles(r, "C19.R5", site) {
		return
	}
	fn := site.decision
	paths, _, ok := funcPaths(fn, 5000)
	r.paths += len(paths)
	if !ok {
		r.Undecided("C19.R5", "validate table", r.Prog.Pos(fn.Pos()), shortFunc(fn), "path cap exceeded")
		return
	}
	utd, act := site.roles["upToDate"], site.roles["active"]
	n := 0
	var allNotes []string
	for _, p := range paths {
		var notes []string
		a := c05Classify(site, p, &notes)
		allNotes = append(allNotes, notes...)
		if !is(a.valid, true) {
			// a path that keeps the active replica set although a canary is in progress must have
			// refuted the validation first: otherwise validation is not consulted at all on that path
			// (e.g. a paused canary short-circuits before IsCanaryDeploymentValid is evaluated)
			ret0 := returnOf(p.Blocks[len(p.Blocks)-1])
			res0 := unwrap(p.Resolve(ret0.Results[0]))
			if res0 == ssa.Value(act) && is(a.eqActive, false) && is(a.activeNil, false) && is(a.noCanary, false) {
				r.Check("C19.R5", "keeps active on path ["+describeAtoms(a)+"]", r.Prog.Pos(instrPos(ret0)), shortFunc(fn),
					"the active replica set is kept during a canary only on paths where canary-valid was evaluated and is false", is(a.valid, false),
					"this path decides not to promote without consulting the canary-valid annotation")
			}
			continue
		}
		n++
		ret := returnOf(p.Blocks[len(p.Blocks)-1])
		res := unwrap(p.Resolve(ret.Results[0]))
		good := res == ssa.Value(utd) || res == ssa.Value(act) && is(a.eqActive, true)
		what := "the up-to-date replica set"
		if !good {
			what = "the active replica set (the validation is ignored)"
			if res != ssa.Value(act) {
				what = res.String()
			}
		}
		r.Check("C19.R5", "return on path ["+describeAtoms(a)+"]", r.Prog.Pos(instrPos(ret)), shortFunc(fn),
			"when the canary-valid annotation names the up-to-date replica set, that replica set becomes the active one whatever the pause/fail/time state", good, "returns "+what)
	}
	if n == 0 {
		r.Check("C19.R5", "validate table", r.Prog.Pos(fn.Pos()), shortFunc(fn), "the promotion decision branches on IsCanaryDeploymentValid(daemonset annotations, up-to-date replica set name)", false,
			"no path carries the fact canary-valid=true; "+strings.Join(allNotes, "; "))
	}
}

// ---------------------------------------------------------------------------------------------
// R6: reader side of unpause

func c19UnpauseReader(r *Run) {
	_, reach := c06CanaryEntry(r)
	if reach == nil {
		return
	}
	// (a) the source of IsUnpaused
	nSrc := 0
	unpausedWriters := map[*ssa.Function]bool{}
	for _, fn := range repoFuncs(r.Prog) {
		for _, st := range storesToFieldOf(fn, pkgStrategy, "Result", "IsUnpaused") {
			nSrc++
			unpausedWriters[fn] = true
			call, ok := stripConv(st.Val).(*ssa.Call)
			good := ok && calleeName(&call.Call) == pkgEDS+".IsCanaryDeploymentUnpaused"
			detail := "stored from " + describeVal(st.Val)
			if good && !c06IsParentAnnotations(r, fn, call.Call.Args[0]) {
				good, detail = false, "the reader is not applied to the parent ExtendedDaemonSet's annotations"
			}
			r.Check("C19.R6", "store IsUnpaused", r.Prog.Pos(instrPos(st)), shortFunc(fn), "IsUnpaused is the canary-unpaused annotation reader applied to the parent's annotations", good, detail)
		}
	}
	if nSrc == 0 {
		r.Check("C19.R6", "store IsUnpaused", "-", "-", "IsUnpaused is read from the canary-unpaused annotation", false, "no store to Result.IsUnpaused")
	}
	// (b) stores to IsPaused reachable from the canary strategy
	nPause, nReset := 0, 0
	for _, fn := range sortedFuncs(reach) {
		sts := storesToFieldOf(fn, pkgStrategy, "Result", "IsPaused")
		if len(sts) == 0 {
			continue
		}
		ff := computeFacts(fn)
		for i, st := range sts {
			pos := r.Prog.Pos(instrPos(st))
			root, _ := accessPath(st.Addr)
			flagFact := func(pol bool) bool {
				return ff.Holds(st.Block(), pol, func(v ssa.Value, _ string) bool {
					if !isLoadOfField(v, pkgStrategy, "Result", "IsUnpaused") {
						return false
					}
					lr, _ := accessPath(v)
					return lr == root
				})
			}
			b, isC := constBool(st.Val)
			switch {
			case isC && b:
				nPause++
				reason := c06ReasonInBlock(st, "PausedReason")
				construct := "store IsPaused=true [reason " + reason + "]"
				if reason == "?" {
					construct = fmt.Sprintf("store IsPaused=true #%d", i+1)
				}
				good := flagFact(false) && !unpausedWriters[fn]
				detail := "under IsUnpaused=false of the same Result"
				if !good {
					detail = "IsUnpaused=false is not established where the canary is paused: a manually unpaused canary is paused again on the next sync; must-facts: " + shortSet(ff.At(st.Block()))
					if unpausedWriters[fn] {
						detail = "IsUnpaused is written in the same function; the fact cannot be relied on"
					}
				}
				r.Check("C19.R6", construct, pos, shortFunc(fn), "the per-pod evaluation pauses the canary only when it was not manually unpaused (canary-unpaused annotation)", good, detail)
			case isC && !b:
				if flagFact(true) {
					nReset++
					r.Check("C19.R6", "store IsPaused=false under IsUnpaused", pos, shortFunc(fn), "the manual unpause clears the paused flag", true, "")
				} else {
					o := r.Check("C19.R6", fmt.Sprintf("store IsPaused=false #%d", i+1), pos, shortFunc(fn), "clearing the paused flag is always allowed here", true, "")
					o.Trivial = true
				}
			default:
				ex, isEx := stripConv(st.Val).(*ssa.Extract)
				var call *ssa.Call
				if isEx {
					call, _ = ex.Tuple.(*ssa.Call)
				}
				good := call != nil && calleeName(&call.Call) == pkgEDS+".IsCanaryDeploymentPaused" && ex.Index == 0
				o := r.Check("C19.R6", "store IsPaused=persisted state", pos, shortFunc(fn), "IsPaused is otherwise only initialised from the persisted paused reader", good, "stored from "+describeVal(st.Val))
				o.Trivial = good
			}
		}
	}
	if nPause == 0 {
		r.Check("C19.R6", "store IsPaused=true", "-", "-", "the canary strategy has an auto-pause store", false, "none found")
	}
	if nReset == 0 {
		r.Check("C19.R6", "store IsPaused=false under IsUnpaused", "-", "-", "somewhere in the canary strategy IsUnpaused=true clears IsPaused (canary unpause returns to state Canary)", false, "no store IsPaused=false under the must-fact IsUnpaused=true")
	}
}

// ---------------------------------------------------------------------------------------------
// R7: refusal table of the canary commands

// c19PathModes reads the mode facts (receiver field = constant) of a path; ok=false when the path
// carries two different constants for one field (infeasible).
func c19PathModes(p *Path, recv *ssa.Parameter) (map[c19Mode]bool, bool) {
	modes := map[c19Mode]bool{}
	for _, br := range pathBranches(p) {
		cond, pol := stripNot(br.Cond, br.Pol)
		if ld, isLd := cond.(*ssa.UnOp); isLd && ld.Op == token.MUL {
			if root, pth := accessPath(ld); root == ssa.Value(recv) && len(pth) == 1 {
				modes[c19Mode{pth[0], fmt.Sprint(pol)}] = true
			}
			continue
		}
		if x, y, equal, isEq := eqTruth(cond, pol); isEq {
			for _, pr := range [][2]ssa.Value{{x, y}, {y, x}} {
				root, pth := accessPath(pr[0])
				if _, isLd := pr[0].(*ssa.UnOp); !isLd || root != ssa.Value(recv) || len(pth) != 1 {
					continue
				}
				if s, isC := constString(pr[1]); isC && equal {
					modes[c19Mode{pth[0], s}] = true
				} else if b, isB := constBool(pr[1]); isB {
					modes[c19Mode{pth[0], fmt.Sprint(b == equal)}] = true
				}
			}
		}
	}
	perField := map[string]int{}
	for m := range modes {
		perField[m.field]++
	}
	for _, n := range perField {
		if n > 1 {
			return modes, false
		}
	}
	return modes, true
}

func c19Refusals(r *Run, c *c19Cmd, run *ssa.Function, E, G, O ssa.Value, wcall *ssa.Call, getCalls []ssa.Value) {
	fnName := shortFunc(run)
	recv := run.Params[0]
	paths, _, ok := funcPaths(run, 20000)
	r.paths += len(paths)
	if !ok {
		r.Undecided("C19.R7", c.label+": refusal table", r.Prog.Pos(run.Pos()), fnName, "path cap exceeded")
		return
	}
	bind, _ := c19Bindings(r, c)
	isE := func(v ssa.Value) bool { return v == E || v == O && G == E }
	statP := loadOfPath(isE, "Status", "Canary")
	specP := loadOfPath(isE, "Spec", "Strategy", "Canary")
	// annotation value of a documented key: (key, true) for the value of a look-up on the copy's or
	// the read object's annotations
	annValue := func(v ssa.Value) (string, bool) {
		var lk *ssa.Lookup
		switch x := v.(type) {
		case *ssa.Lookup:
			if !x.CommaOk {
				lk = x
			}
		case *ssa.Extract:
			if l, isL := x.Tuple.(*ssa.Lookup); isL && x.Index == 0 {
				lk = l
			}
		}
		if lk == nil {
			return "", false
		}
		root, pth := accessPath(lk.X)
		if (root != O && root != G) || len(pth) == 0 || pth[len(pth)-1] != "Annotations" {
			return "", false
		}
		key, isC := constString(lk.Index)
		return key, isC
	}
	sameValue := func(v ssa.Value, want string) bool {
		if want == c19CanaryRS {
			root, pth := accessPath(v)
			return (root == G || root == O) && len(pth) == 3 && pth[0] == "Status" && pth[1] == "Canary" && pth[2] == "ReplicaSet"
		}
		s, isC := constString(v)
		return isC && s == want
	}
	type agg struct {
		ok     bool
		pos    token.Pos
		detail string
	}
	res := map[string]*agg{}
	var order []string
	for _, p := range paths {
		ret := returnOf(p.Blocks[len(p.Blocks)-1])
		if ret == nil || len(ret.Results) == 0 || isNilConst(unwrap(p.Resolve(ret.Results[len(ret.Results)-1]))) || p.Contains(wcall.Block()) {
			continue
		}
		modes, feasible := c19PathModes(p, recv)
		if !feasible {
			continue
		}
		// the table of the requested state on this path
		var want map[string]string
		word := ""
		if len(c.tables) == 1 {
			for w, t := range c.tables {
				word, want = w, t
			}
		} else {
			for w, t := range c.tables {
				if b, has := bind[w]; has && modes[b] {
					word, want = w, t
				}
			}
		}
		var reasons, atoms []string
		for _, br := range pathBranches(p) {
			x, y, equal, isEq := eqTruth(br.Cond, br.Pol)
			if !isEq {
				continue
			}
			if isNilConst(x) || isNilConst(y) {
				v := x
				if isNilConst(x) {
					v = y
				}
				for _, g := range getCalls {
					if v == g {
						if !equal {
							reasons = append(reasons, "Get failed")
						} else {
							atoms = append(atoms, "get=ok")
						}
					}
				}
				switch {
				case statP(v):
					if equal {
						reasons = append(reasons, "status.canary == nil")
					} else {
						atoms = append(atoms, "status.canary=set")
					}
				case specP(v):
					if equal && c.specCanary {
						reasons = append(reasons, "spec.strategy.canary == nil")
					} else {
						atoms = append(atoms, fmt.Sprintf("spec.canary==nil:%v", equal))
					}
				default:
					if root, pth := accessPath(v); (root == O || root == G) && len(pth) > 0 && pth[len(pth)-1] == "Annotations" {
						atoms = append(atoms, fmt.Sprintf("annotations==nil:%v", equal))
					}
				}
				continue
			}
			for _, pr := range [][2]ssa.Value{{x, y}, {y, x}} {
				key, isAnn := annValue(pr[0])
				if !isAnn {
					continue
				}
				short := key[strings.LastIndex(key, "/")+1:]
				val := "<name>"
				if s, isC := constString(pr[1]); isC {
					val = s
				}
				if equal && want != nil && want[key] != "" && sameValue(pr[1], want[key]) {
					reasons = append(reasons, fmt.Sprintf("annotation %s already %s", short, val))
				} else {
					atoms = append(atoms, fmt.Sprintf("%s==%s:%v", short, val, equal))
				}
			}
		}
		// presence flags
		for _, br := range pathBranches(p) {
			cond, pol := stripNot(br.Cond, br.Pol)
			if ex, isEx := cond.(*ssa.Extract); isEx && ex.Index == 1 {
				if lk, isL := ex.Tuple.(*ssa.Lookup); isL {
					if key, isC := constString(lk.Index); isC {
						atoms = append(atoms, fmt.Sprintf("%s present:%v", key[strings.LastIndex(key, "/")+1:], pol))
					}
				}
			}
		}
		sort.Strings(reasons)
		sort.Strings(atoms)
		reasons = c19Uniq(reasons)
		atoms = c19Uniq(atoms)
		construct := c.label + ": refusal [" + strings.Join(reasons, "; ") + "]"
		if len(reasons) == 0 {
			construct = c.label + ": refusal without a documented reason [" + word + " " + strings.Join(atoms, " ") + "]"
		}
		a := res[construct]
		if a == nil {
			a = &agg{ok: len(reasons) > 0, pos: instrPos(ret)}
			if !a.ok {
				a.detail = "the command returns an error here although the object was read, the canary precondition holds and no documented annotation already has the requested value; facts: " + strings.Join(atoms, " ")
			}
			res[construct] = a
			order = append(order, construct)
		}
	}
	sort.Strings(order)
	for _, cst := range order {
		a := res[cst]
		r.Check("C19.R7", cst, r.Prog.Pos(a.pos), fnName,
			"an error return before the write has a documented reason: Get failed, the canary precondition is missing, or the annotation is present with the value that already expresses the requested state (never the mere absence of the annotation)", a.ok, a.detail)
	}
}

func c19Uniq(in []string) []string {
	var out []string
	for i, x := range in {
		if i == 0 || x != in[i-1] {
			out = append(out, x)
		}
	}
	return out
}
